(* Lib/DirTree.v -- a small abstract directory-tree library shared by the
   properties that walk a working tree (C46 clean-tree, C11 smart_add).

   A tree is [node := File | Symlink to_dir | Dir children]; a path is a list
   of segment names (byte strings); the empty path is the root.  [lookup] and
   [remove] recurse on the path, the generic [walk] recurses structurally on
   the node.  [walk_spec] characterises what a walk emits by following the
   path from the start ([reach]), which is how the property files state
   "p is deleted / added iff every step from the root to p allows it". *)
From Coq Require Import NArith List Bool Lia.
Import ListNotations.

Definition name := list N.
Definition path := list name.

Definition name_eq_dec : forall a b : name, {a = b} + {a <> b} := list_eq_dec N.eq_dec.
Definition path_eq_dec : forall a b : path, {a = b} + {a <> b} := list_eq_dec name_eq_dec.
Definition name_eqb (a b : name) : bool := if name_eq_dec a b then true else false.
Definition path_eqb (a b : path) : bool := if path_eq_dec a b then true else false.
Definition mem_name (c : name) (l : list name) : bool := existsb (name_eqb c) l.
Definition mem_path (p : path) (l : list path) : bool := existsb (path_eqb p) l.

(* [Symlink to_dir]: a symbolic link; [to_dir] says whether it resolves to a
   directory (only os.walk-based code can tell the difference). *)
Inductive node : Type :=
| File
| Symlink (to_dir : bool)
| Dir (children : list (name * node)).

Inductive kind := KFile | KSymlink | KDir.
Definition kind_of (n : node) : kind :=
  match n with File => KFile | Symlink _ => KSymlink | Dir _ => KDir end.
Definition is_dir (n : node) : bool := match n with Dir _ => true | _ => false end.
Definition kind_eqb (a b : kind) : bool :=
  match a, b with KFile, KFile | KSymlink, KSymlink | KDir, KDir => true | _, _ => false end.

Fixpoint find_child (c : name) (cs : list (name * node)) : option node :=
  match cs with
  | [] => None
  | (c', n) :: r => if name_eq_dec c c' then Some n else find_child c r
  end.

Fixpoint lookup (p : path) (t : node) : option node :=
  match p with
  | [] => Some t
  | c :: p' => match t with
               | Dir cs => match find_child c cs with Some n => lookup p' n | None => None end
               | _ => None
               end
  end.

Definition kind_at (p : path) (t : node) : option kind := option_map kind_of (lookup p t).

(* apply [f] to every child named [c]; [None] drops the child *)
Fixpoint map_child (c : name) (f : node -> option node) (cs : list (name * node)) : list (name * node) :=
  match cs with
  | [] => []
  | (c', n) :: r =>
      if name_eq_dec c c'
      then match f n with Some n' => (c', n') :: map_child c f r | None => map_child c f r end
      else (c', n) :: map_child c f r
  end.

(* lstat-based removal of the entry at [p] (a file, a symlink -- never followed --
   or a whole directory); the root itself cannot be removed; a missing path is a no-op *)
Fixpoint remove (p : path) (t : node) : node :=
  match p with
  | [] => t
  | c :: p' =>
      match t with
      | Dir cs => Dir (map_child c (fun n => match p' with [] => None | _ => Some (remove p' n) end) cs)
      | _ => t
      end
  end.

Definition remove_all (ps : list path) (t : node) : node := fold_left (fun t p => remove p t) ps t.

Fixpoint is_prefix (p q : path) : bool :=
  match p, q with
  | [], _ => true
  | a :: p', b :: q' => name_eqb a b && is_prefix p' q'
  | _ :: _, [] => false
  end.

Fixpoint nodupb (l : list name) : bool :=
  match l with [] => true | x :: r => negb (mem_name x r) && nodupb r end.

(* every directory has pairwise distinct child names *)
Fixpoint wf_node (n : node) : bool :=
  match n with
  | Dir cs => nodupb (map fst cs) &&
              (fix go (cs : list (name * node)) : bool :=
                 match cs with [] => true | (_, ch) :: r => wf_node ch && go r end) cs
  | _ => true
  end.

(* every path of the tree with its node, depth first, in child order *)
Fixpoint all_paths (q : path) (n : node) : list (path * node) :=
  match n with
  | Dir cs => (fix go (cs : list (name * node)) : list (path * node) :=
                 match cs with
                 | [] => []
                 | (c, ch) :: r => (q ++ [c], ch) :: all_paths (q ++ [c]) ch ++ go r
                 end) cs
  | _ => []
  end.

(* ------------------------------------------------------------------ *)
(* generic top-down walk                                               *)

Section Walk.
  Context {S A : Type}.
  (* [visit s q n]: what is emitted for the entry [q] (node [n]) reached with
     state [s], and whether (and with which state) its children are visited.
     Children are only ever visited when [n] is a real directory. *)
  Variable visit : S -> path -> node -> list A * option S.

  Fixpoint walk (s : S) (q : path) (n : node) : list A :=
    fst (visit s q n) ++
    match snd (visit s q n), n with
    | Some s', Dir cs =>
        (fix go (cs : list (name * node)) : list A :=
           match cs with
           | [] => []
           | (c, ch) :: r => walk s' (q ++ [c]) ch ++ go r
           end) cs
    | _, _ => []
    end.

  Definition walk_kids (s' : S) (q : path) (cs : list (name * node)) : list A :=
    flat_map (fun cn => walk s' (q ++ [fst cn]) (snd cn)) cs.

  (* the state and node with which [q ++ sfx] is visited, if the walk gets there *)
  Fixpoint reach (s : S) (q : path) (n : node) (sfx : path) : option (S * node) :=
    match sfx with
    | [] => Some (s, n)
    | c :: sfx' =>
        match snd (visit s q n), n with
        | Some s', Dir cs =>
            match find_child c cs with
            | Some ch => reach s' (q ++ [c]) ch sfx'
            | None => None
            end
        | _, _ => None
        end
    end.
End Walk.

(* ------------------------------------------------------------------ *)
(* facts                                                               *)

Lemma name_eqb_eq a b : name_eqb a b = true <-> a = b.
Proof. unfold name_eqb; destruct (name_eq_dec a b); split; congruence. Qed.
Lemma path_eqb_eq a b : path_eqb a b = true <-> a = b.
Proof. unfold path_eqb; destruct (path_eq_dec a b); split; congruence. Qed.
Lemma name_eqb_refl a : name_eqb a a = true.
Proof. apply name_eqb_eq; reflexivity. Qed.

Lemma mem_path_In p l : mem_path p l = true <-> In p l.
Proof.
  unfold mem_path; rewrite existsb_exists; split.
  - intros (x & Hx & E). apply path_eqb_eq in E. subst; assumption.
  - intros H. exists p; split; [assumption|apply path_eqb_eq; reflexivity].
Qed.
Lemma mem_name_In c l : mem_name c l = true <-> In c l.
Proof.
  unfold mem_name; rewrite existsb_exists; split.
  - intros (x & Hx & E). apply name_eqb_eq in E. subst; assumption.
  - intros H. exists c; split; [assumption|apply name_eqb_refl].
Qed.

Lemma is_prefix_spec p q : is_prefix p q = true <-> exists s, q = p ++ s.
Proof.
  revert q; induction p as [|a p IH]; intros q; simpl.
  - split; [intros _; exists q; reflexivity|reflexivity].
  - destruct q as [|b q].
    + split; [discriminate|intros (s & E); discriminate].
    + rewrite andb_true_iff, name_eqb_eq, IH. split.
      * intros (-> & s & ->). exists s; reflexivity.
      * intros (s & E). injection E as -> ->. split; [reflexivity|exists s; reflexivity].
Qed.

Lemma is_prefix_refl p : is_prefix p p = true.
Proof. apply is_prefix_spec. exists []. rewrite app_nil_r; reflexivity. Qed.

Lemma is_prefix_app p s : is_prefix p (p ++ s) = true.
Proof. apply is_prefix_spec. exists s; reflexivity. Qed.

(* two prefixes of the same path are comparable *)
Lemma prefix_comparable p p' q :
  is_prefix p q = true -> is_prefix p' q = true ->
  is_prefix p p' = true \/ is_prefix p' p = true.
Proof.
  revert p' q; induction p as [|a p IH]; intros p' q H1 H2; [left; reflexivity|].
  destruct p' as [|a' p']; [right; reflexivity|].
  destruct q as [|b q]; [discriminate|]. simpl in *.
  apply andb_true_iff in H1 as [E1 H1]. apply andb_true_iff in H2 as [E2 H2].
  apply name_eqb_eq in E1, E2. subst.
  rewrite name_eqb_refl. simpl. eapply IH; eassumption.
Qed.

Lemma find_child_In c cs n : find_child c cs = Some n -> In (c, n) cs.
Proof.
  induction cs as [|[c' n'] r IH]; simpl; [discriminate|].
  destruct (name_eq_dec c c') as [->|]; [intros [= ->]; left; reflexivity|].
  intros H; right; auto.
Qed.

Lemma In_find_child c cs n :
  nodupb (map fst cs) = true -> In (c, n) cs -> find_child c cs = Some n.
Proof.
  induction cs as [|[c' n'] r IH]; simpl; [intros _ []|].
  intros Hn [E|Hin]; apply andb_true_iff in Hn as [Hm Hn].
  - injection E as -> ->. destruct (name_eq_dec c c); congruence.
  - destruct (name_eq_dec c c') as [->|]; [|auto].
    exfalso. apply negb_true_iff in Hm.
    assert (mem_name c' (map fst r) = true) as X; [|congruence].
    apply mem_name_In. apply in_map_iff. exists (c', n); auto.
Qed.

Lemma wf_node_Dir cs :
  wf_node (Dir cs) = true ->
  nodupb (map fst cs) = true /\ forall c ch, In (c, ch) cs -> wf_node ch = true.
Proof.
  cbn [wf_node]. intros H. apply andb_true_iff in H as [Hn Hk]. split; [assumption|].
  clear Hn. induction cs as [|[c' n'] r IH]; [intros ? ? []|].
  apply andb_true_iff in Hk as [H1 H2].
  intros c ch [E|Hin]; [injection E as -> ->; assumption|eauto].
Qed.

Lemma wf_find_child cs c ch :
  wf_node (Dir cs) = true -> find_child c cs = Some ch -> wf_node ch = true.
Proof.
  intros Hw Hf. apply wf_node_Dir in Hw as [_ Hk]. eapply Hk, find_child_In, Hf.
Qed.

Lemma wf_lookup p : forall t n, wf_node t = true -> lookup p t = Some n -> wf_node n = true.
Proof.
  induction p as [|c p IH]; intros t n Hw; simpl.
  - intros [= ->]; assumption.
  - destruct t as [| |cs]; try discriminate.
    destruct (find_child c cs) as [ch|] eqn:E; [|discriminate].
    apply IH. eapply wf_find_child; eassumption.
Qed.

Lemma lookup_app p : forall q t,
  lookup (p ++ q) t = match lookup p t with Some n => lookup q n | None => None end.
Proof.
  induction p as [|c p IH]; intros q t; simpl; [reflexivity|].
  destruct t as [| |cs]; try reflexivity.
  destruct (find_child c cs); [apply IH|reflexivity].
Qed.

(* nothing lives below a non-directory *)
Lemma lookup_below_nondir p s t n :
  lookup p t = Some n -> is_dir n = false -> s <> [] -> lookup (p ++ s) t = None.
Proof.
  intros H Hd Hs. rewrite lookup_app, H. destruct s; [congruence|].
  destruct n; simpl in *; congruence.
Qed.

Lemma find_child_map_child_other d c f cs :
  d <> c -> find_child d (map_child c f cs) = find_child d cs.
Proof.
  intros Hne. induction cs as [|[c' n] r IH]; simpl; [reflexivity|].
  destruct (name_eq_dec c c') as [->|].
  - destruct (name_eq_dec d c'); [congruence|].
    destruct (f n); simpl; [destruct (name_eq_dec d c'); [congruence|]|]; exact IH.
  - simpl. destruct (name_eq_dec d c'); [reflexivity|exact IH].
Qed.

Lemma find_child_map_child_some c f g cs :
  (forall n, f n = Some (g n)) ->
  find_child c (map_child c f cs) = option_map g (find_child c cs).
Proof.
  intros Hf. induction cs as [|[c' n] r IH]; simpl; [reflexivity|].
  destruct (name_eq_dec c c') as [->|].
  - rewrite Hf. simpl. destruct (name_eq_dec c' c'); congruence.
  - simpl. destruct (name_eq_dec c c'); [congruence|exact IH].
Qed.

Lemma find_child_map_child_none c cs :
  find_child c (map_child c (fun _ => None) cs) = None.
Proof.
  induction cs as [|[c' n] r IH]; simpl; [reflexivity|].
  destruct (name_eq_dec c c') as [->|]; [exact IH|].
  simpl. destruct (name_eq_dec c c'); [congruence|exact IH].
Qed.

(* removal of [p] does not change the kind (existence) of anything that is not at or below [p] *)
Lemma kind_at_remove_other p : forall q t,
  is_prefix p q = false -> kind_at q (remove p t) = kind_at q t.
Proof.
  induction p as [|c p IH]; intros q t Hp; [discriminate|].
  destruct t as [| |cs]; try reflexivity.
  destruct q as [|d q]; [reflexivity|].
  cbn [remove]. unfold kind_at. cbn [lookup].
  destruct (name_eq_dec d c) as [->|Hne].
  - simpl in Hp. rewrite name_eqb_refl in Hp. simpl in Hp.
    destruct p as [|c2 p]; [destruct q; discriminate|].
    rewrite (find_child_map_child_some c _ (remove (c2 :: p))) by reflexivity.
    destruct (find_child c cs) as [ch|]; [|reflexivity]. simpl.
    apply (IH q ch Hp).
  - rewrite find_child_map_child_other by assumption. reflexivity.
Qed.

Lemma kind_at_remove_all_other ps : forall q t,
  (forall p, In p ps -> is_prefix p q = false) ->
  kind_at q (remove_all ps t) = kind_at q t.
Proof.
  induction ps as [|p ps IH]; intros q t H; [reflexivity|].
  unfold remove_all in *. simpl. rewrite IH by (intros; apply H; right; assumption).
  apply kind_at_remove_other. apply H; left; reflexivity.
Qed.

(* ... and whatever is at or below a removed non-root path is gone *)
Lemma lookup_remove_below p : forall s t, p <> [] -> lookup (p ++ s) (remove p t) = None.
Proof.
  induction p as [|c p IH]; intros s t Hp; [congruence|].
  destruct t as [| |cs]; try reflexivity.
  cbn [remove app lookup]. destruct p as [|c2 p].
  - rewrite find_child_map_child_none. reflexivity.
  - rewrite (find_child_map_child_some c _ (remove (c2 :: p))) by reflexivity.
    destruct (find_child c cs) as [ch|]; [|reflexivity]. simpl option_map. cbv iota.
    apply IH. discriminate.
Qed.

(* induction principle for the nested inductive *)
Section NodeInd.
  Variable P : node -> Prop.
  Hypothesis HF : P File.
  Hypothesis HS : forall b, P (Symlink b).
  Hypothesis HD : forall cs, (forall c ch, In (c, ch) cs -> P ch) -> P (Dir cs).
  Lemma node_ind' : forall n, P n.
  Proof.
    fix IH 1. intros [| b | cs]; [exact HF | exact (HS b) |].
    apply HD. induction cs as [|[c' ch'] r IHr]; intros c ch Hin.
    - destruct Hin.
    - destruct Hin as [E|Hin].
      + injection E as _ <-. apply IH.
      + eapply IHr; eassumption.
  Qed.
End NodeInd.

(* --- the walk ------------------------------------------------------ *)

Section WalkFacts.
  Context {S A : Type}.
  Variable visit : S -> path -> node -> list A * option S.

  Lemma walk_unfold s q n :
    walk visit s q n =
    fst (visit s q n) ++
    match snd (visit s q n), n with
    | Some s', Dir cs => walk_kids visit s' q cs
    | _, _ => []
    end.
  Proof.
    destruct n as [| |cs]; try reflexivity.
    cbn [walk]. destruct (snd (visit s q (Dir cs))) as [s'|]; [|reflexivity].
    f_equal. unfold walk_kids. induction cs as [|[c ch] r IH]; [reflexivity|].
    simpl. f_equal. exact IH.
  Qed.

  Lemma reach_app a : forall s q n b,
    reach visit s q n (a ++ b) =
    match reach visit s q n a with
    | Some (s1, n1) => reach visit s1 (q ++ a) n1 b
    | None => None
    end.
  Proof.
    induction a as [|c a IH]; intros s q n b.
    - simpl. rewrite app_nil_r. reflexivity.
    - cbn [app reach]. destruct (snd (visit s q n)) as [s'|]; [|reflexivity].
      destruct n as [| |cs]; try reflexivity.
      destruct (find_child c cs) as [ch|]; [|reflexivity].
      rewrite IH. rewrite <- app_assoc. reflexivity.
  Qed.

  Lemma reach_lookup sfx : forall s q n s' n',
    reach visit s q n sfx = Some (s', n') -> lookup sfx n = Some n'.
  Proof.
    induction sfx as [|c sfx IH]; intros s q n s' n'; simpl.
    - intros [= _ ->]; reflexivity.
    - destruct (snd (visit s q n)) as [s1|]; [|discriminate].
      destruct n as [| |cs]; try discriminate.
      destruct (find_child c cs) as [ch|]; [|discriminate]. apply IH.
  Qed.

  (* the walk descends below [q ++ a] only if [visit] said so there *)
  Lemma reach_descends a b s q n r :
    reach visit s q n (a ++ b) = Some r -> b <> [] ->
    exists s1 n1 s2 cs, reach visit s q n a = Some (s1, n1) /\
                        snd (visit s1 (q ++ a) n1) = Some s2 /\ n1 = Dir cs.
  Proof.
    rewrite reach_app. destruct (reach visit s q n a) as [[s1 n1]|]; [|discriminate].
    destruct b as [|c b]; [congruence|]. intros H _. cbn [reach] in H.
    destruct (snd (visit s1 (q ++ a) n1)) as [s2|] eqn:E; [|discriminate].
    destruct n1 as [| |cs]; try discriminate.
    exists s1, (Dir cs), s2, cs. auto.
  Qed.

  Lemma walk_sound : forall n s q x,
    wf_node n = true -> In x (walk visit s q n) ->
    exists sfx s' n', reach visit s q n sfx = Some (s', n') /\
                      In x (fst (visit s' (q ++ sfx) n')).
  Proof.
    induction n as [| b | cs IH] using node_ind'; intros s q x Hw Hin;
      rewrite walk_unfold in Hin; apply in_app_or in Hin as [Hin|Hin];
      try (exists [], s; eexists; rewrite app_nil_r; split; [reflexivity|assumption]);
      try (destruct (snd (visit s q _)); destruct Hin).
    destruct (snd (visit s q (Dir cs))) as [s1|] eqn:E; [|destruct Hin].
    apply wf_node_Dir in Hw as [Hn Hk].
    unfold walk_kids in Hin. apply in_flat_map in Hin as ([c ch] & Hc & Hx). simpl in Hx.
    destruct (IH c ch Hc s1 (q ++ [c]) x (Hk c ch Hc) Hx) as (sfx & s' & n' & Hr & Hv).
    exists (c :: sfx), s', n'. split.
    - cbn [reach]. rewrite E. rewrite (In_find_child c cs ch Hn Hc). exact Hr.
    - rewrite <- app_assoc in Hv. exact Hv.
  Qed.

  Lemma walk_complete : forall sfx n s q s' n' x,
    reach visit s q n sfx = Some (s', n') -> In x (fst (visit s' (q ++ sfx) n')) ->
    In x (walk visit s q n).
  Proof.
    induction sfx as [|c sfx IH]; intros n s q s' n' x Hr Hv; rewrite walk_unfold.
    - simpl in Hr. injection Hr as <- <-. rewrite app_nil_r in Hv.
      apply in_or_app; left; assumption.
    - cbn [reach] in Hr. destruct (snd (visit s q n)) as [s1|]; [|discriminate].
      destruct n as [| |cs]; try discriminate.
      destruct (find_child c cs) as [ch|] eqn:E; [|discriminate].
      apply in_or_app; right. unfold walk_kids. apply in_flat_map.
      exists (c, ch). split; [apply find_child_In; assumption|].
      simpl. eapply IH; [exact Hr|]. rewrite <- app_assoc. exact Hv.
  Qed.

  Theorem walk_spec n s q x :
    wf_node n = true ->
    (In x (walk visit s q n) <->
     exists sfx s' n', reach visit s q n sfx = Some (s', n') /\
                       In x (fst (visit s' (q ++ sfx) n'))).
  Proof.
    intros Hw; split; [apply walk_sound; assumption|].
    intros (sfx & s' & n' & Hr & Hv). eapply walk_complete; eassumption.
  Qed.
End WalkFacts.
