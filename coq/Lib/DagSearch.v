(* Lib/DagSearch.v -- revision graphs as association lists and the breadth-first
   searcher with stop keys (definitions only; lemmas are in Theory/DagSearch.v).

   Revisions are [nat].  A graph / parent map is [list (nat * list nat)]
   (a Python dict {rev: parents}); a revision that is referenced but is not a key
   is a ghost.  Sets are lists (membership by [memb]).

   [bfs] models the ENVIRONMENT class vcsgraph._BreadthFirstSearcher (compiled,
   site-packages) driven by the loop that both breezy call sites use:

       s = graph._make_breadth_first_searcher(start)
       while True:
           try: next_revs = next(s)
           except StopIteration: break
           s.stop_searching_any(exclude.intersection(next_revs))
       started, excludes, included = s.get_state()

   It is validated against the real class on every correspondence run. *)
From Coq Require Import Arith List Bool.
Import ListNotations.

Definition graph := list (nat * list nat).

Definition memb (x : nat) (l : list nat) : bool := existsb (Nat.eqb x) l.
Definition diff (a b : list nat) : list nat := filter (fun x => negb (memb x b)) a.
Definition inter (a b : list nat) : list nat := filter (fun x => memb x b) a.
Definition dedup (l : list nat) : list nat := nodup Nat.eq_dec l.

Fixpoint lookup (g : graph) (k : nat) : option (list nat) :=
  match g with
  | [] => None
  | (k', ps) :: g' => if Nat.eqb k k' then Some ps else lookup g' k
  end.
Definition in_dom (g : graph) (k : nat) : bool :=
  match lookup g k with Some _ => true | None => false end.
Definition parents (g : graph) (k : nat) : list nat :=
  match lookup g k with Some ps => ps | None => [] end.
Definition keys (g : graph) : list nat := map fst g.
(* itertools.chain.from_iterable(parent_map.values()) *)
Definition all_parents (g : graph) : list nat := flat_map snd g.

(* One trip round the loop per recursive call.  State of the searcher:
     nq      = _next_query (what the pending next() is about to return)
     seen    = seen
     stopped = _stopped_keys
     refs    = union of all _current_parents.values() observed so far
   next():  (first call just switches mode; later calls _advance() first, which
            is folded into the END of the previous trip)  if not nq: StopIteration;
            seen.update(nq); return nq
   stop_searching_any(excl & nq) in 'next' mode: nq -= revs; _stopped_keys |= revs
   _advance()/_do_query(nq): parent_map = get_parent_map(nq); found = its keys;
            ghosts = nq - found; _stopped_keys |= ghosts;
            nq = {p for parents of found if p not in seen}; _current_parents = parent_map *)
Fixpoint bfs_loop (fuel : nat) (g : graph) (excl nq seen stopped refs : list nat)
  : option (list nat * list nat * list nat) :=
  match nq with
  | [] => Some (seen, stopped, refs)
  | _ :: _ =>
    match fuel with
    | 0 => None
    | S f =>
      let seen1 := nq ++ seen in
      let stop_now := inter nq excl in
      let nq1 := diff nq excl in
      let found := filter (in_dom g) nq1 in
      let ghosts := filter (fun r => negb (in_dom g r)) nq1 in
      let par := flat_map (parents g) found in
      let nq2 := dedup (filter (fun p => negb (memb p seen1)) par) in
      bfs_loop f g excl nq2 seen1 (ghosts ++ stop_now ++ stopped) (par ++ refs)
    end
  end.

(* every revision the search can ever see is a start key or a referenced parent *)
Definition universe (g : graph) (start : list nat) : list nat := start ++ all_parents g.
Definition bfs_fuel (g : graph) (start : list nat) : nat := S (length (universe g start)).

(* Some (seen, _stopped_keys, refs) ; None = out of fuel (never: Theory.DagSearch.bfs_spec) *)
Definition bfs (g : graph) (start excl : list nat) : option (list nat * list nat * list nat) :=
  bfs_loop (bfs_fuel g start) g excl (dedup start) [] [] [].

(* get_state()[2] after the loop: seen - (_stopped_keys | _next_query), _next_query = {} *)
Definition included_of (seen stopped : list nat) : list nat := diff seen stopped.

(* canonical (sorted, duplicate-free) listing of a set whose members are < bound *)
Definition canon (bound : nat) (s : list nat) : list nat :=
  filter (fun i => memb i s) (seq 0 bound).
