(* Lib/Tree17.v -- small abstract versioned trees for C17 (tree merge laws).

   A tree maps a file id (a [nat]; the root directory is the implicit id 0 and is
   not an entry) to an entry {parent id; name; body}.  The body carries exactly
   what breezy compares: the kind, the text / symlink target, and -- for files
   only -- the executable bit (InventoryEntry.executable is False for
   directories and symlinks, so the type has no such bit for them).

   Also: the "views" of an optional entry that Merge3Merger compares (None for
   an absent entry), boolean equalities with their specifications. *)
From Coq Require Import List Bool Arith NArith.
From BV Require Import Lib.Bytes.
Import ListNotations.

Inductive kind := KFile | KDir | KLink.

Inductive body :=
| BFile (c : bytes) (x : bool)
| BDir
| BLink (tgt : bytes).

Record entry := mkE { e_parent : nat; e_name : bytes; e_body : body }.

Definition tree := nat -> option entry.

(* ---- boolean equalities --------------------------------------------------- *)

Definition kind_eqb (a b : kind) : bool :=
  match a, b with KFile, KFile | KDir, KDir | KLink, KLink => true | _, _ => false end.

Definition opt_eqb {A} (eqb : A -> A -> bool) (a b : option A) : bool :=
  match a, b with
  | None, None => true
  | Some x, Some y => eqb x y
  | _, _ => false
  end.

Definition prod_eqb {A B} (ea : A -> A -> bool) (eb : B -> B -> bool) (a b : A * B) : bool :=
  ea (fst a) (fst b) && eb (snd a) (snd b).

Definition body_eqb (a b : body) : bool :=
  match a, b with
  | BFile c x, BFile c' x' => bytes_eqb c c' && Bool.eqb x x'
  | BDir, BDir => true
  | BLink s, BLink s' => bytes_eqb s s'
  | _, _ => false
  end.

Definition entry_eqb (a b : entry) : bool :=
  Nat.eqb (e_parent a) (e_parent b) && bytes_eqb (e_name a) (e_name b) && body_eqb (e_body a) (e_body b).

Definition is_spec {A} (eqb : A -> A -> bool) : Prop := forall x y, eqb x y = true <-> x = y.

Lemma bytes_eqb_spec17 : is_spec bytes_eqb.
Proof.
  intros a. unfold bytes_eqb. induction a as [|x a IH]; intros [|y b]; split; intros H; try discriminate; try reflexivity.
  - apply andb_true_iff in H as [H1 H2]. apply N.eqb_eq in H1. apply IH in H2. subst. reflexivity.
  - injection H as -> ->. apply andb_true_iff. split; [apply N.eqb_refl|apply IH; reflexivity].
Qed.

Lemma nat_eqb_spec17 : is_spec Nat.eqb.
Proof. intros x y. apply Nat.eqb_eq. Qed.

Lemma bool_eqb_spec17 : is_spec Bool.eqb.
Proof. intros x y. apply Bool.eqb_true_iff. Qed.

Lemma kind_eqb_spec : is_spec kind_eqb.
Proof. intros [] []; simpl; split; congruence. Qed.

Lemma opt_eqb_spec {A} (eqb : A -> A -> bool) : is_spec eqb -> is_spec (opt_eqb eqb).
Proof.
  intros H [x|] [y|]; simpl; split; intros E; try discriminate; try reflexivity.
  - apply H in E. subst. reflexivity.
  - injection E as ->. apply H. reflexivity.
Qed.

Lemma prod_eqb_spec {A B} (ea : A -> A -> bool) (eb : B -> B -> bool) :
  is_spec ea -> is_spec eb -> is_spec (prod_eqb ea eb).
Proof.
  intros Ha Hb [a1 b1] [a2 b2]. unfold prod_eqb. simpl. rewrite andb_true_iff, (Ha a1 a2), (Hb b1 b2).
  split; [intros [-> ->]; reflexivity|intros E; injection E as -> ->; auto].
Qed.

Lemma body_eqb_spec : is_spec body_eqb.
Proof.
  intros [c x| |s] [c' x'| |s']; simpl; split; intros H; try discriminate; try reflexivity.
  - apply andb_true_iff in H as [H1 H2]. apply bytes_eqb_spec17 in H1. apply Bool.eqb_prop in H2. subst. reflexivity.
  - injection H as -> ->. apply andb_true_iff. split; [apply bytes_eqb_spec17; reflexivity|apply Bool.eqb_reflx].
  - apply bytes_eqb_spec17 in H. subst. reflexivity.
  - injection H as ->. apply bytes_eqb_spec17. reflexivity.
Qed.

Lemma entry_eqb_spec : is_spec entry_eqb.
Proof.
  intros [p n b] [p' n' b']. unfold entry_eqb. simpl.
  rewrite !andb_true_iff, Nat.eqb_eq, (bytes_eqb_spec17 n n'), (body_eqb_spec b b').
  split; [intros [[-> ->] ->]; reflexivity|intros E; injection E as -> -> ->; auto].
Qed.

Lemma spec_refl {A} (eqb : A -> A -> bool) : is_spec eqb -> forall x, eqb x x = true.
Proof. intros H x. apply H. reflexivity. Qed.

Lemma spec_neq {A} (eqb : A -> A -> bool) : is_spec eqb -> forall x y, x <> y -> eqb x y = false.
Proof. intros H x y N. destruct (eqb x y) eqn:E; [apply H in E; contradiction|reflexivity]. Qed.

Lemma spec_false {A} (eqb : A -> A -> bool) : is_spec eqb -> forall x y, eqb x y = false -> x <> y.
Proof. intros H x y E N. apply H in N. congruence. Qed.

(* ---- the views Merge3Merger compares --------------------------------------- *)

Definition kind_of (b : body) : kind :=
  match b with BFile _ _ => KFile | BDir => KDir | BLink _ => KLink end.

(* InventoryEntry.executable / TreeChange.executable: False unless an executable file *)
Definition exec_of (b : body) : bool := match b with BFile _ x => x | _ => false end.

(* the second half of contents_pair: sha1 (= the text) / symlink target / None *)
Definition content_of (b : body) : option bytes :=
  match b with BFile c _ => Some c | BDir => None | BLink s => Some s end.

Definition vname (e : option entry) : option bytes := option_map e_name e.
Definition vparent (e : option entry) : option nat := option_map e_parent e.
Definition vkind (e : option entry) : option kind := option_map (fun e => kind_of (e_body e)) e.
Definition vexec (e : option entry) : option bool := option_map (fun e => exec_of (e_body e)) e.
(* contents_pair(tree, path): (None, None) for an absent file *)
Definition vpair (e : option entry) : option (kind * option bytes) :=
  option_map (fun e => (kind_of (e_body e), content_of (e_body e))) e.
(* get_sha1 in _entries_lca: None unless a file *)
Definition vsha (e : option entry) : option bytes :=
  match e with Some (mkE _ _ (BFile c _)) => Some c | _ => None end.
(* get_target in _entries_lca: None unless a symlink *)
Definition vtarget (e : option entry) : option bytes :=
  match e with Some (mkE _ _ (BLink s)) => Some s | _ => None end.

Definition oname_eqb := opt_eqb bytes_eqb.
Definition opar_eqb := opt_eqb Nat.eqb.
Definition okind_eqb := opt_eqb kind_eqb.
Definition oexec_eqb := opt_eqb Bool.eqb.
Definition obytes_eqb := opt_eqb bytes_eqb.
Definition opair_eqb := opt_eqb (prod_eqb kind_eqb obytes_eqb).
Definition oentry_eqb := opt_eqb entry_eqb.

Lemma oname_eqb_spec : is_spec oname_eqb.
Proof. apply opt_eqb_spec, bytes_eqb_spec17. Qed.
Lemma opar_eqb_spec : is_spec opar_eqb.
Proof. apply opt_eqb_spec, nat_eqb_spec17. Qed.
Lemma okind_eqb_spec : is_spec okind_eqb.
Proof. apply opt_eqb_spec, kind_eqb_spec. Qed.
Lemma oexec_eqb_spec : is_spec oexec_eqb.
Proof. apply opt_eqb_spec, bool_eqb_spec17. Qed.
Lemma obytes_eqb_spec : is_spec obytes_eqb.
Proof. apply opt_eqb_spec, bytes_eqb_spec17. Qed.
Lemma opair_eqb_spec : is_spec opair_eqb.
Proof. apply opt_eqb_spec, prod_eqb_spec; [apply kind_eqb_spec|apply obytes_eqb_spec]. Qed.
Lemma oentry_eqb_spec : is_spec oentry_eqb.
Proof. apply opt_eqb_spec, entry_eqb_spec. Qed.

(* set the executable bit of a file body (TreeTransform.set_executability on a file) *)
Definition set_exec (b : body) (x : bool) : body :=
  match b with BFile c _ => BFile c x | _ => b end.

(* a body as create_from_tree re-creates it: new files are not executable *)
Definition fresh_body (b : body) : body := set_exec b false.

(* an entry is determined by its views *)
Lemma body_views_eq (a b : body) :
  kind_of a = kind_of b -> content_of a = content_of b -> exec_of a = exec_of b -> a = b.
Proof. destruct a, b; simpl; intros H1 H2 H3; try discriminate; congruence. Qed.

Lemma entry_views_eq (a b : entry) :
  e_parent a = e_parent b -> e_name a = e_name b ->
  kind_of (e_body a) = kind_of (e_body b) -> content_of (e_body a) = content_of (e_body b) ->
  exec_of (e_body a) = exec_of (e_body b) -> a = b.
Proof.
  destruct a, b; simpl. intros -> -> H1 H2 H3. f_equal. apply body_views_eq; assumption.
Qed.

(* association-list trees for the correspondence run *)
Fixpoint alookup (l : list (nat * entry)) (f : nat) : option entry :=
  match l with
  | [] => None
  | (g, e) :: l' => if Nat.eqb g f then Some e else alookup l' f
  end.
