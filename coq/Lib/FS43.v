(* Lib/FS43.v -- a small abstract remote file system for C43 (bzr-upload).

   A remote directory is a finite map  path -> node  (File content exec | Dir |
   Link target).  It is represented by a lookup function plus a list covering
   its support (needed to decide "directory not empty").  The operations are
   the dromedary LocalTransport operations the uploader uses; their success /
   failure behaviour (which exception class) is ENVIRONMENT behaviour (code
   outside /repo: dromedary + POSIX) and was transcribed from experiments; the
   correspondence run of C43 validates it.

   Definitions first, then the pointwise specifications ("look after op"). *)
From Coq Require Import NArith List Bool Arith Lia.
From BV Require Import Lib.Bytes.
Import ListNotations.
Open Scope list_scope.

(* ---------- names and paths ---------- *)
Inductive name :=
| NIgn                 (* ".bzrignore-upload" *)
| Nm (n : N)           (* an ordinary name (harness: 1='a', 2='b', ...) *)
| NMark                (* ".bzr-upload.revid", the marker *)
| Tmp (k : nat).       (* ".tmp.<stamp>", k-th temporary of one upload *)

Definition name_eqb (a b : name) : bool :=
  match a, b with
  | NIgn, NIgn => true
  | Nm x, Nm y => N.eqb x y
  | NMark, NMark => true
  | Tmp x, Tmp y => Nat.eqb x y
  | _, _ => false
  end.

Lemma name_eqb_spec a b : reflect (a = b) (name_eqb a b).
Proof.
  destruct a, b; simpl; try (constructor; congruence).
  - destruct (N.eqb_spec n n0); constructor; congruence.
  - destruct (Nat.eqb_spec k k0); constructor; congruence.
Qed.

Lemma name_eqb_refl a : name_eqb a a = true.
Proof. destruct (name_eqb_spec a a); congruence. Qed.

Definition path := list name.

Fixpoint path_eqb (a b : path) : bool :=
  match a, b with
  | [], [] => true
  | x :: a', y :: b' => name_eqb x y && path_eqb a' b'
  | _, _ => false
  end.

Lemma path_eqb_spec a b : reflect (a = b) (path_eqb a b).
Proof.
  revert b; induction a as [|x a IH]; intros [|y b]; simpl; try (constructor; congruence).
  destruct (name_eqb_spec x y) as [->|N]; simpl.
  - destruct (IH b) as [->|N]; constructor; congruence.
  - constructor; congruence.
Qed.

Lemma path_eqb_refl a : path_eqb a a = true.
Proof. destruct (path_eqb_spec a a); congruence. Qed.

Lemma path_eqb_neq a b : a <> b -> path_eqb a b = false.
Proof. destruct (path_eqb_spec a b); congruence. Qed.

(* [under a q = Some s]  iff  q = a ++ s  (a is a prefix of q, s the rest) *)
Fixpoint under (a q : path) : option path :=
  match a, q with
  | [], _ => Some q
  | x :: a', y :: q' => if name_eqb x y then under a' q' else None
  | _ :: _, [] => None
  end.

Lemma under_Some a q s : under a q = Some s <-> q = a ++ s.
Proof.
  revert q; induction a as [|x a IH]; intros q; simpl.
  - split; congruence.
  - destruct q as [|y q]; [split; congruence|].
    destruct (name_eqb_spec x y) as [->|N].
    + rewrite IH; split; congruence.
    + split; congruence.
Qed.

Lemma under_app a s : under a (a ++ s) = Some s.
Proof. apply under_Some; reflexivity. Qed.

Lemma under_None a q : under a q = None <-> forall s, q <> a ++ s.
Proof.
  split.
  - intros H s E. apply under_Some in E. congruence.
  - intros H. destruct (under a q) as [s|] eqn:E; [|reflexivity].
    apply under_Some in E. exfalso; eapply H; eauto.
Qed.

Definition isSome {A} (o : option A) : bool := match o with Some _ => true | None => false end.
Definition prefixb (a q : path) : bool := isSome (under a q).
Definition strictb (a q : path) : bool :=
  match under a q with Some (_ :: _) => true | _ => false end.

Lemma prefixb_true a q : prefixb a q = true <-> exists s, q = a ++ s.
Proof.
  unfold prefixb. destruct (under a q) as [s|] eqn:E; simpl.
  - apply under_Some in E. split; eauto.
  - split; [discriminate|]. intros [s Hs]. apply under_Some in Hs. congruence.
Qed.

Lemma prefixb_false a q : prefixb a q = false <-> forall s, q <> a ++ s.
Proof.
  unfold prefixb. destruct (under a q) as [s|] eqn:E; simpl.
  - apply under_Some in E. split; [discriminate|]. intros H. exfalso; eapply H; eauto.
  - split; [|reflexivity]. intros _. apply under_None; exact E.
Qed.

Lemma prefixb_app a s : prefixb a (a ++ s) = true.
Proof. apply prefixb_true; eauto. Qed.

Lemma prefixb_refl a : prefixb a a = true.
Proof. apply prefixb_true; exists []; rewrite app_nil_r; reflexivity. Qed.

Lemma strictb_true a q : strictb a q = true <-> exists x s, q = a ++ x :: s.
Proof.
  unfold strictb. destruct (under a q) as [[|x s]|] eqn:E.
  - apply under_Some in E. split; [discriminate|].
    intros (x & s & H). rewrite H in E. rewrite app_nil_r in E.
    rewrite <- (app_nil_r a) in E at 2. apply app_inv_head in E. discriminate.
  - apply under_Some in E. split; eauto.
  - split; [discriminate|]. intros (x & s & H). apply under_Some in H. congruence.
Qed.

Lemma strictb_prefixb a q : strictb a q = true -> prefixb a q = true.
Proof. intros H. apply strictb_true in H as (x & s & ->). apply prefixb_app. Qed.

Definition parent (p : path) : path := removelast p.

Lemma parent_snoc q x : parent (q ++ [x]) = q.
Proof. unfold parent. apply removelast_last. Qed.

Lemma path_snoc_cases (p : path) : p = [] \/ exists q x, p = q ++ [x].
Proof.
  destruct p as [|y p]; [left; reflexivity|right].
  destruct (@exists_last _ (y :: p)) as (q & x & E); [discriminate|].
  exists q, x. exact E.
Qed.

Lemma path_parent_last (p : path) : p <> [] -> exists x, p = parent p ++ [x].
Proof.
  intros N. destruct (path_snoc_cases p) as [->|(q & x & ->)]; [congruence|].
  exists x. rewrite parent_snoc. reflexivity.
Qed.

(* two prefixes of one path are comparable *)
Lemma prefix_comparable (a b : path) s t :
  a ++ s = b ++ t -> (exists u, a = b ++ u) \/ (exists u, b = a ++ u).
Proof.
  revert b; induction a as [|x a IH]; intros b E.
  - right. exists b. reflexivity.
  - destruct b as [|y b].
    + left. exists (x :: a). reflexivity.
    + simpl in E. injection E as -> E. destruct (IH _ E) as [(u & ->)|(u & ->)].
      * left; exists u; reflexivity.
      * right; exists u; reflexivity.
Qed.

(* ---------- nodes, errors, file systems ---------- *)
Inductive node := File (c : bytes) (x : bool) | Dir | Link (t : name).

Inductive err :=
| NoSuchFile | FileExists | DirectoryNotEmpty | ReadError | InvalidURL
| NotADirectoryError | OSError | NotImplemented.

(* dromedary: is the exception a transport PathError (caught by the
   uploader's "except PathError" clauses)? *)
Definition is_path_error (e : err) : bool :=
  match e with NotADirectoryError | OSError | NotImplemented => false | _ => true end.

Record fs := mkfs { look : path -> option node; dom : list path }.

Definition fs_empty : fs := mkfs (fun _ => None) [].

(* the support list really covers the support *)
Definition dom_ok (f : fs) : Prop := forall q, look f q <> None -> In q (dom f).

Definition is_dirb (o : option node) : bool := match o with Some Dir => true | _ => false end.

(* the directory that must exist for p to be created; the root always exists *)
Definition parent_ok (f : fs) (p : path) : bool :=
  match parent p with [] => true | q => is_dirb (look f q) end.

Definition has_child (f : fs) (p : path) : bool :=
  existsb (fun q => strictb p q && isSome (look f q)) (dom f).

Definition fs_set (p : path) (n : node) (f : fs) : fs :=
  mkfs (fun q => if path_eqb q p then Some n else look f q) (p :: dom f).
Definition fs_del (p : path) (f : fs) : fs :=
  mkfs (fun q => if path_eqb q p then None else look f q) (dom f).
Definition fs_del_tree (p : path) (f : fs) : fs :=
  mkfs (fun q => if prefixb p q then None else look f q) (dom f).
Definition fs_move (a b : path) (f : fs) : fs :=
  mkfs (fun q => match under b q with
                 | Some s => look f (a ++ s)
                 | None => if prefixb a q then None else look f q
                 end)
       (map (fun q => match under a q with Some s => b ++ s | None => q end) (dom f)).

Inductive res (A : Type) := Ok (a : A) | Er (e : err).
Arguments Ok {A} a.
Arguments Er {A} e.

(* Transport.put_bytes(relpath, bytes, mode): atomic replace; the exec bit is
   what mode says. *)
Definition t_put (p : path) (c : bytes) (x : bool) (f : fs) : res fs :=
  if negb (parent_ok f p) then
    match look f (parent p) with
    | Some (File _ _) => Er NotADirectoryError
    | _ => Er NoSuchFile
    end
  else match look f p with
       | Some Dir => Er ReadError
       | _ => Ok (fs_set p (File c x) f)
       end.

Definition t_delete (p : path) (f : fs) : res fs :=
  match look f p with
  | None => Er NoSuchFile
  | Some Dir => Er ReadError
  | Some _ => Ok (fs_del p f)
  end.

Definition t_rmdir (p : path) (f : fs) : res fs :=
  match look f p with
  | Some Dir => if has_child f p then Er DirectoryNotEmpty else Ok (fs_del p f)
  | _ => Er NoSuchFile
  end.

Definition t_mkdir (p : path) (f : fs) : res fs :=
  if negb (parent_ok f p) then Er NoSuchFile
  else match look f p with
       | Some _ => Er FileExists
       | None => Ok (fs_set p Dir f)
       end.

Definition t_stat (p : path) (f : fs) : res node :=
  match look f p with Some n => Ok n | None => Er NoSuchFile end.

Definition t_delete_tree (p : path) (f : fs) : res fs :=
  match look f p with
  | Some Dir => Ok (fs_del_tree p f)
  | Some (Link _) => Ok (fs_del p f)
  | _ => Er NoSuchFile
  end.

(* LocalTransport.symlink(source, link_name): the link gets the path of
   [source] relative to the directory of the link; [source] has to be below
   that directory. *)
Definition t_symlink (src link : path) (f : fs) : res fs :=
  match under (parent link) src with
  | Some [t] =>
      if negb (parent_ok f link) then Er NoSuchFile
      else match look f link with
           | Some _ => Er FileExists
           | None => Ok (fs_set link (Link t) f)
           end
  | _ => Er InvalidURL
  end.

(* LocalTransport.rename = os.rename *)
Definition t_rename (a b : path) (f : fs) : res fs :=
  match look f a with
  | None => Er NoSuchFile
  | Some na =>
      if path_eqb a b then Ok f
      else if negb (parent_ok f b) then Er NoSuchFile
      else if prefixb a b then Er OSError
      else match na, look f b with
           | Dir, Some Dir => if has_child f b then Er DirectoryNotEmpty else Ok (fs_move a b f)
           | Dir, Some _ => Er NoSuchFile
           | Dir, None => Ok (fs_move a b f)
           | _, Some Dir => Er ReadError
           | _, _ => Ok (fs_move a b f)
           end
  end.

(* ---------- specifications ---------- *)
Lemma look_set p n f q : look (fs_set p n f) q = if path_eqb q p then Some n else look f q.
Proof. reflexivity. Qed.
Lemma look_del p f q : look (fs_del p f) q = if path_eqb q p then None else look f q.
Proof. reflexivity. Qed.
Lemma look_move a b f q :
  look (fs_move a b f) q =
  match under b q with
  | Some s => look f (a ++ s)
  | None => if prefixb a q then None else look f q
  end.
Proof. reflexivity. Qed.

Lemma dom_ok_empty : dom_ok fs_empty.
Proof. intros q H. simpl in H. congruence. Qed.

Lemma dom_ok_set p n f : dom_ok f -> dom_ok (fs_set p n f).
Proof.
  intros H q Hq. simpl in *. destruct (path_eqb_spec q p) as [E|E]; [left; auto|right; auto].
Qed.
Lemma dom_ok_del p f : dom_ok f -> dom_ok (fs_del p f).
Proof.
  intros H q Hq. simpl in *. destruct (path_eqb q p); [congruence|auto].
Qed.
Lemma dom_ok_del_tree p f : dom_ok f -> dom_ok (fs_del_tree p f).
Proof.
  intros H q Hq. simpl in *. destruct (prefixb p q); [congruence|auto].
Qed.
Lemma dom_ok_move a b f : dom_ok f -> dom_ok (fs_move a b f).
Proof.
  intros H q Hq. simpl in *. apply in_map_iff.
  destruct (under b q) as [s|] eqn:E.
  - apply under_Some in E. subst q. exists (a ++ s). rewrite under_app. auto.
  - destruct (prefixb a q) eqn:P; [congruence|].
    exists q. split; [|auto].
    unfold prefixb in P. destruct (under a q); [discriminate|reflexivity].
Qed.

Lemma has_child_false f p :
  dom_ok f -> has_child f p = false ->
  forall x s, look f (p ++ x :: s) = None.
Proof.
  intros D H x s. unfold has_child in H.
  destruct (look f (p ++ x :: s)) eqn:L; [|reflexivity].
  assert (In (p ++ x :: s) (dom f)) as I by (apply D; congruence).
  assert (existsb (fun q => strictb p q && isSome (look f q)) (dom f) = true) as C.
  { apply existsb_exists. exists (p ++ x :: s). split; [exact I|].
    rewrite L. simpl. rewrite andb_true_r. apply strictb_true. eauto. }
  congruence.
Qed.

Lemma has_child_false_intro f p :
  (forall x s, look f (p ++ x :: s) = None) -> has_child f p = false.
Proof.
  intros H. unfold has_child.
  destruct (existsb _ (dom f)) eqn:E; [|reflexivity].
  apply existsb_exists in E as (q & _ & Hq).
  apply andb_true_iff in Hq as [S L]. apply strictb_true in S as (x & s & ->).
  rewrite H in L. discriminate.
Qed.

Lemma t_op_dom_ok :
  forall f, dom_ok f ->
  (forall p c x f', t_put p c x f = Ok f' -> dom_ok f') /\
  (forall p f', t_delete p f = Ok f' -> dom_ok f') /\
  (forall p f', t_rmdir p f = Ok f' -> dom_ok f') /\
  (forall p f', t_mkdir p f = Ok f' -> dom_ok f') /\
  (forall p f', t_delete_tree p f = Ok f' -> dom_ok f') /\
  (forall a b f', t_symlink a b f = Ok f' -> dom_ok f') /\
  (forall a b f', t_rename a b f = Ok f' -> dom_ok f').
Proof.
  intros f D. repeat split; intros.
  - unfold t_put in H. destruct (negb _); [destruct (look f (parent p)) as [[]|]; discriminate|].
    destruct (look f p) as [[]|]; inversion H; apply dom_ok_set; auto.
  - unfold t_delete in H. destruct (look f p) as [[]|]; inversion H; apply dom_ok_del; auto.
  - unfold t_rmdir in H. destruct (look f p) as [[]|]; try discriminate.
    destruct (has_child f p); inversion H; apply dom_ok_del; auto.
  - unfold t_mkdir in H. destruct (negb _); [discriminate|].
    destruct (look f p); inversion H; apply dom_ok_set; auto.
  - unfold t_delete_tree in H. destruct (look f p) as [[]|]; inversion H;
      [apply dom_ok_del_tree|apply dom_ok_del]; auto.
  - unfold t_symlink in H. destruct (under _ _) as [[|t [|]]|]; try discriminate.
    destruct (negb _); [discriminate|].
    destruct (look f b); inversion H; apply dom_ok_set; auto.
  - unfold t_rename in H. destruct (look f a) as [na|]; [|discriminate].
    destruct (path_eqb a b); [inversion H; subst; auto|].
    destruct (negb _); [discriminate|]. destruct (prefixb a b); [discriminate|].
    destruct na, (look f b) as [[]|]; try discriminate;
      try (destruct (has_child f b); try discriminate);
      inversion H; apply dom_ok_move; auto.
Qed.

(* ---------- order on paths (Python string order of the harness names) and
   a sorting function, used for the deterministic change lists ---------- *)
Definition name_rank (a : name) : N * N :=
  match a with
  | NIgn => (0, 0) | Nm n => (1, n) | NMark => (2, 0) | Tmp k => (3, N.of_nat k)
  end%N.
Definition name_leb (a b : name) : bool :=
  let '(r1, x1) := name_rank a in
  let '(r2, x2) := name_rank b in
  (r1 <? r2)%N || ((r1 =? r2)%N && (x1 <=? x2)%N).

Fixpoint path_leb (a b : path) : bool :=
  match a, b with
  | [], _ => true
  | _ :: _, [] => false
  | x :: a', y :: b' => if name_eqb x y then path_leb a' b' else name_leb x y
  end.

Section Sort.
  Context {A : Type} (key : A -> path).
  Fixpoint insert_by (x : A) (l : list A) : list A :=
    match l with
    | [] => [x]
    | y :: l' => if path_leb (key x) (key y) then x :: l else y :: insert_by x l'
    end.
  Definition sort_by (l : list A) : list A := fold_right insert_by [] l.
End Sort.
