(* Lib/Dag.v -- revision graphs shared by all history properties (DESIGN 2.3).

   A revision is a [nat]; a graph is a [list (list nat)] whose entry [i] lists
   the parents of revision [i], left-hand parent first.  A parent [p] of [i]
   is either an earlier revision ([p < i]) or a *ghost* ([length g <= p]: a
   revision that is referenced but not present).  [wf_dag] checks exactly
   that (boolean, so the harness can evaluate it).  The null revision is not a
   node: a root has the empty parent list, and clients use [option revid] where
   breezy uses "null:".

   The harness produces histories as such lists and materialises the same
   value in a real breezy repository, so every function below is compared
   with vcsgraph (Graph.heads, find_unique_ancestors, iter_lefthand_ancestry,
   find_distance_to_null) by the correspondence runs of the properties that
   use it.  Definitions only; the facts are in Theory/DagFacts.v. *)
From Coq Require Import List Arith Bool.
Import ListNotations.

Definition revid := nat.
Definition dag := list (list revid).

(* ---- finite sets of revisions as lists -------------------------------- *)

Definition memb (x : revid) (l : list revid) : bool := existsb (Nat.eqb x) l.
Definition add (x : revid) (l : list revid) : list revid := if memb x l then l else x :: l.
Definition union (a b : list revid) : list revid := fold_right add b a.
Definition subsetb (a b : list revid) : bool := forallb (fun x => memb x b) a.
Definition set_eqb (a b : list revid) : bool := subsetb a b && subsetb b a.
Fixpoint dedup (l : list revid) : list revid :=
  match l with
  | [] => []
  | x :: l' => if memb x l' then dedup l' else x :: dedup l'
  end.

(* ---- the graph --------------------------------------------------------- *)

Definition parents (g : dag) (r : revid) : list revid := nth r g [].
Definition present (g : dag) (r : revid) : bool := r <? length g.
Definition ghost (g : dag) (r : revid) : bool := negb (present g r).

(* [wf_from n i rows]: rows are the entries i, i+1, ... of a graph of size n *)
Fixpoint wf_from (n i : nat) (rows : list (list revid)) : bool :=
  match rows with
  | [] => true
  | ps :: rows' => forallb (fun p => (p <? i) || (n <=? p)) ps && wf_from n (S i) rows'
  end.
Definition wf_dag (g : dag) : bool := wf_from (length g) 0 g.

(* ---- ancestry ---------------------------------------------------------- *)

(* Visit the indices n-1, ..., 0 once, in that order; when a visited index is
   in the set, add its parents.  Parents are smaller (or ghosts, which have no
   parents), so one downward sweep computes the closure: linear, structural. *)
Fixpoint close_down (g : dag) (n : nat) (s : list revid) : list revid :=
  match n with
  | 0 => s
  | S i => close_down g i (if memb i s then union (parents g i) s else s)
  end.

(* all ancestors of the seeds, seeds included, reachable ghosts included *)
Definition ancestors (g : dag) (seeds : list revid) : list revid :=
  close_down g (length g) seeds.

(* a is b or an ancestor of b *)
Definition is_ancestor (g : dag) (a b : revid) : bool := memb a (ancestors g [b]).

(* Graph.heads: the keys not reachable from another key *)
Definition dominated (g : dag) (keys : list revid) (k : revid) : bool :=
  existsb (fun k' => negb (k' =? k) && is_ancestor g k k') keys.
Definition heads (g : dag) (keys : list revid) : list revid :=
  filter (fun k => negb (dominated g keys k)) (dedup keys).

(* Graph.find_unique_ancestors: ancestry of u minus the ancestry of commons *)
Definition find_unique_ancestors (g : dag) (u : revid) (commons : list revid) : list revid :=
  filter (fun a => negb (memb a (ancestors g commons))) (ancestors g [u]).

(* ---- left-hand history ------------------------------------------------- *)

(* r, its first parent, that one's first parent, ...; ends at a root or at a
   ghost (which is then the last element).  Fuel [S (length g)] always
   suffices (DagFacts.lefthand_fuel_enough). *)
Fixpoint lefthand_fuel (g : dag) (fuel : nat) (r : revid) : list revid :=
  match fuel with
  | 0 => []
  | S f => r :: match parents g r with
                | [] => []
                | p :: _ => lefthand_fuel g f p
                end
  end.
Definition lefthand (g : dag) (r : revid) : list revid := lefthand_fuel g (S (length g)) r.

(* no ghost on the left-hand history *)
Definition lefthand_present (g : dag) (r : revid) : bool := forallb (present g) (lefthand g r).

(* Graph.find_distance_to_null without seeds = the revno of a branch whose tip
   is r; None when the walk meets a ghost (GhostRevisionsHaveNoRevno) *)
Fixpoint distance_fuel (g : dag) (fuel : nat) (r : revid) : option nat :=
  match fuel with
  | 0 => None
  | S f => if present g r
           then match parents g r with
                | [] => Some 1
                | p :: _ => option_map S (distance_fuel g f p)
                end
           else None
  end.
Definition distance_to_null (g : dag) (r : revid) : option nat := distance_fuel g (S (length g)) r.

(* revno / tip of the null revision *)
Definition distance_opt (g : dag) (t : option revid) : option nat :=
  match t with None => Some 0 | Some r => distance_to_null g r end.
Definition lefthand_opt (g : dag) (t : option revid) : list revid :=
  match t with None => [] | Some r => lefthand g r end.
