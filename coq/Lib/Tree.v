(* Lib/Tree.v -- abstract versioned trees (inventories) and tree deltas.

   A tree is an association list  file-id -> entry, strictly sorted by file id
   (so that two trees with the same lookups are equal as Coq values).
   An entry mirrors an inventory entry: parent id, name, kind, text content,
   executable bit and symlink target (content doubles as the reference
   revision of a tree-reference).  A [change] mirrors [breezy.tree.TreeChange]
   / [InventoryTreeChange] field by field.

   Everything is total and computable (stdlib lists, [nat] ids, [bytes] names);
   no proofs live here -- see Theory/TreeFacts.v.

   Definitions offered to other properties:
     lookup / tset / tremove / keys / children / root_id
     path_of / id_of_path           (id2path / path2id)
     valid_tree(b)                  (one root, parents are directories, sibling
                                     names unique, acyclic, normalised entries)
     mk_change / is_changed / changes_gen / changes      (the comparison spec)
     apply_change / apply_changes / tree_content          (delta application) *)
From Coq Require Import List NArith Bool Arith.
From BV Require Import Lib.Bytes.
Import ListNotations.
Open Scope list_scope.
Local Open Scope nat_scope.

Definition fid := nat.

Inductive kind := KFile | KDir | KSymlink | KTreeRef.

Definition kind_eqb (a b : kind) : bool :=
  match a, b with
  | KFile, KFile | KDir, KDir | KSymlink, KSymlink | KTreeRef, KTreeRef => true
  | _, _ => false
  end.

Record entry := mkEntry {
  e_parent  : option fid;   (* None for the root *)
  e_name    : bytes;        (* "" for the root *)
  e_kind    : kind;
  e_content : bytes;        (* file text / reference revision *)
  e_exec    : bool;
  e_target  : bytes         (* symlink target *)
}.

Definition tree := list (fid * entry).
Definition path := list bytes.      (* components; the root is [] *)

Definition opt_eqb {A} (eqb : A -> A -> bool) (a b : option A) : bool :=
  match a, b with
  | None, None => true
  | Some x, Some y => eqb x y
  | _, _ => false
  end.

Definition entry_eqb (x y : entry) : bool :=
  opt_eqb Nat.eqb (e_parent x) (e_parent y) && bytes_eqb (e_name x) (e_name y)
  && kind_eqb (e_kind x) (e_kind y) && bytes_eqb (e_content x) (e_content y)
  && Bool.eqb (e_exec x) (e_exec y) && bytes_eqb (e_target x) (e_target y).

(* ---------------------------------------------------------------- maps *)

Fixpoint lookup (i : fid) (t : tree) : option entry :=
  match t with
  | [] => None
  | (j, e) :: r => if Nat.eqb i j then Some e else lookup i r
  end.

(* insert-or-replace, keeping the list sorted *)
Fixpoint tset (i : fid) (e : entry) (t : tree) : tree :=
  match t with
  | [] => [(i, e)]
  | (j, f) :: r =>
      if Nat.ltb i j then (i, e) :: t
      else if Nat.eqb i j then (i, e) :: r
      else (j, f) :: tset i e r
  end.

Fixpoint tremove (i : fid) (t : tree) : tree :=
  match t with
  | [] => []
  | (j, f) :: r => if Nat.eqb i j then r else (j, f) :: tremove i r
  end.

Definition keys (t : tree) : list fid := map fst t.

Definition mem (i : fid) (s : list fid) : bool := existsb (Nat.eqb i) s.

Fixpoint keys_above (k : fid) (t : tree) : Prop :=
  match t with
  | [] => True
  | (j, _) :: r => k < j /\ keys_above k r
  end.

Fixpoint sorted (t : tree) : Prop :=
  match t with
  | [] => True
  | (i, _) :: r => keys_above i r /\ sorted r
  end.

Fixpoint sortedb (t : tree) : bool :=
  match t with
  | [] => true
  | (i, _) :: r => forallb (fun je => Nat.ltb i (fst je)) r && sortedb r
  end.

(* sorted union of two strictly sorted key lists, by fuel on total length *)
Fixpoint merge_keys_fuel (n : nat) (x y : list fid) : list fid :=
  match n with
  | 0 => []
  | S n' =>
      match x, y with
      | [], _ => y
      | _, [] => x
      | i :: x', j :: y' =>
          if Nat.ltb i j then i :: merge_keys_fuel n' x' y
          else if Nat.eqb i j then i :: merge_keys_fuel n' x' y'
          else j :: merge_keys_fuel n' x y'
      end
  end.
Definition merge_keys (x y : list fid) : list fid :=
  merge_keys_fuel (S (length x + length y)) x y.

(* ---------------------------------------------------------------- shape *)

Definition children (t : tree) (p : fid) : list fid :=
  map fst (filter (fun ie => opt_eqb Nat.eqb (e_parent (snd ie)) (Some p)) t).

Definition roots (t : tree) : list fid :=
  map fst (filter (fun ie => match e_parent (snd ie) with None => true | Some _ => false end) t).

Definition root_id (t : tree) : option fid := hd_error (roots t).

Definition child_named (t : tree) (p : fid) (n : bytes) : option fid :=
  hd_error (map fst (filter (fun ie => opt_eqb Nat.eqb (e_parent (snd ie)) (Some p)
                                       && bytes_eqb (e_name (snd ie)) n) t)).

(* id2path: follow parents to the root; fuel = number of entries, so a cycle
   or a dangling parent gives None (NoSuchId / broken inventory). *)
Fixpoint path_of_fuel (n : nat) (t : tree) (i : fid) : option path :=
  match n with
  | 0 => None
  | S n' =>
      match lookup i t with
      | None => None
      | Some e =>
          match e_parent e with
          | None => Some []
          | Some p =>
              match path_of_fuel n' t p with
              | None => None
              | Some pp => Some (pp ++ [e_name e])
              end
          end
      end
  end.
Definition path_of (t : tree) (i : fid) : option path := path_of_fuel (length t) t i.

(* path2id: walk down from the root by names *)
Fixpoint walk (t : tree) (cur : fid) (p : path) : option fid :=
  match p with
  | [] => Some cur
  | n :: r => match child_named t cur n with
              | None => None
              | Some c => walk t c r
              end
  end.
Definition id_of_path (t : tree) (p : path) : option fid :=
  match root_id t with
  | None => None
  | Some r => walk t r p
  end.

(* ---------------------------------------------------------------- validity *)

(* kind/content consistency of one entry (what an inventory can represent) *)
Definition normalb (e : entry) : bool :=
  match e_kind e with
  | KFile => match e_target e with [] => true | _ => false end
  | KDir => match e_content e, e_target e with [], [] => negb (e_exec e) | _, _ => false end
  | KSymlink => match e_content e with [] => negb (e_exec e) | _ => false end
  | KTreeRef => match e_target e with [] => negb (e_exec e) | _ => false end
  end.

Definition all_normalb (t : tree) : bool := forallb (fun ie => normalb (snd ie)) t.

Definition is_dir (t : tree) (p : fid) : bool :=
  match lookup p t with
  | Some e => kind_eqb (e_kind e) KDir
  | None => false
  end.

(* exactly one root; it is a directory named "" *)
Definition one_rootb (t : tree) : bool :=
  match roots t with
  | [r] => match lookup r t with
           | Some e => kind_eqb (e_kind e) KDir && bytes_eqb (e_name e) []
           | None => false
           end
  | _ => false
  end.

Definition parents_okb (t : tree) : bool :=
  forallb (fun ie => match e_parent (snd ie) with
                     | None => true
                     | Some p => is_dir t p
                     end) t.

(* non-root names are non-empty and contain no '/' *)
Definition names_okb (t : tree) : bool :=
  forallb (fun ie => match e_parent (snd ie) with
                     | None => true
                     | Some _ => match e_name (snd ie) with
                                 | [] => false
                                 | n => negb (memb 47%N n)
                                 end
                     end) t.

Definition same_slot (x y : entry) : bool :=
  opt_eqb Nat.eqb (e_parent x) (e_parent y) && bytes_eqb (e_name x) (e_name y).

Fixpoint siblings_okb (t : tree) : bool :=
  match t with
  | [] => true
  | (_, e) :: r => forallb (fun jf => negb (same_slot e (snd jf))) r && siblings_okb r
  end.

Definition acyclicb (t : tree) : bool :=
  forallb (fun ie => match path_of t (fst ie) with Some _ => true | None => false end) t.

Definition valid_treeb (t : tree) : bool :=
  sortedb t && all_normalb t && one_rootb t && parents_okb t && names_okb t
  && siblings_okb t && acyclicb t.

Definition valid_tree (t : tree) : Prop := valid_treeb t = true.

(* The part of validity that concerns the *shape above an entry* only:
   every parent exists and is a directory and every entry reaches the root.
   (Everything except sibling-name uniqueness.) *)
Definition parent_validb (t : tree) : bool :=
  sortedb t && all_normalb t && one_rootb t && parents_okb t && names_okb t && acyclicb t.

(* ---------------------------------------------------------------- changes *)

Record change := mkChange {
  c_id              : fid;
  c_path            : option path * option path;
  c_changed_content : bool;
  c_versioned       : bool * bool;
  c_parent          : option fid * option fid;
  c_name            : option bytes * option bytes;
  c_kind            : option kind * option kind;
  c_exec            : option bool * option bool
}.

(* InterInventoryTree._changes_from_entries: the content comparison *)
Definition content_differs (x y : entry) : bool :=
  if negb (kind_eqb (e_kind x) (e_kind y)) then true
  else match e_kind x with
       | KFile => negb (bytes_eqb (e_content x) (e_content y))
       | KSymlink => negb (bytes_eqb (e_target x) (e_target y))
       | KTreeRef => negb (bytes_eqb (e_content x) (e_content y))
       | KDir => false
       end.

Definition mk_change (a b : tree) (i : fid) : change :=
  let oa := lookup i a in
  let ob := lookup i b in
  mkChange i
    (match oa with Some _ => path_of a i | None => None end,
     match ob with Some _ => path_of b i | None => None end)
    (match oa, ob with
     | Some x, Some y => content_differs x y
     | None, None => false
     | _, _ => true
     end)
    (match oa with Some _ => true | None => false end,
     match ob with Some _ => true | None => false end)
    (match oa with Some x => e_parent x | None => None end,
     match ob with Some y => e_parent y | None => None end)
    (option_map e_name oa, option_map e_name ob)
    (option_map e_kind oa, option_map e_kind ob)
    (option_map e_exec oa, option_map e_exec ob).

Definition is_changed (c : change) : bool :=
  c_changed_content c
  || negb (Bool.eqb (fst (c_versioned c)) (snd (c_versioned c)))
  || negb (opt_eqb Nat.eqb (fst (c_parent c)) (snd (c_parent c)))
  || negb (opt_eqb bytes_eqb (fst (c_name c)) (snd (c_name c)))
  || negb (opt_eqb Bool.eqb (fst (c_exec c)) (snd (c_exec c))).

Definition versioned_somewhere (c : change) : bool :=
  fst (c_versioned c) || snd (c_versioned c).

(* The specification of a tree comparison: one change per file id present in
   either tree, in file-id order; unchanged ids only when [incl]. *)
Definition changes_gen (incl : bool) (a b : tree) : list change :=
  flat_map (fun i => let c := mk_change a b i in
                     if versioned_somewhere c && (incl || is_changed c) then [c] else [])
           (merge_keys (keys a) (keys b)).

Definition changes (a b : tree) : list change := changes_gen false a b.

(* ---------------------------------------------------------------- applying *)

(* A consumer of a change takes all metadata from the change itself and asks
   the target tree for the text / link target only when [changed_content]. *)
Definition tree_content (b : tree) (i : fid) : bytes * bytes :=
  match lookup i b with
  | Some e => (e_content e, e_target e)
  | None => ([], [])
  end.

Definition apply_change (src : fid -> bytes * bytes) (c : change) (t : tree) : tree :=
  if snd (c_versioned c) then
    match snd (c_name c), snd (c_kind c), snd (c_exec c) with
    | Some n, Some k, Some x =>
        let ct := if c_changed_content c then src (c_id c) else tree_content t (c_id c) in
        tset (c_id c) (mkEntry (snd (c_parent c)) n k (fst ct) x (snd ct)) t
    | _, _, _ => t
    end
  else tremove (c_id c) t.

Definition apply_changes (src : fid -> bytes * bytes) (cs : list change) (t : tree) : tree :=
  fold_left (fun t c => apply_change src c t) cs t.
