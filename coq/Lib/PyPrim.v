(* Lib/PyPrim.v -- the Gallina primitives the py2coq translator emits calls to. *)
From Coq Require Import List Bool Arith.
Import ListNotations.

Section Prim.
Variable A : Type.
Variable A_eqb : A -> A -> bool.

(* x in container *)
Fixpoint py_in (x : A) (l : list A) : bool :=
  match l with [] => false | y :: l' => A_eqb x y || py_in x l' end.

(* set(l): only membership and cardinality are observable; first occurrences kept *)
Fixpoint py_set (l : list A) : list A :=
  match l with
  | [] => []
  | x :: l' => x :: filter (fun y => negb (A_eqb y x)) (py_set l')
  end.
End Prim.

Arguments py_in {A}.
Arguments py_set {A}.

(* the three answers of the merge decision functions ("this"/"other"/"conflict") *)
Inductive winner := W_this | W_other | W_conflict.

Definition winner_swap (w : winner) : winner :=
  match w with W_this => W_other | W_other => W_this | W_conflict => W_conflict end.
