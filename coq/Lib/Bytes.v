(* Lib/Bytes.v -- byte strings as [list N] and the Python bytes operations the
   models need.  Definitions only (plus tiny computational lemmas); larger
   lemmas live in Theory/BytesFacts.v. *)
From Coq Require Import ZArith NArith List Bool Lia.
Import ListNotations.
Open Scope N_scope.

Definition byte := N.
Definition bytes := list N.

Definition wf_byte (b : N) : bool := b <? 256.
Definition wf_bytes (s : bytes) : bool := forallb wf_byte s.

Definition bytes_eqb (a b : bytes) : bool :=
  (fix go (a b : bytes) : bool :=
     match a, b with
     | [], [] => true
     | x :: a', y :: b' => (x =? y) && go a' b'
     | _, _ => false
     end) a b.

Fixpoint prefixb (p s : bytes) : bool :=
  match p, s with
  | [], _ => true
  | x :: p', y :: s' => (x =? y) && prefixb p' s'
  | _ :: _, [] => false
  end.

Definition memb (c : N) (s : bytes) : bool := existsb (N.eqb c) s.

(* Python  s.replace(old, new)  for non-empty [old]: leftmost, non-overlapping.
   [skip] counts the bytes of a just-matched occurrence still to be dropped. *)
Fixpoint replace_aux (old new : bytes) (skip : nat) (s : bytes) : bytes :=
  match s with
  | [] => []
  | c :: s' =>
      match skip with
      | S k => replace_aux old new k s'
      | O => if prefixb old s
             then new ++ replace_aux old new (length old - 1) s'
             else c :: replace_aux old new 0 s'
      end
  end.
Definition replace (old new s : bytes) : bytes := replace_aux old new 0 s.

(* s.split(sep) for a single-byte separator: always returns >= 1 field *)
Fixpoint split1_aux (sep : N) (cur : bytes) (s : bytes) : list bytes :=
  match s with
  | [] => [rev cur]
  | c :: s' => if c =? sep then rev cur :: split1_aux sep [] s'
               else split1_aux sep (c :: cur) s'
  end.
Definition split1 (sep : N) (s : bytes) : list bytes := split1_aux sep [] s.

Fixpoint join (sep : bytes) (parts : list bytes) : bytes :=
  match parts with
  | [] => []
  | [p] => p
  | p :: rest => p ++ sep ++ join sep rest
  end.

Fixpoint startswith_any (ps : list bytes) (s : bytes) : bool :=
  match ps with [] => false | p :: ps' => prefixb p s || startswith_any ps' s end.

Definition suffixb (p s : bytes) : bool := prefixb (rev p) (rev s).

(* substring search *)
Fixpoint containsb (p s : bytes) : bool :=
  prefixb p s || match s with [] => false | _ :: s' => containsb p s' end.
