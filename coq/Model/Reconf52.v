(* Model/Reconf52.v -- C52: breezy/reconfigure.py (Reconfigure) as a function on an abstract
   "world": the location being reconfigured, the shared repository above it (if any) and up
   to three other branches (inside the location, beside it, far away).

   Definitions only (no proofs).  What each definition mirrors:
     facts_of            Reconfigure.__init__          (find_repository / open_branch / open_workingtree)
     plan_changes        Reconfigure._plan_changes     (hand copy; Theory/Reconf52Gen.v proves it equal to the
                                                        program py2coq regenerates from the source on every run)
     set_use_shared      Reconfigure._set_use_shared
     changes_planned     Reconfigure.changes_planned
     factory             to_branch / to_tree / to_checkout / to_lightweight_checkout / to_use_shared /
                         to_standalone / set_repository_trees
     check               Reconfigure._check
     select_bind         Reconfigure._select_bind_location
     apply               Reconfigure.apply             (step by step, in the order of the source)
   Environment (validated by the correspondence run, not proved): Repository.fetch copies the
   requested revisions verbatim ([fetched]/[union]); Tags.merge_to keeps the destination's value on a
   name clash ([merge_tags]); ControlDir.find_repository walks up and stops at an unshared
   repository ([find_repo], [place_revs]); destroy_*/create_* do what their names say. *)
From Coq Require Import List Bool Arith String ZArith.
Import ListNotations.
From BV Require Import Lib.Obs Lib.Dag.
Open Scope string_scope.
Open Scope nat_scope.
Open Scope list_scope.

Definition loc := nat.            (* 0 = inside the location, 1 = sibling, 2 = far away; >= 3: nothing there *)
Definition tagd := list (nat * revid).

Fixpoint tag_lookup (n : nat) (d : tagd) : option revid :=
  match d with
  | [] => None
  | (k, r) :: d' => if Nat.eqb n k then Some r else tag_lookup n d'
  end.

(* tag._reconcile_tags(source, dest, overwrite=False): new names are added, a name that exists keeps
   the destination's value (a different value is reported as a conflict, which apply() ignores) *)
Definition merge_tags (src dst : tagd) : tagd :=
  (dst ++ filter (fun p => match tag_lookup (fst p) dst with Some _ => false | None => true end) src)%list.

Record repo := mkRepo { r_shared : bool; r_trees : bool; r_revs : list revid }.
Record obranch := mkOB { o_tip : option revid; o_tags : tagd; o_own : option (list revid) }.
(* b_bloc: branch.conf bound_location + bound flag: Some (true, l) = bound to l, Some (false, l) = old bound location *)
Record lbranch := mkLB { b_tip : option revid; b_tags : tagd; b_bloc : option (bool * loc);
                         b_push : option loc; b_parent : option loc }.
Inductive branch_st := BNone | BLocal (b : lbranch) | BRef (l : loc).
(* t_parents: basis + pending merges; t_changes: opaque ids of uncommitted changes (iter_changes vs basis) *)
Record tree := mkTree { t_parents : list revid; t_changes : list nat }.

Record world := mkW {
  w_g : dag;                       (* the global revision graph (revision identity = payload) *)
  w_repo : option repo;            (* repository in the location's own control directory *)
  w_outer : option repo;           (* shared repository in the parent directory *)
  w_branch : branch_st;
  w_tree : option tree;
  w_inner : option obranch; w_sib : option obranch; w_far : option obranch }.

Definition set_repo (w : world) (r : option repo) : world :=
  mkW (w_g w) r (w_outer w) (w_branch w) (w_tree w) (w_inner w) (w_sib w) (w_far w).
Definition set_outer (w : world) (r : option repo) : world :=
  mkW (w_g w) (w_repo w) r (w_branch w) (w_tree w) (w_inner w) (w_sib w) (w_far w).
Definition set_branch (w : world) (b : branch_st) : world :=
  mkW (w_g w) (w_repo w) (w_outer w) b (w_tree w) (w_inner w) (w_sib w) (w_far w).
Definition set_tree (w : world) (t : option tree) : world :=
  mkW (w_g w) (w_repo w) (w_outer w) (w_branch w) t (w_inner w) (w_sib w) (w_far w).
Definition get_other (w : world) (l : loc) : option obranch :=
  match l with 0 => w_inner w | 1 => w_sib w | 2 => w_far w | _ => None end.
Definition set_other (w : world) (l : loc) (o : obranch) : world :=
  match l with
  | 0 => mkW (w_g w) (w_repo w) (w_outer w) (w_branch w) (w_tree w) (Some o) (w_sib w) (w_far w)
  | 1 => mkW (w_g w) (w_repo w) (w_outer w) (w_branch w) (w_tree w) (w_inner w) (Some o) (w_far w)
  | 2 => mkW (w_g w) (w_repo w) (w_outer w) (w_branch w) (w_tree w) (w_inner w) (w_sib w) (Some o)
  | _ => w
  end.

Definition is_some {A} (o : option A) : bool := match o with Some _ => true | None => false end.
Definition opt_nat_eqb (a b : option nat) : bool :=
  match a, b with Some x, Some y => Nat.eqb x y | None, None => true | _, _ => false end.

(* ---- repositories -------------------------------------------------------------------- *)

(* ControlDir.find_repository from the location: its own repository, else the shared one above *)
Definition find_repo (w : world) : option repo :=
  match w_repo w with Some r => Some r | None => w_outer w end.
Definition orevs (o : option repo) : list revid := match o with Some r => r_revs r | None => [] end.

Definition add_revs (rs : list revid) (r : repo) : repo := mkRepo (r_shared r) (r_trees r) (union rs (r_revs r)).

(* add revisions to the repository find_repository returns *)
Definition loc_repo_add (w : world) (rs : list revid) : option world :=
  match w_repo w with
  | Some r => Some (set_repo w (Some (add_revs rs r)))
  | None => match w_outer w with
            | Some r => Some (set_outer w (Some (add_revs rs r)))
            | None => None end
  end.

(* where the repository of another branch is: 0 = its own, 1 = the location's (shared), 2 = the outer one.
   find_repository from inside the location stops at the location's repository (usable only when shared). *)
Definition place_repo (w : world) (l : loc) (o : obranch) : option nat :=
  match o_own o with
  | Some _ => Some 0
  | None =>
      match l with
      | 0 => match w_repo w with
             | Some r => if r_shared r then Some 1 else None
             | None => match w_outer w with Some _ => Some 2 | None => None end
             end
      | 1 => match w_outer w with Some _ => Some 2 | None => None end
      | _ => None
      end
  end.
Definition place_revs (w : world) (l : loc) (o : obranch) : option (list revid) :=
  match place_repo w l o with
  | Some 0 => o_own o
  | Some 1 => Some (orevs (w_repo w))
  | Some _ => Some (orevs (w_outer w))
  | None => None
  end.
Definition place_repo_add (w : world) (l : loc) (o : obranch) (rs : list revid) : option world :=
  match place_repo w l o with
  | Some 0 => Some (set_other w l (mkOB (o_tip o) (o_tags o) (Some (union rs (match o_own o with Some x => x | None => [] end)))))
  | Some 1 => match w_repo w with Some r => Some (set_repo w (Some (add_revs rs r))) | None => None end
  | Some _ => match w_outer w with Some r => Some (set_outer w (Some (add_revs rs r))) | None => None end
  | None => None
  end.

(* Repository.fetch(source, revision_id=tip): the ancestors of tip that the source holds *)
Definition fetched (g : dag) (src : list revid) (tip : option revid) : list revid :=
  match tip with
  | None => []
  | Some t => filter (fun r => memb r src) (ancestors g [t])
  end.

(* ---- what Reconfigure.__init__ sees ---------------------------------------------------- *)

Definition local_of (w : world) : option lbranch :=
  match w_branch w with BLocal b => Some b | _ => None end.
Definition refd_of (w : world) : option (loc * obranch) :=
  match w_branch w with
  | BRef l => match get_other w l with Some o => Some (l, o) | None => None end
  | _ => None
  end.
Definition is_bound (b : lbranch) : bool :=
  match b_bloc b with Some (true, _) => true | _ => false end.

(* f_repo: None = no repository found; Some (is_local, is_shared) *)
Record facts := mkFacts { f_repo : option (bool * bool); f_ref : bool; f_lb : option bool; f_tree : bool }.

Definition facts_of (w : world) : facts :=
  mkFacts (match w_repo w with
           | Some r => Some (true, r_shared r)
           | None => match w_outer w with Some r => Some (false, r_shared r) | None => None end
           end)
          (is_some (refd_of w))
          (option_map is_bound (local_of w))
          (is_some (w_tree w)).

Record plan := mkPlan {
  p_unbind : bool; p_bind : bool; p_destroy_reference : bool; p_create_reference : bool;
  p_destroy_branch : bool; p_create_branch : bool; p_destroy_tree : bool; p_create_tree : bool;
  p_create_repository : bool; p_destroy_repository : bool; p_repository_trees : option bool }.

Definition plan0 : plan := mkPlan false false false false false false false false false false None.

(* Reconfigure._plan_changes; None = raise ReconfigurationNotSupported *)
Definition plan_changes (f : facts) (want_tree want_branch want_bound want_reference : bool) : option plan :=
  if negb want_branch && negb want_reference then None
  else if want_branch && want_reference then None
  else
    let create_repository := match f_repo f with None => negb want_reference | Some _ => false end in
    let destroy_repository :=
        match f_repo f with
        | None => false
        | Some (is_local, shared) => want_reference && is_local && negb shared
        end in
    let create_reference := negb (f_ref f) && want_reference in
    let destroy_branch := create_reference && is_some (f_lb f) in
    let destroy_reference := f_ref f && negb want_reference in
    let create_branch := match f_lb f with None => want_branch | Some _ => false end in
    let bind := match f_lb f with
                | None => want_branch && want_bound
                | Some bound => want_bound && negb bound
                end in
    let unbind := match f_lb f with None => false | Some bound => negb want_bound && bound end in
    let destroy_tree := negb want_tree && f_tree f in
    let create_tree := want_tree && negb (f_tree f) in
    Some (mkPlan unbind bind destroy_reference create_reference destroy_branch create_branch
                 destroy_tree create_tree create_repository destroy_repository None).

(* Reconfigure._set_use_shared (use_shared is never None in the factories) *)
Definition set_use_shared (local_repository : bool) (use_shared : bool) : plan :=
  if use_shared then
    mkPlan false false false false false false false false false local_repository None
  else
    mkPlan false false false false false false false false (negb local_repository) false None.

Definition changes_planned (p : plan) : bool :=
  p_unbind p || p_bind p || p_destroy_tree p || p_create_tree p || p_destroy_reference p
  || p_create_branch p || p_create_repository p || p_create_reference p || p_destroy_repository p.

Inductive target :=
| TBranch | TTree | TCheckout | TLightweight | TUseShared | TStandalone | TTrees (with_trees : bool).

(* the wanted (tree, branch, bound, reference) of the four _plan_changes factories *)
Definition wants (t : target) : option (bool * bool * bool * bool) :=
  match t with
  | TBranch => Some (false, true, false, false)
  | TTree => Some (true, true, false, false)
  | TCheckout => Some (true, true, true, false)
  | TLightweight => Some (true, false, false, true)
  | _ => None
  end.
Definition already (t : target) : string :=
  match t with
  | TBranch => "AlreadyBranch" | TTree => "AlreadyTree" | TCheckout => "AlreadyCheckout"
  | TLightweight => "AlreadyLightweightCheckout" | TUseShared => "AlreadyUsingShared"
  | TStandalone => "AlreadyStandalone" | TTrees true => "AlreadyWithTrees" | TTrees false => "AlreadyWithNoTrees"
  end.

(* the factory methods: a plan, or the exception they raise *)
Definition factory (w : world) (t : target) : plan + string :=
  match t with
  | TTrees b =>
      match find_repo w with
      | None => inr "AttributeError"            (* reconfiguration.repository is None *)
      | Some r =>
          if negb (r_shared r) then inr "ReconfigurationNotSupported"
          else if Bool.eqb b (r_trees r) then inr (already t)
          else inl (mkPlan false false false false false false false false false false (Some b))
      end
  | TUseShared | TStandalone =>
      let p := set_use_shared (is_some (w_repo w)) (match t with TUseShared => true | _ => false end) in
      if changes_planned p then inl p else inr (already t)
  | _ =>
      match wants t with
      | Some (wt, wb, wbound, wref) =>
          match plan_changes (facts_of w) wt wb wbound wref with
          | None => inr "ReconfigurationNotSupported"
          | Some p => if changes_planned p then inl p else inr (already t)
          end
      | None => inr "ReconfigurationNotSupported"
      end
  end.

(* ---- apply ------------------------------------------------------------------------------ *)

Definition tree_has_changes (t : tree) : bool :=
  (1 <? List.length (t_parents t)) || negb (match t_changes t with [] => true | _ => false end).

(* Reconfigure._select_bind_location *)
Definition select_bind (w0 : world) (nb : option loc) : option loc :=
  match nb with
  | Some l => Some l
  | None =>
      match w_branch w0 with
      | BLocal b =>
          match b_bloc b with
          | Some (_, l) => Some l            (* current bound location, else the previous one *)
          | None => match b_push b with Some l => Some l | None => b_parent b end
          end
      | BRef l => match get_other w0 l with Some _ => Some l | None => None end
      | BNone => None
      end
  end.

(* Reconfigure._check; Some e = raises e *)
Definition check (p : plan) (w0 : world) (nb : option loc) : option string :=
  if p_destroy_tree p && match w_tree w0 with Some t => tree_has_changes t | None => false end
  then Some "UncommittedChanges"
  else if p_create_reference p then
    match local_of w0 with
    | Some b =>
        match select_bind w0 nb with
        | None => Some "NoBindLocation"
        | Some l =>
            match get_other w0 l with
            | None => Some "NotBranchError"
            | Some o => if opt_nat_eqb (o_tip o) (b_tip b) then None else Some "UnsyncedBranches"
            end
        end
    | None => None
    end
  else None.

Inductive res := Ok (w : world) | Fail (e : string) (w : world).
Definition rbind (r : res) (k : world -> res) : res :=
  match r with Ok w => k w | Fail e w => Fail e w end.
Definition world_of (r : res) : world := match r with Ok w => w | Fail _ w => w end.

Definition tip_list (t : option revid) : list revid := match t with Some x => [x] | None => [] end.

(* the tip / tags / repository content the location shows through its branch *)
Definition eff_tip (w : world) : option (option revid) :=
  match w_branch w with
  | BLocal b => Some (b_tip b)
  | BRef l => match get_other w l with Some o => Some (o_tip o) | None => None end
  | BNone => None
  end.
Definition eff_tags (w : world) : tagd :=
  match w_branch w with
  | BLocal b => b_tags b
  | BRef l => match get_other w l with Some o => o_tags o | None => [] end
  | BNone => []
  end.
Definition eff_revs (w : world) : list revid :=
  match w_branch w with
  | BRef l => match get_other w l with
              | Some o => match place_revs w l o with Some rs => rs | None => [] end
              | None => [] end
  | _ => orevs (find_repo w)
  end.

(* Reconfigure._fetch_pending_merges(to_repo, from_repo): for a tree that is kept, every pending merge the
   source repository holds is fetched (with its ancestry) -- the revisions added to to_repo *)
Definition pending_of (p : plan) (w0 : world) : list revid :=
  match w_tree w0 with
  | Some t => if p_destroy_tree p then [] else List.tl (t_parents t)
  | None => []
  end.
Definition pend_fetch (g : dag) (src : list revid) (ms : list revid) : list revid :=
  flat_map (fun m => if memb m src then fetched g src (Some m) else []) ms.

Definition step_create_repository (p : plan) (w0 : world) (w : world) : res :=
  if p_create_repository p then
    let keep_local := is_some (local_of w0) && negb (p_destroy_branch p) in
    let src := if keep_local
               then fetched (w_g w) (orevs (find_repo w0))
                            (match local_of w0 with Some b => b_tip b | None => None end)
                    ++ pend_fetch (w_g w) (orevs (find_repo w0)) (pending_of p w0)
               else [] in
    Ok (set_repo w (Some (mkRepo false true (union src []))))
  else Ok w.

Definition step_fetch_referenced (p : plan) (w0 : world) (w : world) : res :=
  if p_create_branch p then
    match refd_of w0 with
    | Some (l, o) =>
        match place_revs w0 l o with      (* self.referenced_branch.repository was opened by __init__ *)
        | None => Fail "NoRepositoryPresent" w
        | Some src =>
            match loc_repo_add w (fetched (w_g w) src (o_tip o) ++ pend_fetch (w_g w) src (pending_of p w0)) with
            | Some w' => Ok w'
            | None => Fail "AttributeError" w
            end
        end
    | None => Ok w
    end
  else Ok w.

Definition step_open_reference (p : plan) (w0 : world) (nb : option loc) (w : world) : res :=
  if p_create_reference p then
    match select_bind w0 nb with
    | None => Fail "NoBindLocation" w
    | Some l => match get_other w l with None => Fail "NotBranchError" w | Some _ => Ok w end
    end
  else Ok w.

(* if self._create_reference and self.local_branch is not None: _fetch_pending_merges(reference repo, local repo)
   if self._destroy_repository: fetch everything into the reference's repository / the repository above.
   (When the repository is destroyed, fetching everything subsumes the pending merges: modelled once.) *)
Definition step_destroy_repository_fetch (p : plan) (w0 : world) (nb : option loc) (w : world) : res :=
  if p_destroy_repository p then
    let all := orevs (find_repo w) in
    if p_create_reference p then
      match select_bind w0 nb with
      | Some l =>
          match get_other w l with
          | Some o => match place_repo_add w l o all with
                      | Some w' => Ok w'
                      | None => Fail "NoRepositoryPresent" w
                      end
          | None => Fail "NotBranchError" w
          end
      | None => Fail "NoBindLocation" w
      end
    else
      (* with or without a branch of its own: into the repository above, or refuse before anything is destroyed *)
      match w_outer w with
      | Some r => Ok (set_outer w (Some (add_revs all r)))
      | None => Fail "NotBranchError" w          (* nothing above the location *)
      end
  else if p_create_reference p && is_some (local_of w0) then
    match select_bind w0 nb with
    | Some l =>
        match get_other w l with
        | Some o => match place_repo_add w l o (pend_fetch (w_g w) (orevs (find_repo w0)) (pending_of p w0)) with
                    | Some w' => Ok w'
                    | None => Fail "NoRepositoryPresent" w
                    end
        | None => Fail "NotBranchError" w
        end
    | None => Fail "NoBindLocation" w
    end
  else Ok w.

(* last_revision_info as apply() computes it before destroying anything: Some tip, or None (never assigned) *)
Definition lri_of (p : plan) (w0 : world) : option (option revid) :=
  if p_destroy_branch p then match local_of w0 with Some b => Some (b_tip b) | None => None end
  else if p_destroy_reference p then match refd_of w0 with Some (_, o) => Some (o_tip o) | None => None end
  else None.

(* if self._destroy_reference: ...; self.controldir.destroy_branch() *)
Definition step_destroy_reference (p : plan) (w : world) : res :=
  if p_destroy_reference p then Ok (set_branch w BNone) else Ok w.

(* if self._destroy_branch: [self.local_branch.tags.merge_to(reference_branch.tags)]; destroy_branch() *)
Definition step_destroy_branch (p : plan) (w0 : world) (nb : option loc) (w : world) : res :=
  if p_destroy_branch p then
    let w' := if p_create_reference p then
                match select_bind w0 nb, local_of w0 with
                | Some l, Some b =>
                    match get_other w l with
                    | Some o => set_other w l (mkOB (o_tip o) (merge_tags (b_tags b) (o_tags o)) (o_own o))
                    | None => w
                    end
                | _, _ => w
                end
              else w in
    Ok (set_branch w' BNone)
  else Ok w.

(* if self._create_branch: create_branch(); set_last_revision_info; [referenced tags merge_to the new branch] *)
Definition step_create_branch (p : plan) (w0 : world) (w : world) : res :=
  if p_create_branch p then
    match find_repo w with
    | None => Fail "NoRepositoryPresent" w
    | Some _ =>
        let tip := match lri_of p w0 with Some t => t | None => None end in
        let tags := if p_destroy_reference p
                    then match refd_of w0 with Some (_, o) => merge_tags (o_tags o) [] | None => [] end
                    else [] in
        Ok (set_branch w (BLocal (mkLB tip tags None None None)))
    end
  else Ok w.

(* if self._create_reference: self.controldir.set_branch_reference(reference_branch) *)
Definition step_create_reference (p : plan) (w0 : world) (nb : option loc) (w : world) : res :=
  if p_create_reference p then
    match select_bind w0 nb with
    | Some l => Ok (set_branch w (BRef l))
    | None => Fail "NoBindLocation" w
    end
  else Ok w.

Definition step_trees (p : plan) (w : world) : res :=
  let w1 := if p_destroy_tree p then set_tree w None else w in
  if p_create_tree p then
    Ok (set_tree w1 (Some (mkTree (tip_list (match eff_tip w1 with Some t => t | None => None end)) [])))
  else Ok w1.

Definition step_unbind (p : plan) (w : world) : res :=
  if p_unbind p then
    match w_branch w with
    | BLocal b =>
        Ok (set_branch w (BLocal (mkLB (b_tip b) (b_tags b)
                                       (match b_bloc b with Some (_, l) => Some (false, l) | None => None end)
                                       (b_push b) (b_parent b))))
    | _ => Ok w       (* the branch object that was open is gone: nothing observable *)
    end
  else Ok w.

(* the branch to bind to is opened before anything is changed (apply, right after _check); Some e = raises e *)
Definition pre_bind (p : plan) (w0 : world) (nb : option loc) : option string :=
  if p_bind p then
    match select_bind w0 nb with
    | None => Some "NoBindLocation"
    | Some l => match get_other w0 l with None => Some "NotBranchError" | Some _ => None end
    end
  else None.

(* local_branch.bind(bind_branch) *)
Definition step_bind (p : plan) (w0 : world) (nb : option loc) (w : world) : res :=
  if p_bind p then
    match select_bind w0 nb with
    | None => Fail "NoBindLocation" w          (* unreachable: pre_bind passed *)
    | Some l =>
        match w_branch w with
        | BLocal b => Ok (set_branch w (BLocal (mkLB (b_tip b) (b_tags b) (Some (true, l)) (b_push b) (b_parent b))))
        | _ => Fail "AttributeError" w
        end
    end
  else Ok w.

Definition step_destroy_repository (p : plan) (w : world) : res :=
  if p_destroy_repository p then
    match w_repo w with Some _ => Ok (set_repo w None) | None => Fail "NoRepositoryPresent" w end
  else Ok w.

Definition step_repository_trees (p : plan) (w : world) : res :=
  match p_repository_trees p with
  | None => Ok w
  | Some b =>
      match w_repo w with
      | Some r => Ok (set_repo w (Some (mkRepo (r_shared r) b (r_revs r))))
      | None => match w_outer w with
                | Some r => Ok (set_outer w (Some (mkRepo (r_shared r) b (r_revs r))))
                | None => Fail "AttributeError" w
                end
      end
  end.

Fixpoint run_steps (ss : list (world -> res)) (w : world) : res :=
  match ss with
  | [] => Ok w
  | s :: ss' => rbind (s w) (run_steps ss')
  end.

(* the body of Reconfigure.apply after _check, in source order *)
Definition steps (nb : option loc) (p : plan) (w0 : world) : list (world -> res) :=
  [step_create_repository p w0; step_fetch_referenced p w0; step_open_reference p w0 nb;
   step_destroy_repository_fetch p w0 nb;
   step_destroy_reference p; step_destroy_branch p w0 nb; step_create_branch p w0; step_create_reference p w0 nb;
   step_trees p;
   step_unbind p; step_bind p w0 nb; step_destroy_repository p; step_repository_trees p].

(* Reconfigure.apply(force) with new_bound_location = nb *)
Definition apply (force : bool) (nb : option loc) (p : plan) (w0 : world) : res :=
  match (if force then None else check p w0 nb) with
  | Some e => Fail e w0
  | None =>
      match pre_bind p w0 nb with
      | Some e => Fail e w0
      | None => run_steps (steps nb p w0) w0
      end
  end.

(* the whole operation: factory, then apply *)
Definition reconfigure (t : target) (force : bool) (nb : option loc) (w : world) : res :=
  match factory w t with
  | inr e => Fail e w
  | inl p => apply force nb p w
  end.

(* ---- every revision stored anywhere in the world ------------------------------------------ *)
Definition own_revs (o : option obranch) : list revid :=
  match o with Some b => match o_own b with Some rs => rs | None => [] end | None => [] end.
Definition all_revs (w : world) : list revid :=
  (orevs (w_repo w) ++ orevs (w_outer w) ++ own_revs (w_inner w) ++ own_revs (w_sib w) ++ own_revs (w_far w))%list.

(* ---- observations for the correspondence run ------------------------------------------------ *)
Definition NTAGS := 3.
Definition orev (r : option revid) : obs := oopt onat r.
Definition orevset (g : dag) (rs : list revid) : obs := olist (fun i => obool (memb i rs)) (seq 0 (List.length g)).
Definition otags (d : tagd) : obs := olist (fun n => orev (tag_lookup n d)) (seq 0 NTAGS).
Definition oloc (l : option loc) : obs := oopt onat l.
Definition orepo (g : dag) (r : option repo) : obs :=
  oopt (fun r => OL [obool (r_shared r); obool (r_trees r); orevset g (r_revs r)]) r.
Definition obranch_obs (g : dag) (o : option obranch) : obs :=
  oopt (fun o => OL [orev (o_tip o); otags (o_tags o); oopt (orevset g) (o_own o)]) o.
Definition obloc (b : option (bool * loc)) : obs :=
  oopt (fun p => OL [obool (fst p); onat (snd p)]) b.
Definition obr (b : branch_st) : obs :=
  match b with
  | BNone => OT "none"
  | BLocal b => OL [OT "local"; orev (b_tip b); otags (b_tags b); obloc (b_bloc b); oloc (b_push b); oloc (b_parent b)]
  | BRef l => OL [OT "ref"; onat l]
  end.
Definition otree (t : option tree) : obs :=
  oopt (fun t => OL [olist onat (t_parents t); olist onat (t_changes t)]) t.
(* a working tree can only be opened (observed) when its branch's repository can *)
Definition branch_usable (w : world) : bool :=
  match w_branch w with
  | BLocal _ => is_some (find_repo w)
  | BRef l => match get_other w l with Some o => is_some (place_revs w l o) | None => false end
  | BNone => true
  end.
Definition oworld (w : world) : obs :=
  OL [orepo (w_g w) (w_repo w); orepo (w_g w) (w_outer w); obr (w_branch w);
      (if branch_usable w then otree (w_tree w) else ON);
      obranch_obs (w_g w) (w_inner w); obranch_obs (w_g w) (w_sib w); obranch_obs (w_g w) (w_far w)].
Definition oplan (p : plan) : obs :=
  OL [obool (p_unbind p); obool (p_bind p); obool (p_destroy_reference p); obool (p_create_reference p);
      obool (p_destroy_branch p); obool (p_create_branch p); obool (p_destroy_tree p); obool (p_create_tree p);
      obool (p_create_repository p); obool (p_destroy_repository p); oopt obool (p_repository_trees p)].

(* [factory outcome; apply outcome; the world afterwards] *)
Definition run_reconf (t : target) (force : bool) (nb : option loc) (w : world) : obs :=
  match factory w t with
  | inr e => OL [OE e; ON; oworld w]
  | inl p =>
      let r := apply force nb p w in
      OL [oplan p; match r with Ok _ => OT "ok" | Fail e _ => OE e end; oworld (world_of r)]
  end.
