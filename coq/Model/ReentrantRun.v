(* Model/ReentrantRun.v -- executable runners for the C28 correspondence:
   the generated CountedLock / LockableFiles programs (tie T) and a hand model of
   PackRepository.lock_write/lock_read/unlock (tie H, breezy/bzr/pack_repo.py). *)
From Coq Require Import ZArith List String Bool.
From BV Require Import Lib.Obs Lib.PyImp Gen.CountedLock Gen.LockableFiles.
Import ListNotations.
Open Scope string_scope.

Definition val_obs (v : val) : obs :=
  match v with
  | VNone => ON
  | VInt z => OZ z
  | VStr s => OT s
  | VBool b => obool b
  | VTok t => OL [OT "tok"; onat t]
  end.

Definition flow_obs (f : flow) : obs :=
  match f with
  | FNormal => OT "normal"
  | FReturn v => OL [OT "ret"; val_obs v]
  | FRaise e => OE e
  end.

Definition event_obs (e : event) : obs := OL (OT (fst e) :: map val_obs (snd e)).

Definition field_obs (s : store) (f : string) : obs :=
  match lookup f s with Some v => val_obs v | None => OT "unset" end.

Inductive op := LockRead | LockWrite (tok : val) | Unlock.

Section Run.
Variable p_read p_write p_unlock : stmt.

Definition step (o : op) (s : store) (env : list reply) : result :=
  match o with
  | LockRead => run_method p_read [] s env
  | LockWrite tok => run_method p_write [("token", tok)] s env
  | Unlock => run_method p_unlock [] s env
  end.

(* per call: outcome, mode, count; at the end: all collaborator calls *)
Fixpoint run_ops (ops : list op) (s : store) (env : list reply) (evs : list event) (acc : list obs) : obs :=
  match ops with
  | [] => OL [OL (rev acc); OL (map event_obs evs)]
  | o :: ops' =>
      let r := step o s env in
      run_ops ops' (r_self r) (r_env r) (evs ++ r_events r)
              (OL [flow_obs (r_flow r); field_obs (r_self r) "_lock_mode"; field_obs (r_self r) "_lock_count"] :: acc)
  end.
End Run.

Definition cl_init : store := [("_lock_mode", VNone); ("_lock_count", VInt 0)].
Definition lf_init : store := [("_txn", VNone); ("_lock_mode", VNone); ("_lock_count", VInt 0)].

Definition run_counted_lock (ops : list op) (env : list reply) : obs :=
  run_ops cl_lock_read cl_lock_write cl_unlock ops cl_init env [] [].
Definition run_lockable_files (ops : list op) (env : list reply) : obs :=
  run_ops lf_lock_read lf_lock_write lf_unlock ops lf_init env [] [].

(* ---- PackRepository (hand model) --------------------------------------- *)
(* state: _write_lock_count and the control_files reentrant counter (a LockableFiles,
   abstracted to its count); the only physical operations are control_files.lock_read
   and control_files.unlock at its 0<->1 transitions.  Write groups are not modelled
   (the harness never opens one). *)
Record prs := { wlc : Z; cfc : Z }.

Definition pr_locked (s : prs) : bool := negb (Z.eqb (wlc s) 0) || Z.leb 1 (cfc s).

Inductive pr_out := PrOk | PrErr (e : string).

Definition pr_step (o : op) (s : prs) : prs * pr_out * list string :=
  match o with
  | LockWrite _ =>
      if Z.eqb (wlc s) 0 && pr_locked s then (s, PrErr "ReadOnlyError", [])
      else ({| wlc := wlc s + 1; cfc := cfc s |}, PrOk, [])
  | LockRead =>
      if negb (Z.eqb (wlc s) 0) then ({| wlc := wlc s + 1; cfc := cfc s |}, PrOk, [])
      else ({| wlc := wlc s; cfc := cfc s + 1 |}, PrOk,
            if Z.eqb (cfc s) 0 then ["lock_read"] else [])
  | Unlock =>
      if negb (Z.eqb (wlc s) 0) then ({| wlc := wlc s - 1; cfc := cfc s |}, PrOk, [])
      else if Z.eqb (cfc s) 0 then (s, PrErr "LockNotHeld", [])
      else ({| wlc := wlc s; cfc := cfc s - 1 |}, PrOk,
            if Z.eqb (cfc s) 1 then ["unlock"] else [])
  end.

Fixpoint pr_run (ops : list op) (s : prs) (evs : list string) (acc : list obs) : obs :=
  match ops with
  | [] => OL [OL (rev acc); OL (map OT evs)]
  | o :: ops' =>
      let '(s', out, ev) := pr_step o s in
      pr_run ops' s' (evs ++ ev)
             (OL [match out with PrOk => OT "ok" | PrErr e => OE e end;
                  obool (pr_locked s'); OZ (wlc s'); OZ (cfc s')] :: acc)
  end.

Definition run_pack_repo (ops : list op) : obs := pr_run ops {| wlc := 0; cfc := 0 |} [] [].
