(* Model/Bound.v -- hand model of commits, updates and pulls in checkouts of one
   master branch (C23).

   breezy/commit.py:
     Commit._check_bound_branch        -> commit_plan (first two tests)
     Commit._check_out_of_date_tree    -> commit_plan (third test, new revno)
     Commit.commit / _update_branches  -> commit_plan (the list of writes: master
                                          first, then the local branch, then the
                                          tree basis) + commit (runs a prefix of
                                          the list when a fault is injected)
   breezy/bzr/branch.py:
     BzrBranch.update                  -> branch part of update
     BzrBranch.bind / unbind           -> bind / unbind
   breezy/bzr/workingtree.py:
     WorkingTree.update / _update_tree -> update / update_tree_parents
     WorkingTree.pull                  -> pull (tree part)
   breezy/bzr/workingtree_4.py:
     DirStateWorkingTree.set_parent_trees -> filter_parents
   breezy/branch.py:
     GenericInterBranch.pull / _pull / _update_revisions
                                       -> pull (branch part), through
                                          Model/BranchUpdate.update_revisions (C21)

   The system: one master branch, and a list of checkouts.  A heavyweight
   checkout has its own branch (bound or not) and a tree; a lightweight
   checkout (and the master's own working tree) is a tree whose branch IS the
   master.  All revisions live in one shared graph (Lib/Dag): fetching between
   repositories is not modelled.  Every commit is content-free (the harness
   commits with allow_pointless), so merges never conflict; tags, hooks and
   nested trees are not modelled.  The new revision gets the id [length graph].
   No proofs here. *)
From Coq Require Import String List Arith Bool.
From BV Require Import Lib.Obs Lib.Dag Model.BranchUpdate.
Import ListNotations.

Record checkout := mkC {
  heavy : bool;               (* own branch (true) or a reference to the master (false) *)
  lbranch : branch;           (* the own branch; meaningless when [heavy = false] *)
  bound : bool;               (* the own branch has a bound location; false when light *)
  tparents : list revid       (* WorkingTree.get_parent_ids(): basis first, then pending merges *)
}.
Record sys := mkS { graph : dag; mbranch : branch; cos : list checkout }.

Inductive cerror :=
| BoundBranchOutOfDate | OutOfDateTree | LocalRequiresBoundBranch
| InjectedFault | NoSuchCheckout | NotHeavy | ReservedId
| BU (e : error).             (* an error of Branch.pull (Model/BranchUpdate) *)
Inductive outcome := Done | Fail (e : cerror).

(* tree.branch *)
Definition branch_of (s : sys) (c : checkout) : branch := if heavy c then lbranch c else mbranch s.
(* tree.branch.get_bound_location() is not None *)
Definition is_bound (c : checkout) : bool := heavy c && bound c.

Fixpoint upd_nth {A} (i : nat) (f : A -> A) (l : list A) : list A :=
  match l, i with
  | [], _ => []
  | x :: l', 0 => f x :: l'
  | x :: l', S i' => x :: upd_nth i' f l'
  end.

(* ---- the writes an operation performs, in order ------------------------ *)

Inductive write :=
| WMaster (b : branch)                    (* master.set_last_revision_info *)
| WLocal (i : nat) (b : branch)           (* checkout i's own branch .set_last_revision_info *)
| WTree (i : nat) (ps : list revid).      (* checkout i's tree parents *)

Definition set_co (s : sys) (i : nat) (f : checkout -> checkout) : sys :=
  mkS (graph s) (mbranch s) (upd_nth i f (cos s)).
Definition apply_write (s : sys) (w : write) : sys :=
  match w with
  | WMaster b => mkS (graph s) b (cos s)
  | WLocal i b => set_co s i (fun c => mkC (heavy c) b (bound c) (tparents c))
  | WTree i ps => set_co s i (fun c => mkC (heavy c) (lbranch c) (bound c) ps)
  end.
Definition apply_writes (s : sys) (ws : list write) : sys := fold_left apply_write ws s.
(* tree.branch.set_last_revision_info *)
Definition wbranch (i : nat) (c : checkout) (b : branch) : write :=
  if heavy c then WLocal i b else WMaster b.

(* ---- Commit.commit ------------------------------------------------------ *)

Definition is_some {A} (o : option A) : bool := match o with Some _ => true | None => false end.

(* The checks, then the plan.  [loc] is commit(local=True).
   _check_bound_branch:
     `if self.local and not self.branch.get_bound_location(): raise LocalRequiresBoundBranch`
     `if not self.local: self.master_branch = self.branch.get_master_branch()`
     no master: the branch itself is the reference for the out-of-date check;
     `if local_revid != master_revid: raise BoundBranchOutOfDate`
     (the master is never bound in this system: CommitToDoubleBoundBranch cannot occur)
   _check_out_of_date_tree:
     `if master_last != first_tree_parent: if master_last != NULL_REVISION: raise OutOfDateTree`
     new_revno = old_revno + 1 (every tree parent is present: no ghosts here)
   _update_branches: master.import_last_revision_info_and_tags (if bound_branch),
     then self.branch.set_last_revision_info; then, back in commit(),
     work_tree.update_basis_by_delta (parents := [new]). *)
Definition commit_plan (s : sys) (i : nat) (c : checkout) (loc : bool) : cerror + list write :=
  let br := branch_of s c in
  if loc && negb (is_bound c) then inl LocalRequiresBoundBranch else
  let via_master := negb loc && is_bound c in
  if via_master && negb (opt_eqb (tip br) (tip (mbranch s))) then inl BoundBranchOutOfDate else
  let ref := if via_master then mbranch s else br in
  if negb (opt_eqb (tip ref) (hd_error (tparents c))) && is_some (tip ref) then inl OutOfDateTree else
  let new := length (graph s) in
  let nb := mkB (Some new) (S (revno ref)) in
  inr ((if via_master then [WMaster nb] else []) ++ [wbranch i c nb; WTree i [new]]).

(* [fault = Some k]: the k-th write (counting from 0) raises instead of
   writing; the revision itself is already in the repository (builder.commit) *)
Definition commit (s : sys) (i : nat) (loc : bool) (fault : option nat) : outcome * sys :=
  match nth_error (cos s) i with
  | None => (Fail NoSuchCheckout, s)
  | Some c =>
      match commit_plan s i c loc with
      | inl e => (Fail e, s)
      | inr ws =>
          let s1 := mkS (graph s ++ [tparents c]) (mbranch s) (cos s) in
          match fault with
          | Some k => if k <? length ws
                      then (Fail InjectedFault, apply_writes s1 (firstn k ws))
                      else (Done, apply_writes s1 ws)
          | None => (Done, apply_writes s1 ws)
          end
      end
  end.

(* Two committers on one master.  _check_bound_branch compares the local and the
   master tip BEFORE it takes the master's write lock; _check_out_of_date_tree
   re-reads the master under that lock.  [commit_race s i j]: checkout i's bound
   commit, with checkout j's complete (non-local) commit running after i's tip
   comparison and before i locks the master.  When i's commit does not get that far
   (not bound, tips differ, or j = i) it is a plain commit and j does nothing.
   i's revision id is fixed when its commit starts ([length (graph s)], row reserved);
   j's revision is the next one. *)
Definition commit_race (s : sys) (i j : nat) : outcome * sys :=
  match nth_error (cos s) i with
  | None => (Fail NoSuchCheckout, s)
  | Some c =>
      if is_bound c && opt_eqb (tip (lbranch c)) (tip (mbranch s)) && negb (i =? j)
      then
        let new := length (graph s) in
        let s0 := mkS (graph s ++ [tparents c]) (mbranch s) (cos s) in
        let s1 := snd (commit s0 j false None) in            (* the other committer *)
        let ref := mbranch s1 in                             (* re-read under the master lock *)
        if negb (opt_eqb (tip ref) (hd_error (tparents c))) && is_some (tip ref)
        then (Fail OutOfDateTree, s1)
        else let nb := mkB (Some new) (S (revno ref)) in
             (Done, apply_writes s1 [WMaster nb; WLocal i nb; WTree i [new]])
      else commit s i false None
  end.

(* ---- tree parents -------------------------------------------------------- *)

(* DirStateWorkingTree.set_parent_trees: the first parent is always accepted;
   a later one only if it is a head of the whole list and not accepted yet *)
Fixpoint filter_rest (h acc rest : list revid) : list revid :=
  match rest with
  | [] => []
  | p :: rest' => if memb p h && negb (memb p acc)
                  then p :: filter_rest h (p :: acc) rest'
                  else filter_rest h acc rest'
  end.
Definition filter_parents (g : dag) (ps : list revid) : list revid :=
  match ps with
  | [] => []
  | p :: rest => p :: filter_rest (heads g ps) [p] rest
  end.

Definition opt_list (o : option revid) : list revid := match o with Some x => [x] | None => [] end.

(* Graph.is_ancestor(a, b) with "null:" as None *)
Definition is_anc_opt (g : dag) (a b : option revid) : bool :=
  match a, b with
  | None, _ => true
  | Some _, None => false
  | Some a, Some b => is_ancestor g a b
  end.

(* WorkingTree._update_tree(old_tip) with revision = branch tip [rev]:
   `if last_rev != revision:` set_last_revision(revision) (= set_parent_ids
   [revision] + parents[1:], filtered), then set_parent_trees([revision] +
   get_parent_ids()[1:] + [old_tip if not null]).  The merges themselves are
   content-free.  [None]: the code would call set_parent_trees with "null:" and
   fail with ReservedId (unreachable: a tree with a basis has a branch with a tip).
   `elif not is_null(old_tip) and old_tip != last_rev: add_parent_tree(old_tip)`
   (the tree was already on [rev] but behind its branch: the pivoted-out tip is
   still recorded; add_parent_tree = set_parent_ids(get_parent_ids() + [old_tip])). *)
Definition update_tree_parents (g : dag) (tps : list revid) (rev old_tip : option revid)
  : option (list revid) :=
  if opt_eqb (hd_error tps) rev
  then match old_tip with
       | Some o => if opt_eqb old_tip (hd_error tps) then Some tps
                   else Some (filter_parents g (tps ++ [o]))
       | None => Some tps
       end
  else match rev with
       | None => None
       | Some r => let merges := tl (filter_parents g (r :: tl tps)) in
                   Some (filter_parents g (r :: merges ++ opt_list old_tip))
       end.

(* ---- WorkingTree.update -------------------------------------------------- *)

(* bound: BzrBranch.update = pull(master, overwrite=True) (the source is the
   master, so only the local branch is written; an empty master changes
   nothing), old_tip = the previous tip unless it is an ancestor of the new
   one; then _update_tree.  Not bound (or lightweight): only the tree. *)
Definition update (s : sys) (i : nat) : outcome * sys :=
  match nth_error (cos s) i with
  | None => (Fail NoSuchCheckout, s)
  | Some c =>
      if is_bound c then
        match update_revisions (graph s) (lbranch c) false (mbranch s) None true with
        | Err e => (Fail (BU e), s)
        | Ok l' =>
            let old := tip (lbranch c) in
            let old_tip := if is_anc_opt (graph s) old (tip l') then None else old in
            let s1 := apply_write s (WLocal i l') in
            match update_tree_parents (graph s) (tparents c) (tip l') old_tip with
            | None => (Fail ReservedId, s1)
            | Some ps => (Done, apply_write s1 (WTree i ps))
            end
        end
      else
        match update_tree_parents (graph s) (tparents c) (tip (branch_of s c)) None with
        | None => (Fail ReservedId, s)
        | Some ps => (Done, apply_write s (WTree i ps))
        end
  end.

(* ---- WorkingTree.pull(source) ------------------------------------------- *)

Inductive src := SMaster | SCo (j : nat).     (* the master, or checkout j's tree.branch *)

Definition branch_eqb (a b : branch) : bool := opt_eqb (tip a) (tip b) && (revno a =? revno b).

(* GenericInterBranch.pull: a bound target whose master is not the source
   first pulls into the master with the same stop_revision (an error there
   changes nothing), then _pull
   into the target (an error there leaves the master already updated).
   WorkingTree.pull: when last_revision_info changed, the tree parents become
   [new tip] + get_parent_ids()[1:]. *)
(* the stop revision of `pull -r`: [back = Some k] asks for the k-th left-hand
   ancestor of the source tip (the oldest one when the history is shorter);
   [None], or an empty source: no stop revision *)
Definition stop_back (g : dag) (sb : branch) (back : option nat) : option revid :=
  match back, tip sb with
  | Some k, Some t => let lh := lefthand g t in Some (nth k lh (last lh t))
  | _, _ => None
  end.

Definition pull (s : sys) (i : nat) (sr : src) (back : option nat) : outcome * sys :=
  match nth_error (cos s) i with
  | None => (Fail NoSuchCheckout, s)
  | Some c =>
      let source := match sr with
                    | SMaster => Some (mbranch s, true)
                    | SCo j => match nth_error (cos s) j with
                               | Some cj => Some (branch_of s cj, negb (heavy cj))
                               | None => None
                               end
                    end in
      match source with
      | None => (Fail NoSuchCheckout, s)
      | Some (sb, source_is_master) =>
          let g := graph s in
          let stop := stop_back g sb back in
          let after_master :=
            if is_bound c && negb source_is_master
            then match update_revisions g (mbranch s) false sb stop false with
                 | Err e => inl e
                 | Ok m' => inr (apply_write s (WMaster m'))
                 end
            else inr s in
          match after_master with
          | inl e => (Fail (BU e), s)
          | inr s1 =>
              let old := branch_of s1 c in
              match update_revisions g old false sb stop false with
              | Err e => (Fail (BU e), s1)
              | Ok l' =>
                  let s2 := apply_write s1 (wbranch i c l') in
                  if branch_eqb l' old then (Done, s2)
                  else (Done, apply_write s2 (WTree i (filter_parents g (opt_list (tip l') ++ tl (tparents c)))))
              end
          end
      end
  end.

(* ---- bind / unbind -------------------------------------------------------- *)

Definition set_bound (s : sys) (i : nat) (b : bool) : outcome * sys :=
  match nth_error (cos s) i with
  | None => (Fail NoSuchCheckout, s)
  | Some c => if heavy c
              then (Done, set_co s i (fun c => mkC (heavy c) (lbranch c) b (tparents c)))
              else (Fail NotHeavy, s)
  end.

(* ---- operation sequences --------------------------------------------------- *)

Inductive op :=
| Commit (i : nat) (loc : bool) (fault : option nat)
| Update (i : nat)
| Pull (i : nat) (s : src) (back : option nat)
| Bind (i : nat)
| Unbind (i : nat)
| CommitRace (i j : nat).

Definition step (s : sys) (o : op) : outcome * sys :=
  match o with
  | Commit i loc f => commit s i loc f
  | Update i => update s i
  | Pull i sr back => pull s i sr back
  | Bind i => set_bound s i true
  | Unbind i => set_bound s i false
  | CommitRace i j => commit_race s i j
  end.

Fixpoint run (s : sys) (ops : list op) : sys :=
  match ops with
  | [] => s
  | o :: ops' => run (snd (step s o)) ops'
  end.

(* a master (empty, or with one root revision 0) and checkouts made from it:
   [kinds] lists heavy (true) / lightweight (false); heavy ones start bound *)
Definition init (kinds : list bool) (with_root : bool) : sys :=
  let m := if with_root then mkB (Some 0) 1 else mkB None 0 in
  let ps := if with_root then [0] else [] in
  mkS (if with_root then [[]] else []) m (map (fun h => mkC h m h ps) kinds).

(* ---- observations for the correspondence run --------------------------- *)

Definition cerror_name (e : cerror) : string :=
  match e with
  | BoundBranchOutOfDate => "BoundBranchOutOfDate"
  | OutOfDateTree => "OutOfDateTree"
  | LocalRequiresBoundBranch => "LocalRequiresBoundBranch"
  | InjectedFault => "InjectedFault"
  | NoSuchCheckout => "NoSuchCheckout"
  | NotHeavy => "NotHeavy"
  | ReservedId => "ReservedId"
  | BU e => error_name e
  end.
Definition ooutcome (o : outcome) : obs :=
  match o with Done => OT "ok" | Fail e => OE (cerror_name e) end.
(* per checkout: [tree.branch.last_revision_info(); bound?; tree.get_parent_ids()] *)
Definition ocheckout (s : sys) (c : checkout) : obs :=
  OL [obranch (branch_of s c); obool (is_bound c); olist onat (tparents c)].
Definition osys (s : sys) : obs := OL [obranch (mbranch s); olist (ocheckout s) (cos s)].

Fixpoint run_obs (s : sys) (ops : list op) : list obs :=
  match ops with
  | [] => []
  | o :: ops' => let '(r, s') := step s o in OL [ooutcome r; osys s'] :: run_obs s' ops'
  end.
Definition run_case (kinds : list bool) (with_root : bool) (ops : list op) : obs :=
  OL (osys (init kinds with_root) :: run_obs (init kinds with_root) ops).
