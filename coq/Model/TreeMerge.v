(* Model/TreeMerge.v -- hand model (tie H) of breezy/merge.py:Merge3Merger, per file id,
   over the abstract trees of Lib/Tree17.v, built on the decision kernels
   Gen.ThreeWay.three_way / lca_multi_way that are regenerated from merge.py on
   every run (tie T, property C18).

   Modelled functions (breezy/merge.py):
     _entries3            -> entry3         (which ids iter_changes(other vs base) reports, `changed_content`)
     _entries_lca         -> entry_lca      (MultiWalker ids, is_unmodified skip, the "all winners are this" skips,
                                             content_changed)
     _merge_names         -> merge_names
     _do_merge_contents   -> contents_winner, do_merge_contents   (with merge_contents /
                             _default_other_winner_merge / the not_applicable table inlined)
     _merge_executable    -> merge_executable
     _compute_transform   -> merge_entry, merge_tree  (effect of the recorded transform on the entry of one id)
     cook_conflicts       -> the conflict list (type, file id)
   The text merge (merge3.Merge3 / PlanWeaveMerge, outside /repo) is the Section variable [tm].
   transform.resolve_conflicts (file-system conflicts: duplicate, missing parent, parent loop ...) is
   NOT modelled: [wf_tree] says when the raw result is a well-formed tree, [run_case] answers
   "fs-conflict" otherwise and the driver projects the implementation's observation the same way.
   No proofs here. *)
From Coq Require Import List Bool Arith NArith String.
From BV Require Import Lib.Bytes Lib.Obs Lib.PyPrim Lib.Tree17 Gen.ThreeWay.
Import ListNotations.
Local Open Scope nat_scope.

(* cooked conflicts (type, file id); CAssert marks the AssertionError branch of
   _default_other_winner_merge (the whole merge raises) *)
Inductive conflict := CPath (f : nat) | CContents (f : nat) | CText (f : nat) | CAssert (f : nat).

Definition is_this (w : winner) : bool := match w with W_this => true | _ => false end.
Definition is_conflict (w : winner) : bool := match w with W_conflict => true | _ => false end.

(* names[winner_idx[w]] with winner_idx = {"this": 2, "other": 1, "conflict": 1} *)
Definition pick {A} (w : winner) (o t : A) : A := match w with W_this => t | _ => o end.

Definition SUF_OTHER : bytes := [46; 79; 84; 72; 69; 82]%N.   (* ".OTHER" *)
Definition SUF_THIS : bytes := [46; 84; 72; 73; 83]%N.        (* ".THIS" *)

Definition present (e : option entry) : bool := match e with Some _ => true | None => false end.

(* outcome of _do_merge_contents for one entry *)
Inductive cres :=
| RUnmodified                       (* winner "this": returns "unmodified" *)
| RTakeOther (ob : body)            (* winner "other", OTHER has the file: create_from_tree(other); "modified" *)
| RDelete                           (* winner "other", OTHER deleted it: unversion + delete; "deleted" *)
| RText (txt : bytes) (conf : bool) (* text_merge ran; "modified" *)
| RInhibit1 (ob : body)             (* not in THIS, THIS has another entry at OTHER's path: version + create from OTHER *)
| RInhibit2                         (* not in OTHER, OTHER has another entry at THIS's path: nothing *)
| RConflict                         (* contents conflict *)
| RAssert.                          (* AssertionError("winner is OTHER, but file not in THIS or OTHER tree") *)

Section Merge.
(* merge3.Merge3(...).merge_lines / PlanWeaveMerge: base this other -> (merged text, conflicts?) *)
Variable tm : bytes -> bytes -> bytes -> bytes * bool.
(* self._lca_trees is not None *)
Variable lm : bool.
(* LCA mode: other_ie.is_unmodified(lca_ie) holds for some LCA (same last-changed revision) *)
Variable unmod : nat -> bool.

(* the resolver handed to _merge_names / _merge_executable *)
Definition res {A} (eqb : A -> A -> bool) (allow : bool) (b : A) (ls : list A) (o t : A) : winner :=
  if lm then lca_multi_way A eqb (b, ls) o t allow else three_way A eqb b o t.

(* _merge_names: (Some (parent, name) = tt.adjust_path target, path conflict recorded?) *)
Definition merge_names (b : option entry) (ls : list (option entry)) (o t : option entry)
  : option (nat * bytes) * bool :=
  let nw0 := res oname_eqb true (vname b) (map vname ls) (vname o) (vname t) in
  let pw0 := res opar_eqb true (vparent b) (map vparent ls) (vparent o) (vparent t) in
  (* if this_name is None: "this" -> "other" *)
  let flip (w : winner) := match t with
                           | None => match w with W_this => W_other | _ => w end
                           | Some _ => w
                           end in
  let nw := flip nw0 in
  let pw := flip pw0 in
  if is_this nw && is_this pw then (None, false)
  else
    let c := is_conflict nw || is_conflict pw in
    match o with
    | None => (None, c)                      (* other_path is None: nothing to adjust *)
    | Some _ =>
        match pick pw (vparent o) (vparent t), pick nw (vname o) (vname t) with
        | Some p, Some n => (Some (p, n), c)
        | _, _ => (None, c)
        end
    end.

(* get_lines: [] unless a file *)
Definition text_of (e : option entry) : bytes := match vsha e with Some c => c | None => [] end.

Definition contents_winner (b : option entry) (ls : list (option entry)) (o t : option entry) : winner :=
  if lm then lca_multi_way _ opair_eqb (vpair b, map vpair ls) (vpair o) (vpair t) false
  else if opair_eqb (vpair b) (vpair o) then W_this
       else three_way _ opair_eqb (vpair b) (vpair o) (vpair t).

(* thop = this_tree.is_versioned(other_path); ohtp = other_tree.is_versioned(this_path) *)
Definition do_merge_contents (thop ohtp : bool) (b : option entry) (ls : list (option entry))
           (o t : option entry) : cres :=
  match contents_winner b ls o t with
  | W_this => RUnmodified
  | W_other =>
      match o with
      | Some oe => RTakeOther (e_body oe)
      | None => match t with Some _ => RDelete | None => RAssert end
      end
  | W_conflict =>
      match vkind t, vkind o with
      | Some KFile, Some KFile =>
          let '(txt, c) := tm (text_of b) (text_of t) (text_of o) in RText txt c
      | None, _ =>
          match o with
          | Some oe => if thop then RInhibit1 (e_body oe) else RConflict
          | None => RConflict
          end
      | Some _, None => if ohtp then RInhibit2 else RConflict
      | _, _ => RConflict
      end
  end.

Definition status_modified (r : cres) : bool :=
  match r with RTakeOther _ | RText _ _ => true | _ => false end.
Definition status_deleted (r : cres) : bool := match r with RDelete => true | _ => false end.

(* tt.final_kind(trans_id) after the contents step *)
Definition final_kind (r : cres) (t : option entry) : option kind :=
  match r with
  | RUnmodified | RInhibit2 | RAssert => vkind t
  | RTakeOther ob | RInhibit1 ob => Some (kind_of ob)
  | RText _ _ => Some KFile
  | RDelete | RConflict => None
  end.

(* _merge_executable: Some x = tt.set_executability(x, trans_id) is called *)
Definition merge_executable (r : cres) (b : option entry) (ls : list (option entry)) (o t : option entry)
  : option bool :=
  if status_deleted r then None
  else
    let w0 := res oexec_eqb true (vexec b) (map vexec ls) (vexec o) (vexec t) in
    let w := match w0 with
             | W_conflict => match o with None => W_this | Some _ => W_other end
             | _ => w0
             end in
    if is_this w && negb (status_modified r) then None
    else
      match final_kind r t with
      | Some KFile =>
          match w with
          | W_this => vexec t
          | _ => match o with
                 | Some _ => vexec o
                 | None => match t with Some _ => vexec t | None => vexec b end
                 end
          end
      | _ => None
      end.

Definition with_exec (bd : body) (x : option bool) : body :=
  match x with Some v => set_exec bd v | None => bd end.

(* the effect of _compute_transform's loop body on the versioned entry of file id f *)
Definition merge_entry (f : nat) (thop ohtp changed : bool) (b : option entry) (ls : list (option entry))
           (o t : option entry) : option entry * list conflict :=
  let '(adj, pc) := merge_names b ls o t in
  (* tt.final_parent / tt.final_name of the trans_id *)
  let pos := match adj with
             | Some pn => Some pn
             | None => option_map (fun e => (e_parent e, e_name e)) t
             end in
  let r := if changed then do_merge_contents thop ohtp b ls o t else RUnmodified in
  let x := merge_executable r b ls o t in
  let mk (bd : body) := option_map (fun pn : nat * bytes => mkE (fst pn) (snd pn) bd) pos in
  let ent :=
    match r with
    | RUnmodified | RInhibit2 | RAssert =>
        match t with Some te => mk (with_exec (e_body te) x) | None => None end
    | RTakeOther ob | RInhibit1 ob => mk (with_exec (fresh_body ob) x)
    | RDelete => None
    | RText txt _ => mk (with_exec (BFile txt false) x)
    | RConflict =>
        (* the trans_id is unversioned, its contents deleted; the first helper of
           _dump_conflicts (.OTHER, else .THIS) is versioned with the file's identity *)
        match o, t with
        | Some oe, _ =>
            option_map (fun pn : nat * bytes => mkE (fst pn) (snd pn ++ SUF_OTHER) (fresh_body (e_body oe))) pos
        | None, Some te =>
            option_map (fun pn : nat * bytes => mkE (fst pn) (snd pn ++ SUF_THIS) (fresh_body (e_body te))) pos
        | None, None => None
        end
    end in
  (ent,
   (* cook_conflicts drops a path conflict when the same file also has a contents conflict *)
   (if pc && negb (match r with RConflict => true | _ => false end) then [CPath f] else []) ++
   match r with
   | RText _ true => [CText f]
   | RConflict => [CContents f]
   | RAssert => [CAssert f]
   | _ => []
   end).

(* ---- whole trees ------------------------------------------------------------ *)

(* path of a file id: names from the root (id 0) down; None if unreachable *)
Fixpoint path_of (T : tree) (fuel : nat) (f : nat) : option (list bytes) :=
  match fuel with
  | 0 => None
  | S n =>
      if Nat.eqb f 0 then Some []
      else match T f with
           | None => None
           | Some e => option_map (fun p => p ++ [e_name e]) (path_of T n (e_parent e))
           end
  end.

Definition path_eqb := opt_eqb (list_eqb bytes_eqb).

(* T.is_versioned(path of f in Src) *)
Definition versioned_at (U : list nat) (T Src : tree) (f : nat) : bool :=
  match path_of Src (S (List.length U)) f with
  | None => false
  | Some p => existsb (fun g => negb (Nat.eqb g 0) && path_eqb (path_of T (S (List.length U)) g) (Some p)) U
  end.

(* _entries3: ids reported by other_tree.iter_changes(base_tree), with changed_content *)
Definition entry3 (U : list nat) (B O T : tree) (f : nat) : option (option entry * list conflict) :=
  if oentry_eqb (B f) (O f) then None
  else Some (merge_entry f (versioned_at U T O f) (versioned_at U O T f)
                         (negb (opair_eqb (vpair (B f)) (vpair (O f))))
                         (B f) [] (O f) (T f)).

(* _entries_lca *)
Definition lca_decide (b : option entry) (ls : list (option entry)) (o t : option entry) : option bool :=
  let kw := lca_multi_way _ okind_eqb (vkind b, map vkind ls) (vkind o) (vkind t) true in
  let pw := lca_multi_way _ opar_eqb (vparent b, map vparent ls) (vparent o) (vparent t) true in
  let nw := lca_multi_way _ oname_eqb (vname b, map vname ls) (vname o) (vname t) true in
  match kw with
  | W_this =>
      match vkind o with
      | Some KDir => if is_this pw && is_this nw then None else Some false
      | None | Some KFile =>
          let sw := lca_multi_way _ obytes_eqb (vsha b, map vsha ls) (vsha o) (vsha t) false in
          let xw := lca_multi_way _ oexec_eqb (vexec b, map vexec ls) (vexec o) (vexec t) true in
          if is_this pw && is_this nw && is_this sw && is_this xw then None
          else Some (negb (is_this sw))
      | Some KLink =>
          let tw := lca_multi_way _ obytes_eqb (vtarget b, map vtarget ls) (vtarget o) (vtarget t) true in
          if is_this pw && is_this nw && is_this tw then None
          else Some (negb (is_this tw))
      end
  | _ => Some true
  end.

Definition entry_lca (U : list nat) (B : tree) (Ls : list tree) (O T : tree) (f : nat)
  : option (option entry * list conflict) :=
  let ls := map (fun L : tree => L f) Ls in
  if negb (existsb present (O f :: ls)) then None          (* MultiWalker(other, lca_trees) never sees it *)
  else if unmod f then None
  else match lca_decide (B f) ls (O f) (T f) with
       | None => None
       | Some changed =>
           Some (merge_entry f (versioned_at U T O f) (versioned_at U O T f) changed (B f) ls (O f) (T f))
       end.

Definition visit (U : list nat) (B : tree) (Ls : list tree) (O T : tree) (f : nat) :=
  if lm then entry_lca U B Ls O T f else entry3 U B O T f.

(* the tt.adjust_path target recorded for f, if f is processed at all *)
Definition adj_of (U : list nat) (B : tree) (Ls : list tree) (O T : tree) (f : nat) : option (nat * bytes) :=
  match visit U B Ls O T f with
  | None => None
  | Some _ => fst (merge_names (B f) (if lm then map (fun L : tree => L f) Ls else []) (O f) (T f))
  end.

(* U: the file ids in play (every id of the trees involved) *)
Definition merge_tree (U : list nat) (B : tree) (Ls : list tree) (O T : tree) : tree * list conflict :=
  (fun f => if existsb (Nat.eqb f) U
            then match visit U B Ls O T f with Some (e, _) => e | None => T f end
            else T f,
   flat_map (fun f => match visit U B Ls O T f with Some (_, cs) => cs | None => [] end) U).

End Merge.

(* ---- well-formedness of a (raw) result: when transform.resolve_conflicts finds nothing ---- *)

Definition wf_tree (U : list nat) (R : tree) : bool :=
  forallb (fun f =>
    match R f with
    | None => true
    | Some e =>
        negb (Nat.eqb f 0)
        && (Nat.eqb (e_parent e) 0
            || match R (e_parent e) with
               | Some pe => kind_eqb (kind_of (e_body pe)) KDir
               | None => false
               end)
        && (match path_of R (S (List.length U)) f with Some _ => true | None => false end)
        && forallb (fun g => Nat.eqb g f
                             || match R g with
                                | Some e' => negb (Nat.eqb (e_parent e') (e_parent e)
                                                   && bytes_eqb (e_name e') (e_name e))
                                | None => true
                                end) U
    end) U.

(* OLD behaviour (before /repo bbc9cee; finding C17-nofinalpath-crash, fixed): TreeTransform.apply raised
   NoFinalPath when some entry was given a new name inside a directory p that has no name in the transform
   (not in THIS, not adjusted by the merge) while nothing with contents lives in p.  Since the repair such an
   unversioned, content-less trans_id is ignored by _inventory_altered and the merge simply reports the path
   conflict, which is what [merge_entry] computes anyway.  Kept only as documentation; not used by [run_case]. *)
Definition no_final_path_old (U : list nat) (adj : nat -> option (nat * bytes)) (T R : tree) : bool :=
  existsb (fun f =>
    match adj f with
    | Some (p, _) =>
        negb (Nat.eqb p 0) && negb (present (T p))
        && negb (match adj p with Some _ => true | None => false end)
        && negb (existsb (fun g => match R g with Some e => Nat.eqb (e_parent e) p | None => false end) U)
    | None => false
    end) U.

(* ---- correspondence run ------------------------------------------------------ *)

Definition key3_eqb (a b : bytes * bytes * bytes) : bool :=
  bytes_eqb (fst (fst a)) (fst (fst b)) && bytes_eqb (snd (fst a)) (snd (fst b)) && bytes_eqb (snd a) (snd b).

(* the text merger as tabulated by the driver from merge3 / PlanWeaveMerge *)
Fixpoint tm_table (tab : list ((bytes * bytes * bytes) * (bytes * bool))) (b t o : bytes) : bytes * bool :=
  match tab with
  | [] => (t, true)
  | (k, r) :: tab' => if key3_eqb k (b, t, o) then r else tm_table tab' b t o
  end.

Definition kind_tag (k : kind) : obs :=
  OT (match k with KFile => "file" | KDir => "directory" | KLink => "symlink" end)%string.

Definition entry_obs (f : nat) (e : entry) : obs :=
  OL [onat f; onat (e_parent e); OB (e_name e); kind_tag (kind_of (e_body e));
      OB (match content_of (e_body e) with Some c => c | None => [] end); obool (exec_of (e_body e))].

Definition conflict_obs (c : conflict) : obs :=
  match c with
  | CPath f => OL [onat f; OT "path conflict"%string]
  | CContents f => OL [onat f; OT "contents conflict"%string]
  | CText f => OL [onat f; OT "text conflict"%string]
  | CAssert f => OL [onat f; OT "assert"%string]
  end.

Definition is_assert (c : conflict) : bool := match c with CAssert _ => true | _ => false end.

Definition run_case (lm : bool) (tab : list ((bytes * bytes * bytes) * (bytes * bool))) (unm : list nat)
           (U : list nat) (B : list (nat * entry)) (Ls : list (list (nat * entry)))
           (O T : list (nat * entry)) : obs :=
  let unmod := fun f => existsb (Nat.eqb f) unm in
  let '(R, cs) := merge_tree (tm_table tab) lm unmod U
                             (alookup B) (map alookup Ls) (alookup O) (alookup T) in
  if existsb is_assert cs then OE "AssertionError"%string
  else if negb (wf_tree U R) then OT "fs-conflict"%string
  else OL [OL (flat_map (fun f => match R f with Some e => [entry_obs f e] | None => [] end) U);
           OL (map conflict_obs cs)].
