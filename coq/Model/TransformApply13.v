(* Model/TransformApply13.v -- hand model of the apply step of a tree transform (C13).

   Modelled code (identical in the bzr and git variants unless noted):
     breezy/transform.py      _FileMover.rename / pre_delete / rollback / apply_deletions
                              (the machine of Lib/FSFault13.v)
     breezy/bzr/transform.py  InventoryTreeTransform.apply, _apply_removals, _apply_insertions,
                              DiskTreeTransform._limbo_name, InventoryTreeTransform._generate_limbo_path
                              (case-sensitive target), TreeTransform.new_paths(filesystem_only=True),
                              DiskTreeTransform.finalize
     breezy/git/transform.py  GitTreeTransform.apply, _apply_removals, _apply_insertions, ... (same text)
   Environment (input of the model, validated by the correspondence run): FinalPaths.get_path
   (x_final_paths), the versioned paths after the metadata update (x_inv_new).
   No proofs here. *)
From Coq Require Import List String Bool Arith NArith ZArith Ascii.
From BV Require Import Lib.Obs Lib.FSFault13.
Import ListNotations.
Open Scope list_scope.

Definition tid := string.     (* "new-5" *)

Fixpoint assoc {B} (k : string) (l : list (string * B)) : option B :=
  match l with
  | [] => None
  | (k', v) :: l' => if string_dec k' k then Some v else assoc k l'
  end.
Definition has_key {B} (k : string) (l : list (string * B)) : bool :=
  match assoc k l with Some _ => true | None => false end.
Definition memt (k : string) (l : list string) : bool :=
  existsb (fun k' => if string_dec k' k then true else false) l.

Record xform := {
  x_limbodir : path;                                  (* tt._limbodir, relative to the tree root *)
  x_deletiondir : path;                               (* tt._deletiondir *)
  x_tree_paths : list (path * tid);                   (* tt._tree_path_ids.items() *)
  x_removed : list tid;                               (* tt._removed_contents *)
  x_new_name : list (tid * seg);                      (* tt._new_name *)
  x_new_parent : list (tid * tid);                    (* tt._new_parent *)
  x_new_contents : list (tid * bool);                 (* tt._new_contents: is it "directory"? *)
  x_new_id : list tid;                                (* keys of tt._new_id (bzr) / tt._versioned (git) *)
  x_new_exec : list (tid * bool);                     (* tt._new_executability *)
  x_limbo_files : list (tid * path);                  (* tt._limbo_files *)
  x_limbo_children_names : list (tid * list (seg * tid));
  x_needs_rename : list tid;                          (* tt._needs_rename *)
  x_stale : list path;                                (* tt._possibly_stale_limbo_files *)
  x_final_paths : list (tid * path);                  (* FinalPaths(tt).get_path(t) for every trans id *)
  x_inv_new : list path                               (* versioned paths once the delta is applied *)
}.

(* ---- sorting by the path string, as Python's sorted() on (path, trans_id) tuples *)
Definition pstr (p : path) : string := String.concat "/" p.
Definition key_leb (a b : path * tid) : bool :=
  match String.compare (pstr (fst a)) (pstr (fst b)) with
  | Lt => true
  | Gt => false
  | Eq => String.leb (snd a) (snd b)
  end.
Fixpoint insert_pt (a : path * tid) (l : list (path * tid)) : list (path * tid) :=
  match l with
  | [] => [a]
  | b :: l' => if key_leb a b then a :: l else b :: insert_pt a l'
  end.
Definition sort_pt (l : list (path * tid)) : list (path * tid) := fold_right insert_pt [] l.
Definition sort_paths (l : list path) : list path :=
  map fst (sort_pt (map (fun p => (p, EmptyString)) l)).

(* ---- limbo bookkeeping that apply mutates *)
Record lstate := {
  l_files : list (tid * path);
  l_children_names : list (tid * list (seg * tid));
  l_needs : list tid
}.

Definition is_new_dir (x : xform) (t : tid) : bool :=
  match assoc t (x_new_contents x) with Some true => true | _ => false end.

Fixpoint set_assoc {B} (k : string) (v : B) (l : list (string * B)) : list (string * B) :=
  match l with
  | [] => [(k, v)]
  | (k', v') :: l' => if string_dec k' k then (k, v) :: l' else (k', v') :: set_assoc k v l'
  end.

(* DiskTreeTransform._limbo_name; on a miss InventoryTreeTransform._generate_limbo_path
   (falling back to DiskTreeTransform._generate_limbo_path) *)
Definition limbo_name (x : xform) (l : lstate) (t : tid) : path * lstate :=
  match assoc t (l_files l) with
  | Some p => (p, l)
  | None =>
    let fb := x_limbodir x ++ [t] in
    let fallback := (fb, {| l_files := (t, fb) :: l_files l;
                            l_children_names := l_children_names l;
                            l_needs := t :: l_needs l |}) in
    match assoc t (x_new_parent x) with
    | None => fallback
    | Some parent =>
      if is_new_dir x parent then
        match assoc t (x_new_name x), assoc parent (l_files l) with
        | Some filename, Some pp =>
            let direct names :=
              (pp ++ [filename],
               {| l_files := (t, pp ++ [filename]) :: l_files l;
                  l_children_names := set_assoc parent (set_assoc filename t names) (l_children_names l);
                  l_needs := l_needs l |}) in
            match assoc parent (l_children_names l) with
            | None => direct []
            | Some names =>
                match assoc filename names with
                | None => direct names
                | Some t' => if string_dec t' t then direct names else fallback
                end
            end
        | _, _ => fallback
        end
      else fallback
    end
  end.

(* _apply_removals over  sorted(self._tree_path_ids.items(), reverse=True) *)
Fixpoint removal_ops (x : xform) (tps : list (path * tid)) (l : lstate)
  : list pop * list path * lstate :=
  match tps with
  | [] => ([], [], l)
  | (p, t) :: rest =>
      match p with
      | [] => removal_ops x rest l                       (* if path == "": continue *)
      | _ :: _ =>
        if memt t (x_removed x) then
          let dp := x_deletiondir x ++ [t] in
          let '(ops, dels, l') := removal_ops x rest l in
          (PRename false p dp :: ops, dp :: dels, l')      (* mover.pre_delete(full_path, delete_path) *)
        else if has_key t (x_new_name x) || has_key t (x_new_parent x) then
          let '(ln, l1) := limbo_name x l t in
          let '(ops, dels, l') := removal_ops x rest l1 in
          (PRename true p ln :: ops, dels, l')             (* mover.rename(full_path, limbo_name), ENOENT ignored *)
        else removal_ops x rest l
      end
  end.

Fixpoint dedupe (l : list string) : list string :=
  match l with
  | [] => []
  | a :: l' => if memt a l' then dedupe l' else a :: dedupe l'
  end.

(* TreeTransform.new_paths(filesystem_only=True) *)
Definition new_paths (x : xform) (l : lstate) : list (path * tid) :=
  let stale t := negb (has_key t (x_new_name x)) && negb (has_key t (x_new_parent x)) &&
                 negb (has_key t (x_new_contents x)) && negb (memt t (x_new_id x)) in
  let needs := filter (fun t => negb (stale t)) (l_needs l) in
  let ids := dedupe (needs ++ map fst (x_new_exec x)) in
  sort_pt (flat_map (fun t => match assoc t (x_final_paths x) with
                              | Some p => [(p, t)]
                              | None => []
                              end) ids).

(* _apply_insertions, first loop: rename out of limbo, parent-to-child *)
Fixpoint insertion_ops (x : xform) (nps : list (path * tid)) (l : lstate) : list pop * lstate :=
  match nps with
  | [] => ([], l)
  | (p, t) :: rest =>
      let '(ren, l1) :=
        if memt t (l_needs l)
        then let '(ln, l1) := limbo_name x l t in ([PRename true ln p], l1)
        else ([], l) in
      let '(ops, l') := insertion_ops x rest l1 in
      (ren ++ ops, l')
  end.

(* _apply_insertions, second loop (since 54fc383): the executable bits, once every rename succeeded *)
Definition chmod_ops (x : xform) (nps : list (path * tid)) : list (path * bool) :=
  flat_map (fun pt => match assoc (snd pt) (x_new_exec x) with
                      | Some b => [(fst pt, b)]
                      | None => []
                      end) nps.

Definition init_lstate (x : xform) : lstate :=
  {| l_files := x_limbo_files x; l_children_names := x_limbo_children_names x;
     l_needs := x_needs_rename x |}.

(* limbo_paths = list(_limbo_files.values()) + _possibly_stale; sort(reverse=True) *)
Definition fin_list (files : list (tid * path)) (stale : list path) : list path :=
  rev (sort_paths (map snd files ++ stale)).

Record compiled := { c_prog : prog; c_fin_failure : list path }.

Definition compile (x : xform) : compiled :=
  let tps := rev (sort_pt (x_tree_paths x)) in
  let '(rops, dels, l1) := removal_ops x tps (init_lstate x) in
  let nps := new_paths x l1 in
  let '(iops, l2) := insertion_ops x nps l1 in
  (* for _path, trans_id in new_paths: if trans_id in self._limbo_files: del self._limbo_files[trans_id] *)
  let left := filter (fun e => negb (memt (fst e) (map snd nps))) (l_files l2) in
  {| c_prog := {| g_phase := rops ++ iops;
                  g_chmods := chmod_ops x nps;
                  g_deletions := dels;
                  g_inv_new := x_inv_new x;
                  g_fin_files := fin_list left (x_stale x);
                  g_limbodir := x_limbodir x;
                  g_deletiondir := x_deletiondir x |};
     c_fin_failure := fin_list (l_files l2) (x_stale x) |}.

Definition apply_prog (x : xform) : prog := c_prog (compile x).

(* tt.apply(): the metadata update (apply_inventory_delta / _apply_index_changes) runs BEFORE
   mover.apply_deletions()  (breezy/bzr/transform.py and breezy/git/transform.py since c37d45c) *)
Definition apply_model (x : xform) (flt : fault) (f0 : fs) (inv0 : list path) : outcome :=
  run_with_fault true (apply_prog x) flt f0 inv0.

(* documentation only: the order before c37d45c (apply_deletions before the metadata update) *)
Definition apply_model_old (x : xform) (flt : fault) (f0 : fs) (inv0 : list path) : outcome :=
  run_with_fault false (apply_prog x) flt f0 inv0.

(* what the caller's  finally: tt.finalize()  does after a failed apply *)
Definition finalize_after (x : xform) (o : outcome) : fs * option exc :=
  match o_stage o with
  | SPhase =>
      let g := apply_prog x in
      let g' := {| g_phase := []; g_chmods := []; g_deletions := []; g_inv_new := []; g_fin_files := c_fin_failure (compile x);
                   g_limbodir := g_limbodir g; g_deletiondir := g_deletiondir g |} in
      let '(f, _, e) := run_fin g' None EIO (o_fs o) [] in (f, e)
  | SDel =>
      let '(f, _, e) := run_fin (apply_prog x) None EIO (o_fs o) [] in (f, e)
  | _ => (o_fs o, None)        (* finalize already ran inside apply: self._tree is None *)
  end.

(* ---------------------------------------------------------------- observation *)

Fixpoint bytes_of_string (s : string) : list N :=
  match s with
  | EmptyString => []
  | String c s' => N_of_ascii c :: bytes_of_string s'
  end.
Definition opath (p : path) : obs := OB (bytes_of_string (pstr p)).

Definition errno_name (e : errno) : string :=
  match e with
  | ENOENT => "ENOENT" | EEXIST => "EEXIST" | ENOTEMPTY => "ENOTEMPTY" | ENOTDIR => "ENOTDIR"
  | EISDIR => "EISDIR" | EINVAL => "EINVAL" | EIO => "EIO" | EACCES => "EACCES"
  end.
Definition oerr (r : option errno) : obs := match r with None => ON | Some e => OT (errno_name e) end.

Definition os_exc_name (e : errno) : string :=
  match e with
  | ENOENT => "FileNotFoundError" | EEXIST => "FileExistsError" | ENOTDIR => "NotADirectoryError"
  | EISDIR => "IsADirectoryError" | EACCES => "PermissionError" | _ => "OSError"
  end.
Definition exc_name (x : exc) : string :=
  match x with
  | XRename EEXIST | XRename ENOTEMPTY => "FileExists"
  | XRename _ => "TransformRenameFailed"
  | XOs e => os_exc_name e
  | XRollback _ => "TransformRenameFailed"
  | XImmortalLimbo => "ImmortalLimbo"
  | XImmortalPendingDeletion => "ImmortalPendingDeletion"
  end.
Definition oexc (x : option exc) : obs := match x with None => ON | Some x => OE (exc_name x) end.

Definition oev (e : ev) : obs :=
  match e with
  | EvRename a b c r => OL [OT "rename"; opath a; opath b; obool c; oerr r]
  | EvChmod p x r => OL [OT "chmod"; opath p; obool x; oerr r]
  | EvDelete p r => OL [OT "delete"; opath p; oerr r]
  end.

Definition onode (p : path) (n : node) : obs :=
  match n with
  | File c x => OL [opath p; OT "file"; OB c; obool x]
  | Dir => OL [opath p; OT "directory"; OB []; obool false]
  | Link t => OL [opath p; OT "symlink"; OB t; obool false]
  end.

(* sorted listing of everything except the fixed control directories *)
Definition listing (hidden : list path) (f : fs) : obs :=
  let keep := filter (fun e => negb (existsb (fun h => if path_eq_dec h (fst e) then true else false) hidden)) f in
  let order := sort_paths (map fst keep) in
  OL (flat_map (fun p => match lookup f p with Some n => [onode p n] | None => [] end) order).

Definition ostage (s : stage) : obs :=
  OT (match s with SPhase => "phase" | SDel => "deletions" | SFin => "finalize" | SDone => "done" end).

(* hidden = the control-directory chain (".bzr", ".bzr/checkout" or ".git") and the root *)
Definition run_case (x : xform) (flt : fault) (hidden : list path) (f0 : fs) (inv0 : list path) : obs :=
  let o := apply_model x flt f0 inv0 in
  let '(f2, e2) := finalize_after x o in
  OL [obool (wfb f0);
      oexc (o_exc o); ostage (o_stage o); obool (o_dirty o);
      OL (map oev (o_trace o));
      listing hidden (o_fs o);
      OL (map opath (o_inv o));
      oexc e2;
      listing hidden f2].
