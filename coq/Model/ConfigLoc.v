(* Model/ConfigLoc.v -- hand model (tie H) of the location-section resolution and
   of the breezy side of the value round trip in breezy/config.py.

   Strings are lists of Unicode code points ([str] = [list N], Model/Fnmatch.v).

   breezy code modelled line by line:
     _iter_for_location_by_parts            -> [iter_for_location_by_parts]
     LocationSection.__init__/.get          -> [lsection], [locals], [lsec_get]
     iter_option_refs + the locals loop     -> [expand_locals] (see the note there)
     LocationMatcher._get_matching_sections -> [get_matching_sections]
     LocationMatcher.get_sections           -> [sort_desc], [take_visible], [get_sections]
     ui.bool_from_string                    -> [bool_from_string]
     Stack.get (unregistered option, expand=False; registered bool option)
                                            -> [stack_get], [stack_get_bool]
     IniFileStore.unquote / Stack.set       -> [unquote], [set_get_mem]
   environment (code outside /repo), modelled and validated by the correspondence run:
     fnmatch.fnmatch                        -> Model/Fnmatch.v
     dromedary urlutils.join / basename     -> Section variables in the theory;
                                               [simple_join]/[simple_basename] for plain paths in [run_*]
     ConfigObj._quote (list_values=True)    -> [cobj_quote]
     ConfigObj write + parse of one value   -> [set_save_get] (file layer)
   not modelled: section names starting with "file://" (converted through
   dromedary local_path_from_url), segment parameters (",branch=x") in locations. *)
From Coq Require Import NArith Bool String Ascii PeanoNat List.
From BV Require Import Lib.Bytes Lib.Obs Model.Fnmatch.
Import ListNotations.
Open Scope list_scope.
Open Scope N_scope.

Definition lit (s : string) : str := map N_of_ascii (list_ascii_of_string s).

Definition cSL : N := 47.
Definition str_eqb (a b : str) : bool := list_eqb N.eqb a b.

(* ---- path parts -------------------------------------------------------------- *)
Fixpoint lstrip_c (c : N) (s : str) : str :=
  match s with
  | x :: s' => if x =? c then lstrip_c c s' else s
  | [] => []
  end.
(* s.rstrip("/") *)
Definition rstrip_slash (s : str) : str := rev (lstrip_c cSL (rev s)).
(* s.rstrip("/").split("/") : always >= 1 part *)
Definition parts (s : str) : list str := split1 cSL (rstrip_slash s).

(* for name in zip(location_parts, section_parts): if not fnmatch(name[0], name[1]): no match *)
Fixpoint zip_all (f : str -> str -> bool) (l1 l2 : list str) : bool :=
  match l1, l2 with
  | a :: l1', b :: l2' => f a b && zip_all f l1' l2'
  | _, _ => true
  end.

Definition sec_match (lp sp : list str) : bool :=
  (length sp <=? length lp)%nat && zip_all fnmatch lp sp.

(* extra_path = "/".join(location_parts[len(section_parts):]) *)
Definition extra_of (lp sp : list str) : str := join [cSL] (skipn (length sp) lp).

(* _iter_for_location_by_parts(sections, location) -> [(section, extra_path, nb_parts)] *)
Definition iter_for_location_by_parts (sections : list str) (location : str)
  : list (str * str * nat) :=
  let lp := parts location in
  flat_map (fun sec =>
              let sp := parts sec in
              if sec_match lp sp then [(sec, extra_of lp sp, length sp)] else [])
           sections.

(* ---- sections ------------------------------------------------------------------ *)
Definition options := list (str * str).      (* file order; ConfigObj keys are unique *)

Fixpoint lookup (k : str) (o : options) : option str :=
  match o with
  | [] => None
  | (k', v) :: o' => if str_eqb k k' then Some v else lookup k o'
  end.

(* a LocationSection: the no-name section has id [] (Python: None) *)
Record lsection := mkLS { ls_id : str; ls_opts : options; ls_extra : str; ls_branch : str }.

Definition lower_c (c : N) : N := if (65 <=? c) && (c <=? 90) then c + 32 else c.
(* ui.bool_from_string: _valid_boolean_strings[s.lower()].  Only ASCII letters
   can lower-case to the ASCII words below that matter (no non-ASCII character
   lower-cases to one of  y e s n o f t r u a l ), so ASCII lowering decides it. *)
Definition bool_from_string (s : str) : option bool :=
  let l := map lower_c s in
  if existsb (str_eqb l) (map lit ["yes"; "y"; "on"; "true"; "1"]%string) then Some true
  else if existsb (str_eqb l) (map lit ["no"; "n"; "off"; "false"; "0"]%string) then Some false
  else None.

(* the skip-scanner used by [expand_locals]: at each position not inside a
   replaced reference, the first local whose "{name}" is a prefix is substituted *)
Fixpoint expand_aux (locals : list (str * str)) (skip : nat) (s : str) : str :=
  match s with
  | [] => []
  | c :: s' =>
      match skip with
      | S k => expand_aux locals k s'
      | O => match find (fun kv => prefixb (fst kv) s) locals with
             | Some kv => snd kv ++ expand_aux locals (length (fst kv) - 1) s'
             | None => c :: expand_aux locals 0 s'
             end
      end
  end.

Definition policy_suffix : str := lit ":policy".
Definition appendpath : str := lit "appendpath".

Definition cDQ : N := 34.  Definition cSQ : N := 39.  Definition cNL : N := 10.
Definition wspace_plus : str := [32; 13; 10; 11; 9; 39; 34].
Definition q3d : str := [34; 34; 34].
Definition q3s : str := [39; 39; 39].

Section Env.
  (* dromedary.urlutils.join(value, extra_path) and urlutils.basename *)
  Variable url_join : str -> str -> str.
  Variable url_basename : str -> str.

  Definition locals (ls : lsection) : list (str * str) :=
    [(lit "{relpath}", ls_extra ls);
     (lit "{basename}", url_basename (ls_extra ls));
     (lit "{branchname}", ls_branch ls)].

  (* for is_ref, chunk in iter_option_refs(value): a reference "{name}" whose
     name is in self.locals is replaced, everything else is copied.
     _option_ref_re matches "{" identifier "}" leftmost and non-overlapping; a
     match contains no inner brace, so two different matches never overlap and
     every literal occurrence of "{relpath}", "{basename}", "{branchname}" IS a
     match: the loop equals this left-to-right literal substitution. *)
  Definition expand_locals (ls : lsection) (v : str) : str := expand_aux (locals ls) 0 v.

  (* LocationSection.get(name) with expand=True.  The policy name is fetched
     with self.get(name + ":policy", None) -- the same method, so it is itself
     subject to ITS policy and to local expansion.  [fuel] bounds that recursion;
     [get_fuel] is always enough (Theory: lsec_get_fuel_enough). *)
  Fixpoint lsec_get (fuel : nat) (ls : lsection) (name : str) : option str :=
    match fuel with
    | O => None
    | S f =>
        match lookup name (ls_opts ls) with
        | None => None
        | Some v =>
            let v1 := match lsec_get f ls (name ++ policy_suffix) with
                      | Some p => if str_eqb p appendpath then url_join v (ls_extra ls) else v
                      | None => v
                      end in
            Some (expand_locals ls v1)
        end
    end.

  Definition key_bound (o : options) : nat :=
    fold_right (fun kv m => Nat.max (length (fst kv)) m) O o.
  Definition get_fuel (ls : lsection) : nat := S (key_bound (ls_opts ls)).
  Definition ls_get (ls : lsection) (name : str) : option str := lsec_get (get_fuel ls) ls name.

  (* ---- LocationMatcher ---------------------------------------------------------- *)
  Record store := mkStore { st_noname : option options; st_named : list (str * options) }.

  (* _get_matching_sections: [(length, LocationSection)] -- the no-name section with
     length 0, extra_path = location, branch name ""; named sections through
     _iter_for_location_by_parts, extra_path = unmatched parts, branch name =
     basename(location) *)
  Definition get_matching_sections (st : store) (location : str) : list (nat * lsection) :=
    let lp := parts location in
    (match st_noname st with
     | Some o => [(O, mkLS [] o location [])]
     | None => []
     end) ++
    flat_map (fun so =>
                let sp := parts (fst so) in
                if sec_match lp sp
                then [(length sp, mkLS (fst so) (snd so) (extra_of lp sp) (url_basename location))]
                else [])
             (st_named st).

  (* Python str < str : lexicographic by code point *)
  Fixpoint str_ltb (a b : str) : bool :=
    match a, b with
    | _, [] => false
    | [], _ :: _ => true
    | x :: a', y :: b' => (x <? y) || ((x =? y) && str_ltb a' b')
    end.

  (* key=lambda match: (match[0], match[1].id) *)
  Definition key_ltb (a b : nat * lsection) : bool :=
    (fst a <? fst b)%nat || ((fst a =? fst b)%nat && str_ltb (ls_id (snd a)) (ls_id (snd b))).

  (* sorted(..., reverse=True): descending, equal keys keep their input order *)
  Fixpoint insert_desc (x : nat * lsection) (l : list (nat * lsection)) : list (nat * lsection) :=
    match l with
    | [] => [x]
    | y :: l' => if key_ltb x y then y :: insert_desc x l' else x :: l
    end.
  Definition sort_desc (l : list (nat * lsection)) : list (nat * lsection) :=
    fold_right insert_desc [] l.

  (* ignore = section.get("ignore_parents"); if ignore is not None: bool_from_string *)
  Definition ignores (ls : lsection) : bool :=
    match ls_get ls (lit "ignore_parents") with
    | Some v => match bool_from_string v with Some true => true | _ => false end
    | None => false
    end.

  (* for _, section in sections: if ignore: break; yield section *)
  Fixpoint take_visible (l : list lsection) : list lsection :=
    match l with
    | [] => []
    | s :: l' => if ignores s then [] else s :: take_visible l'
    end.

  Definition sorted_sections (st : store) (location : str) : list lsection :=
    map snd (sort_desc (get_matching_sections st location)).
  Definition get_sections (st : store) (location : str) : list lsection :=
    take_visible (sorted_sections st location).

  Fixpoint first_some {A B} (f : A -> option B) (l : list A) : option B :=
    match l with
    | [] => None
    | x :: l' => match f x with Some v => Some v | None => first_some f l' end
    end.

  (* the location part of Stack.get: first section whose get(name) is not None *)
  Definition resolve_loc (st : store) (location name : str) : option str :=
    first_some (fun s => ls_get s name) (get_sections st location).

  (* ---- value side ------------------------------------------------------------------ *)
  (* ConfigObj._unquote: one matching quote character on each side (skipped for the
     empty string).  This alone was IniFileStore.unquote before /repo 4293772. *)
  Definition unquote_old (v : str) : str :=
    match v with
    | [] => []
    | c :: _ => if (c =? last v 0) && ((c =? 34) || (c =? 39)) then removelast (tl v) else v
    end.

  (* value[3:-3] *)
  Definition strip3 (v : str) : str := rev (skipn 3 (rev (skipn 3 v))).
  Definition triple_wrapped (q3 v : str) : bool := prefixb q3 v && suffixb q3 v.

  (* IniFileStore.unquote (since 4293772):
       for triple in (3 double quotes, 3 single quotes):
           if len(value) >= 6 and value.startswith(triple) and value.endswith(triple):
               return value[3:-3]
       value = self._config_obj._unquote(value)                                      *)
  Definition unquote (v : str) : str :=
    if (6 <=? length v)%nat && (triple_wrapped q3d v || triple_wrapped q3s v)
    then strip3 v else unquote_old v.

  (* Stack.get(name, expand=False) of an unregistered option in a LocationStack:
     location sections, then the DEFAULT section of breezy.conf ([glob]), then unquote *)
  Definition stack_get (st : store) (location : str) (glob : option str) (name : str) : option str :=
    match (match resolve_loc st location name with Some v => Some v | None => glob end) with
    | Some v => Some (unquote v)
    | None => None
    end.

  (* registered Option(name, default=..., from_unicode=bool_from_store): unquote,
     convert; an invalid value gives None and then the registered default is used
     (NOT the next, less specific section) *)
  Definition stack_get_bool (st : store) (location : str) (glob : option str) (name : str)
             (default : option str) : option bool :=
    let dflt := match default with Some d => bool_from_string d | None => None end in
    match (match resolve_loc st location name with Some v => Some v | None => glob end) with
    | Some v => match bool_from_string (unquote v) with Some b => Some b | None => dflt end
    | None => dflt
    end.
End Env.

(* ---- ConfigObj._quote(value) with list_values=True, multiline=True (environment) ---- *)

Definition need_triple (v : str) : bool := (memb cSQ v && memb cDQ v) || memb cNL v.

Definition cobj_quote (v : str) : option str :=
  match v with
  | [] => Some [cDQ; cDQ]
  | c :: _ =>
      if need_triple v then
        if containsb q3d v && containsb q3s v then None        (* ConfigObjError *)
        else if containsb q3d v then Some (q3s ++ v ++ q3s) else Some (q3d ++ v ++ q3d)
      else
        let q := if memb cDQ v then cSQ else cDQ in
        if negb (memb c wspace_plus) && negb (memb (last v 0) wspace_plus)
           && negb (memb 44 v) && negb (memb 35 v)
        then Some v
        else Some (q :: v ++ [q])
  end.

(* Stack.set(name, v): options[name] = store.quote(v) -- the raw text now in the section *)
Definition mem_raw (v : str) : option str := cobj_quote v.

(* Stack.set(name, v) then Stack.get(name) on the same stack, nothing saved
   (for a value without section-local references): get -> unquote *)
Definition set_get_mem (v : str) : option str :=
  match mem_raw v with Some r => Some (unquote r) | None => None end.

(* the same with the unquote of before 4293772 (kept for the statement about the OLD code) *)
Definition set_get_mem_old (v : str) : option str :=
  match mem_raw v with Some r => Some (unquote_old r) | None => None end.

(* Stack.set, store.save(), and what a FRESH store parses as the raw text.
   ConfigObj.write quotes the stored string again (list_values=False: only when it
   needs triple quotes AND has a newline or '#'), and the parser unwraps a
   triple-quoted value itself: a single-line triple-quoted text comes back bare. *)
Inductive sres := SErrSet | SErrSave | SOk (v : str).
Definition file_raw (v : str) : sres :=
  match cobj_quote v with
  | None => SErrSet
  | Some r =>
      if need_triple v then
        if memb cNL v || memb 35 v then
          (if containsb q3d r && containsb q3s r then SErrSave else SOk r)
        else SOk v
      else SOk r
  end.
Definition set_save_get (v : str) : sres :=
  match file_raw v with SOk r => SOk (unquote r) | e => e end.

(* the values still damaged by save + reload: a single-line value with both kinds
   of quote and no '#' is written in triple quotes which ConfigObj's parser removes
   itself; if the bare value starts and ends with the same quote character,
   unquote then removes one more pair *)
Definition quote_residue (v : str) : bool :=
  need_triple v && negb (memb cNL v) && negb (memb 35 v) &&
  (hd 0 v =? last v 0) && ((hd 0 v =? 34) || (hd 0 v =? 39)).

(* the values for which the ConfigObj file layer is modelled: no line separator
   other than LF, no control character other than TAB/LF, no non-ASCII white space *)
Definition unicode_ws : list N :=
  [133; 160; 5760; 8192; 8193; 8194; 8195; 8196; 8197; 8198; 8199; 8200; 8201; 8202;
   8232; 8233; 8239; 8287; 12288].
Definition safe_char (c : N) : bool :=
  (c =? 9) || (c =? 10) || ((32 <=? c) && negb (c =? 127) && negb (memb c unicode_ws)).
Definition value_safe (v : str) : bool := forallb safe_char v.

(* ---- the environment functions for plain paths (validated by the run) ------------- *)
(* urlutils.join(base, rel) for plain paths (no scheme, no '.'/'..' segment in rel,
   base not ending in '/'): an absolute rel replaces base, else base + "/" + rel *)
Definition simple_join (base rel : str) : str :=
  match rel with
  | c :: _ => if c =? cSL then rel else base ++ [cSL] ++ rel
  | [] => base ++ [cSL]
  end.
(* urlutils.basename(p): strip ONE trailing '/', then the text after the last '/' *)
Definition simple_basename (p : str) : str :=
  let p' := match rev p with c :: r => if c =? cSL then rev r else p | [] => [] end in
  last (split1 cSL p') [].

(* ---- observations ------------------------------------------------------------------- *)
Definition utf8_char (c : N) : list N :=
  if c <? 128 then [c]
  else if c <? 2048 then [192 + c / 64; 128 + c mod 64]
  else if c <? 65536 then [224 + c / 4096; 128 + (c / 64) mod 64; 128 + c mod 64]
  else [240 + c / 262144; 128 + (c / 4096) mod 64; 128 + (c / 64) mod 64; 128 + c mod 64].
Definition ostr (s : str) : obs := OB (flat_map utf8_char s).

Definition mk_store (nn : option options) (named : list (str * options)) : store :=
  mkStore nn named.

(* kind "fn": fnmatch.fnmatch(name, pat) *)
Definition run_fn (name pat : str) : obs := obool (fnmatch name pat).

(* kind "iter": _iter_for_location_by_parts(sections, location) *)
Definition run_iter (sections : list str) (location : str) : obs :=
  olist (fun t => OL [ostr (fst (fst t)); ostr (snd (fst t)); onat (snd t)])
        (iter_for_location_by_parts sections location).

(* kind "loc": [(id, extra_path) of LocationMatcher.get_sections()] and
   LocationStack(location).get(name, expand=False) *)
Definition run_loc (nn : option options) (named : list (str * options)) (location : str)
           (glob : option str) (name : str) : obs :=
  let st := mk_store nn named in
  OL [olist (fun s => OL [ostr (ls_id s); ostr (ls_extra s)])
            (get_sections simple_join simple_basename st location);
      oopt ostr (stack_get simple_join simple_basename st location glob name)].

(* kind "bool": a registered boolean option *)
Definition run_bool (nn : option options) (named : list (str * options)) (location : str)
           (glob : option str) (name : str) (default : option str) : obs :=
  oopt obool (stack_get_bool simple_join simple_basename (mk_store nn named) location glob name default).

(* kind "value": [set+get in memory ; set+save+fresh get] at location /v/loc, whose
   own section has extra_path "" and branch name "loc": LocationSection.get expands
   the three local references in the stored text before Stack.get unquotes it *)
Definition value_post (r : str) : str :=
  unquote (expand_aux [(lit "{relpath}", []); (lit "{basename}", simple_basename []);
                       (lit "{branchname}", lit "loc")] 0 r).
Definition run_value (v : str) : obs :=
  OL [match mem_raw v with Some r => ostr (value_post r) | None => OE "ConfigObjError" end;
      if value_safe v then
        match file_raw v with
        | SErrSet => OE "ConfigObjError"
        | SErrSave => OE "ConfigObjError"
        | SOk r => ostr (value_post r)
        end
      else OT "unmodelled"].

(* kind "selfloc": LocationStack(loc).set(name, "x"); get in memory (the section
   named [loc] must match the location [loc] through fnmatch) *)
Definition run_selfloc (location name : str) : obs :=
  oopt ostr (stack_get simple_join simple_basename
               (mk_store None [(location, [(name, lit "x")])]) location None name).

(* ---- StartingPathMatcher (used by no stack in breezy; kept for completeness) -------- *)
(* get_sections: the store's sections in REVERSED file order; a named section is
   kept when location.startswith(id) or fnmatch(location, id) -- on the whole
   strings, not per segment; extra_path = the location parts beyond the number
   of parts of the id; the no-name section is always kept, extra_path = location *)
Definition spm_sections (st : store) (location : str) : list (str * str) :=
  flat_map (fun so : str * options =>
              if prefixb (fst so) location || fnmatch location (fst so)
              then [(fst so, join [cSL] (skipn (length (parts (fst so))) (parts location)))]
              else [])
           (rev (st_named st))
  ++ match st_noname st with Some _ => [([], location)] | None => [] end.

Definition run_spm (nn : option options) (named : list (str * options)) (location : str) : obs :=
  olist (fun p => OL [ostr (fst p); ostr (snd p)]) (spm_sections (mk_store nn named) location).
