(* Model/Rebase.v -- hand model of the plan generation of
   breezy/plugins/rewrite/rebase.py (generate_simple_plan, rebase_todo) on the
   shared revision graphs of Lib/Dag.v.  Definitions only (Theory/Rebase.v).

   Revisions are [nat]; "null:" is not a node (a root has no parents; breezy's
   parent map gives it the parent tuple (b"null:",)).  A replace map
   {old: (new, new_parents)} is a Python dict = association list in insertion
   order (Lib/PyDict.v).

   Environment (code outside /repo, validated by the correspondence run):
     graph.get_parent_map(todo_set)  = the present members with [parents g]
     topo_sort(parent_map)           = SOME topological order of those: the
                                       parameter [order] (Lib/DagTopo.v
                                       [topo_order_of] is the hypothesis)
     FrozenHeadsCache(graph).heads   = [heads g]  (null: never wins)
     graph.find_lca(a, b) == {null:} = [lca_is_null g a b]
     repository.has_revision         = a predicate [has]
     generate_revid                  = the parameter [gen] *)
From Coq Require Import String List Arith Bool.
From BV Require Import Lib.Obs Lib.Dag Lib.DagTopo Lib.PyDict.
Import ListNotations.

Inductive err := AssertionError | IndexError | ValueError | UnrelatedBranches.
Inductive result (A : Type) := Ok (a : A) | Err (e : err).
Arguments Ok {A}. Arguments Err {A}.

Definition rmap := dict revid (revid * list revid).
Definition rm_get (m : rmap) (k : revid) := dict_get Nat.eqb m k.
Definition rm_set (m : rmap) (k : revid) (v : revid * list revid) := dict_set Nat.eqb m k v.

(* skipped: merges dropped because of skip_full_merged -> the revision that
   takes their place (their only new parent) *)
Definition skmap := dict revid revid.
Definition sk_get (sk : skmap) (k : revid) := dict_get Nat.eqb sk k.
Definition sk_set (sk : skmap) (k v : revid) : skmap := dict_set Nat.eqb sk k v.

(* def rewritten(revid): replace_map[revid][0] if revid in replace_map else skipped.get(revid) *)
Definition rewritten (m : rmap) (sk : skmap) (r : revid) : option revid :=
  match rm_get m r with
  | Some (n, _) => Some n
  | None => sk_get sk r
  end.

(* ---- environment: graph queries ---------------------------------------- *)

(* heads_cache.heads((p, onto)) == {onto} *)
Definition heads_is_onto (g : dag) (p onto : revid) : bool :=
  set_eqb (heads g [p; onto]) [onto].

(* r has a root (a revision whose parent is null:) in its ancestry *)
Definition has_root (g : dag) (r : revid) : bool :=
  existsb (fun a => present g a && match parents g a with [] => true | _ => false end)
          (ancestors g [r]).
Definition common (g : dag) (a b : revid) : bool :=
  existsb (fun x => memb x (ancestors g [b])) (ancestors g [a]).
(* graph.find_lca(a, b) == {NULL_REVISION}: null: is a common ancestor and
   nothing else is *)
Definition lca_is_null (g : dag) (a b : revid) : bool :=
  negb (common g a b) && has_root g a && has_root g b.

(* graph.find_difference(a, b): (ancestry of a minus b's, ancestry of b minus a's) *)
Definition find_difference (g : dag) (a b : revid) : list revid * list revid :=
  (find_unique_ancestors g a [b], find_unique_ancestors g b [a]).

Section Plan.
Variable g : dag.
Variable gen : revid -> list revid -> revid.     (* generate_revid(oldrevid, parents) *)

(* "# Left parent:" *)
Definition left_parents (m : rmap) (sk : skmap) (onto : revid) (oldparents : list revid) : list revid :=
  match oldparents with
  | [] => [onto]                       (* (null:,): heads((null:, onto)) == {onto} *)
  | p0 :: _ =>
      if heads_is_onto g p0 onto then [onto]
      else match rewritten m sk p0 with
           | Some n => [n]
           | None => [onto; p0]
           end
  end.

(* parents[0] = x on a non-empty list *)
Definition set_first (x : revid) (l : list revid) : list revid :=
  match l with [] => [] | _ :: t => x :: t end.
Definition first_is (x : revid) (l : list revid) : bool :=
  match l with [] => false | y :: _ => y =? x end.

(* "# Other parents:"  the loop  for oldparent in oldparents[1:] *)
Fixpoint other_parents (m : rmap) (sk : skmap) (onto : revid) (additional others acc : list revid)
  : list revid :=
  match others with
  | [] => acc
  | op :: rest =>
      let acc' :=
        if memb op additional then
          if heads_is_onto g op onto then acc
          else match rewritten m sk op with
               | Some n =>
                   (* what replaces a dropped merge is there already *)
                   if (n =? onto) || memb n acc then acc
                   else if first_is onto acc then set_first n acc else acc ++ [n]
               | None => acc ++ [op]
               end
        else acc in
      other_parents m sk onto additional rest acc'
  end.

Definition new_parents (m : rmap) (sk : skmap) (onto : revid) (oldparents : list revid) : list revid :=
  let ps0 := left_parents m sk onto oldparents in
  match oldparents with
  | _ :: ((_ :: _) as others) => other_parents m sk onto (heads g others) others ps0
  | _ => ps0
  end.

(* one trip round  for oldrevid in todo *)
Definition plan_step (onto : revid) (skip : bool) (st : rmap * skmap) (old : revid)
  : result (rmap * skmap) :=
  let oldparents := parents g old in
  let ps := new_parents (fst st) (snd st) onto oldparents in
  if (1 <? length oldparents) && (length ps =? 1) && skip
  then Ok (fst st, sk_set (snd st) old (hd onto ps))      (* skipped[oldrevid] = parents[0]; continue *)
  else let n := gen old ps in
       if n =? old then Err AssertionError
       else Ok (rm_set (fst st) old (n, ps), snd st).

Fixpoint plan_loop (onto : revid) (skip : bool) (todo : list revid) (st : rmap * skmap)
  : result (rmap * skmap) :=
  match todo with
  | [] => Ok st
  | old :: rest =>
      match plan_step onto skip st old with
      | Ok st' => plan_loop onto skip rest st'
      | Err e => Err e
      end
  end.

Definition bind {A B} (r : result A) (f : A -> result B) : result B :=
  match r with Ok a => f a | Err e => Err e end.

Definition opt_or {A} (o : option A) (e : err) : result A :=
  match o with Some a => Ok a | None => Err e end.

(* the slice order[order.index(start) : order.index(stop) + 1] *)
Definition todo_slice (order : list revid) (start stop : revid) : result (list revid) :=
  bind (opt_or (index_of start order) ValueError) (fun i =>
  bind (opt_or (index_of stop order) ValueError) (fun j =>
  Ok (slice order i (j + 1)))).

(* generate_simple_plan(todo_set, start_revid, stop_revid, onto_revid, graph,
                        generate_revid, skip_full_merged)
   [order] = topo_sort(graph.get_parent_map(todo_set)) *)
Definition simple_plan (todo_set order : list revid) (start stop : option revid)
                       (onto : revid) (skip : bool) : result rmap :=
  if match start with Some s => negb (memb s todo_set) | None => false end then Err AssertionError else
  if match stop with Some s => negb (memb s todo_set) | None => false end then Err AssertionError else
  bind (match stop with Some s => Ok s | None => opt_or (last_opt order) IndexError end) (fun stop' =>
  bind (match start with
        | Some s => Ok s
        | None => if lca_is_null g stop' onto then Err UnrelatedBranches
                  else opt_or (hd_error order) IndexError
        end) (fun start' =>
  bind (todo_slice order start' stop') (fun todo =>
  bind (plan_loop onto skip todo ([], [])) (fun st => Ok (fst st))))).

End Plan.

(* rebase_todo(repository, replace_map): the old revisions whose rewritten
   revision is not in the repository yet, in plan order *)
Definition rebase_todo (has : revid -> bool) (m : rmap) : list revid :=
  flat_map (fun e => if has (fst (snd e)) then [] else [fst e]) m.

(* ---- rebase(): the replay order (since 7ede022) ---------------------------------

   new_to_old = {newrevid: oldrevid for oldrevid, (newrevid, _) in replace_map.items()}
   (a dict comprehension: for equal new ids the LAST entry wins) *)
Fixpoint new_to_old (m : rmap) (p : revid) : option revid :=
  match m with
  | [] => None
  | e :: m' => match new_to_old m' p with
               | Some o => Some o
               | None => if p =? fst (snd e) then Some (fst e) else None
               end
  end.

(* dependencies[oldrevid] = tuple(oldparents) + tuple(new_to_old[p] for p in newparents if p in new_to_old)
   (a key of a plan is a present revision; a root's (null:,) is no key) *)
Definition plan_deps (g : dag) (m : rmap) (old : revid) : list revid :=
  match rm_get m old with
  | Some (_, ps) =>
      parents g old ++ flat_map (fun p => match new_to_old m p with Some o => [o] | None => [] end) ps
  | None => []
  end.

(* todo = topo_sort(dependencies) (compiled, vcsgraph): SOME list without
   duplicates in which no key is followed by one of its dependencies *)
Fixpoint dep_sortedb (dep : revid -> list revid) (l : list revid) : bool :=
  match l with
  | [] => true
  | r :: l' => negb (memb r l') && forallb (fun d => negb (memb d l')) (dep r) && dep_sortedb dep l'
  end.

(* ---- correspondence entry points ---------------------------------------- *)

Definition NEW := 100.                       (* canonical new id of old revision r: NEW + r *)
(* the harness renames the (random) ids that regenerate_default_revid draws to
   NEW + old; [same] = an old revision for which the test's generate_revid
   returns the old id itself (the AssertionError branch) *)
Definition gen_canon (same : option revid) (r : revid) (_ : list revid) : revid :=
  match same with
  | Some s => if s =? r then r else NEW + r
  | None => NEW + r
  end.

Definition oerr (e : err) : obs :=
  OE (match e with
      | AssertionError => "AssertionError" | IndexError => "IndexError"
      | ValueError => "ValueError" | UnrelatedBranches => "UnrelatedBranches"
      end)%string.
Definition oentry (e : revid * (revid * list revid)) : obs :=
  OL [onat (fst e); onat (fst (snd e)); olist onat (snd (snd e))].
Definition oplan (r : result rmap) : obs :=
  match r with Ok m => olist oentry m | Err e => oerr e end.

(* insertion sort, to print sets *)
Fixpoint insert_rev (x : revid) (l : list revid) : list revid :=
  match l with
  | [] => [x]
  | y :: l' => if x <=? y then x :: l else y :: insert_rev x l'
  end.
Definition sort_revs (l : list revid) : list revid := fold_right insert_rev [] l.

Definition run_plan (g : dag) (todo_set order : list revid) (start stop : option revid)
                    (onto : revid) (skip : bool) (same : option revid) : obs :=
  let r := simple_plan g (gen_canon same) todo_set order start stop onto skip in
  OL [oplan r;
      match r with Ok m => olist onat (rebase_todo (present g) m) | Err _ => ON end].

(* the command's call: todo_set = find_difference(stop, onto)[0] *)
Definition run_plan_cmd (g : dag) (order : list revid) (start : option revid) (stop : revid)
                        (onto : revid) (skip : bool) (same : option revid) : obs :=
  let todo_set := fst (find_difference g stop onto) in
  OL [olist onat (sort_revs todo_set);
      run_plan g todo_set order start (Some stop) onto skip same].

Definition run_env (g : dag) (a b : revid) (keys : list revid) : obs :=
  OL [olist onat (sort_revs (fst (find_difference g a b)));
      olist onat (sort_revs (snd (find_difference g a b)));
      OL [obool (has_root g a && negb (has_root g b)); obool (has_root g b && negb (has_root g a))];
      obool (lca_is_null g a b);
      olist onat (sort_revs (heads g keys));
      obool (heads_is_onto g a b)].

Definition run_todo (g : dag) (m : rmap) : obs := olist onat (rebase_todo (present g) m).
