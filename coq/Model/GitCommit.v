(* Model/GitCommit.v -- hand model (C34) of
     breezy/git/mapping.py : fix_person_identifier, BzrGitMapping.import_commit,
                             BzrGitMapping.export_commit (mapping = BzrGitMappingv1, the
                             registered default; strict=True; lossy=True, which is what
                             object_store passes because mapping.roundtripping is False),
                             revision_id_foreign_to_bzr / revision_id_bzr_to_foreign
     and of the environment they run in:
     dulwich.objects.Commit (a record of byte fields) and Commit._serialize /
     format_time_entry / format_timezone / _format_message (the canonical serialisation),
     Python str.removesuffix/str.split, bytes.decode / str.encode for UTF-8 and Latin-1.

   Representation of Python [str]: a str is represented by the byte string
   s.encode("utf-8", "surrogateescape").  On that representation
     - b.decode("utf-8")  is  "b if b is valid UTF-8, else UnicodeDecodeError",
     - b.decode("utf-8", "surrogateescape") is the identity (PEP 383),
     - b.decode("latin-1") is the UTF-8 encoding of the code points 0..255,
   and ASCII characters of the str are exactly the ASCII bytes of the representation.
   Other codecs are not modelled: the model answers [Unmodelled] (C34 is `partial' there;
   the correspondence run still checks the real round trip for them).
   No proofs in this file. *)
From Coq Require Import ZArith NArith List Bool String Ascii.
From BV Require Import Lib.Bytes Lib.Obs.
Import ListNotations.
Open Scope N_scope.

Definition bs (s : string) : bytes := map N_of_ascii (list_ascii_of_string s).
Definition text := bytes.

(* ---------- results ---------- *)
Inductive res (A : Type) : Type :=
| Ok (a : A)
| Err (e : string)        (* the Python exception class that escapes *)
| Unmodelled.             (* a codec other than UTF-8 / Latin-1 was needed *)
Arguments Ok {A}. Arguments Err {A}. Arguments Unmodelled {A}.

Definition bind {A B} (r : res A) (f : A -> res B) : res B :=
  match r with Ok a => f a | Err e => Err e | Unmodelled => Unmodelled end.

(* ---------- the dulwich Commit object ---------- *)
Record commit := {
  c_tree : bytes;
  c_parents : list bytes;
  c_author : bytes;  c_author_time : Z;  c_author_tz : Z;  c_author_neg : bool;
  c_committer : bytes;  c_commit_time : Z;  c_commit_tz : Z;  c_commit_neg : bool;
  c_encoding : option bytes;
  c_mergetag : list bytes;            (* Tag.as_raw_string() of each merge tag *)
  c_extra : list (bytes * bytes);
  c_gpgsig : option bytes;
  c_message : option bytes }.

(* ---------- decimal printing (Python str(int), %d) ---------- *)
Fixpoint uint_bytes (u : Decimal.uint) : bytes :=
  match u with
  | Decimal.Nil => []
  | Decimal.D0 u => 48 :: uint_bytes u | Decimal.D1 u => 49 :: uint_bytes u
  | Decimal.D2 u => 50 :: uint_bytes u | Decimal.D3 u => 51 :: uint_bytes u
  | Decimal.D4 u => 52 :: uint_bytes u | Decimal.D5 u => 53 :: uint_bytes u
  | Decimal.D6 u => 54 :: uint_bytes u | Decimal.D7 u => 55 :: uint_bytes u
  | Decimal.D8 u => 56 :: uint_bytes u | Decimal.D9 u => 57 :: uint_bytes u
  end.
Definition dec_N (n : N) : bytes := uint_bytes (N.to_uint n).
Definition dec_Z (z : Z) : bytes :=
  match z with
  | Z0 => [48]
  | Zpos p => dec_N (Npos p)
  | Zneg p => 45 :: dec_N (Npos p)
  end.
(* "%02d" % v *)
Definition pad2 (v : Z) : bytes :=
  if (v <? 0)%Z then dec_Z v
  else if (v <? 10)%Z then 48 :: dec_Z v else dec_Z v.

(* dulwich format_timezone(offset, unnecessary_negative_timezone); None = ValueError *)
Definition format_timezone (offset : Z) (neg : bool) : option bytes :=
  if negb (offset mod 60 =? 0)%Z then None
  else
    let '(sign, off) := if (offset <? 0)%Z || neg then (45, (- offset)%Z) else (43, offset) in
    Some (sign :: pad2 (Z.quot off 3600) ++ pad2 ((off / 60) mod 60)%Z).

Definition SP : N := 32.
Definition NL : N := 10.

(* _format_message: a header value is split at "\n"; continuation lines get a leading space *)
Definition indent (v : bytes) : bytes :=
  flat_map (fun b => if b =? NL then [NL; SP] else [b]) v.
Definition hdr (field value : bytes) : bytes := field ++ SP :: indent value ++ [NL].

Definition truthy (o : option bytes) : option bytes :=
  match o with Some ((_ :: _) as b) => Some b | _ => None end.

(* format_time_entry *)
Definition time_entry (person : bytes) (t tz : Z) (neg : bool) : option bytes :=
  match format_timezone tz neg with
  | Some z => Some (person ++ SP :: dec_Z t ++ SP :: z)
  | None => None
  end.

(* Commit._serialize + _format_message; None = ValueError("Unable to handle non-minute offset.") *)
Definition serialise (c : commit) : option bytes :=
  match time_entry (c_author c) (c_author_time c) (c_author_tz c) (c_author_neg c),
        time_entry (c_committer c) (c_commit_time c) (c_commit_tz c) (c_commit_neg c) with
  | Some a, Some cm =>
      Some (hdr (bs "tree") (c_tree c)
            ++ flat_map (hdr (bs "parent")) (c_parents c)
            ++ hdr (bs "author") a
            ++ hdr (bs "committer") cm
            ++ match truthy (c_encoding c) with Some e => hdr (bs "encoding") e | None => [] end
            ++ flat_map (fun t => hdr (bs "mergetag") (removelast t)) (c_mergetag c)
            ++ flat_map (fun kv => hdr (fst kv) (snd kv)) (c_extra c)
            ++ match truthy (c_gpgsig c) with Some g => hdr (bs "gpgsig") g | None => [] end
            ++ [NL]
            ++ match truthy (c_message c) with Some m => m | None => [] end)
  | _, _ => None
  end.

(* ---------- text codecs on the representation ---------- *)
Inductive codec := CUtf8 | CLatin1 | COther | CUnknown.

Definition inr (lo hi b : N) : bool := (lo <=? b) && (b <=? hi).
Definition cont (b : N) : bool := inr 128 191 b.

(* CPython's strict UTF-8 decoder accepts exactly the well-formed sequences of
   Unicode Table 3-7 (no overlongs, no surrogates, nothing above U+10FFFF) *)
Fixpoint valid_utf8 (s : bytes) : bool :=
  match s with
  | [] => true
  | b0 :: r0 =>
      if b0 <? 128 then valid_utf8 r0
      else if inr 194 223 b0 then
        match r0 with b1 :: r1 => cont b1 && valid_utf8 r1 | _ => false end
      else if inr 224 239 b0 then
        match r0 with
        | b1 :: b2 :: r2 =>
            (if b0 =? 224 then inr 160 191 b1 else if b0 =? 237 then inr 128 159 b1 else cont b1)
            && cont b2 && valid_utf8 r2
        | _ => false
        end
      else if inr 240 244 b0 then
        match r0 with
        | b1 :: b2 :: b3 :: r3 =>
            (if b0 =? 240 then inr 144 191 b1 else if b0 =? 244 then inr 128 143 b1 else cont b1)
            && cont b2 && cont b3 && valid_utf8 r3
        | _ => false
        end
      else false
  end.

Fixpoint latin1_dec (s : bytes) : text :=
  match s with
  | [] => []
  | b :: r => if b <? 128 then b :: latin1_dec r
              else (192 + b / 64) :: (128 + b mod 64) :: latin1_dec r
  end.

Fixpoint latin1_enc (t : text) : option bytes :=
  match t with
  | [] => Some []
  | b :: r =>
      if b <? 128 then option_map (cons b) (latin1_enc r)
      else match r with
           | c :: r' =>
               if ((b =? 194) || (b =? 195)) && cont c
               then option_map (cons ((b - 192) * 64 + (c - 128))) (latin1_enc r')
               else None
           | [] => None
           end
  end.

(* bytes.decode(encoding) *)
Definition decode (cd : codec) (b : bytes) : res text :=
  match cd with
  | CUtf8 => if valid_utf8 b then Ok b else Err "UnicodeDecodeError"
  | CLatin1 => Ok (latin1_dec b)
  | COther => Unmodelled
  | CUnknown =>
      (* CPython returns "" for empty bytes without looking the codec up *)
      match b with [] => Ok [] | _ => Err "LookupError" end
  end.
(* str.encode(encoding) *)
Definition encode (cd : codec) (t : text) : res bytes :=
  match cd with
  | CUtf8 => if valid_utf8 t then Ok t else Err "UnicodeEncodeError"
  | CLatin1 => match latin1_enc t with Some b => Ok b | None => Err "UnicodeEncodeError" end
  | COther => Unmodelled
  | CUnknown => Err "LookupError"
  end.

Definition is_ascii (b : bytes) : bool := forallb (fun x => x <? 128) b.

(* Python's codec registry: the two names the mapping uses literally are fixed,
   everything else is the environment [env] *)
Definition lookup (env : bytes -> codec) (name : bytes) : codec :=
  if bytes_eqb name (bs "utf-8") then CUtf8
  else if bytes_eqb name (bs "latin1") then CLatin1
  else env name.

(* ---------- small Python string operations ---------- *)
(* s.split(c, 1) at the first occurrence: None when c does not occur *)
Fixpoint break_at (c : N) (s : bytes) : option (bytes * bytes) :=
  match s with
  | [] => None
  | b :: r => if b =? c then Some ([], r)
              else match break_at c r with
                   | Some (a, t) => Some (b :: a, t)
                   | None => None
                   end
  end.

(* s.rindex(c): None = ValueError *)
Fixpoint rindex (c : N) (s : bytes) : option nat :=
  match s with
  | [] => None
  | b :: r => match rindex c r with
              | Some i => Some (S i)
              | None => if b =? c then Some O else None
              end
  end.

Definition count (c : N) (s : bytes) : nat := List.length (filter (N.eqb c) s).

Definition strip_last_space (u : bytes) : bytes :=
  match rev u with
  | b :: r => if b =? SP then rev r else u
  | [] => u
  end.

Definition LT : N := 60.
Definition GT : N := 62.
Definition COMMA : N := 44.

(* mapping.py fix_person_identifier *)
Definition fix_person (t : bytes) : res bytes :=
  if negb (memb LT t) && negb (memb GT t) then Ok (t ++ bs " <" ++ t ++ [GT])
  else if negb (memb GT t) then Ok (t ++ [GT])
  else
    match rindex GT t, rindex LT t with
    | Some g, Some l =>
        if Nat.ltb g l then Err "ValueError"
        else
          (* username, email = text.split(b"<", 2)[-2:] *)
          match break_at LT t with
          | None => Err "ValueError"
          | Some (p0, r0) =>
              let '(username, email) :=
                match break_at LT r0 with
                | None => (p0, r0)
                | Some (p1, r1) => (p1, r1)
                end in
              let email := match break_at GT email with Some (a, _) => a | None => email end in
              Ok (strip_last_space username ++ bs " <" ++ email ++ [GT])
          end
    | _, _ => Err "ValueError"          (* rindex: subsection not found *)
    end.

(* props["git-extra"].removesuffix("\n").split("\n") on the representation
   (since e6f8bec; before that the code used str.splitlines()) *)
Definition remove_suffix_nl (t : text) : text :=
  match rev t with
  | b :: r => if b =? NL then rev r else t
  | [] => t
  end.
Definition extra_lines (t : text) : list text := split1 NL (remove_suffix_nl t).

(* ---------- the Bazaar revision ---------- *)
Record props := {
  p_explicit_enc : option text;     (* git-explicit-encoding *)
  p_implicit_enc : option text;     (* git-implicit-encoding *)
  p_author : option text;           (* author *)
  p_author_ts : option Z;           (* author-timestamp  = str(int) *)
  p_author_tz : option Z;           (* author-timezone   = "%d" % int *)
  p_author_neg : bool;              (* author-timezone-neg-utc present *)
  p_commit_neg : bool;              (* commit-timezone-neg-utc present *)
  p_gpgsig : option text;           (* git-gpg-signature *)
  p_mergetags : list text;          (* git-mergetag-0, git-mergetag-1, ... *)
  p_extra : option text;            (* git-extra *)
  p_missing_msg : bool }.           (* git-missing-message present *)

Record revision := {
  r_committer : text;
  r_timestamp : Z;
  r_timezone : Z;
  r_message : text;
  r_parents : list bytes;
  r_props : props }.

(* ---------- revision ids ---------- *)
Definition ZERO_SHA : bytes := repeat 48 40.
Definition NULL_REVISION : bytes := bs "null:".
Definition REVID_PREFIX : bytes := bs "git-v1".

(* BzrGitMapping.revision_id_foreign_to_bzr *)
Definition revid_foreign_to_bzr (sha : bytes) : bytes :=
  if bytes_eqb sha ZERO_SHA then NULL_REVISION else REVID_PREFIX ++ 58 :: sha.

Fixpoint drop_prefix (p s : bytes) : option bytes :=
  match p, s with
  | [], _ => Some s
  | x :: p', y :: s' => if x =? y then drop_prefix p' s' else None
  | _ :: _, [] => None
  end.

(* object_store._lookup_revision_sha1 with an empty id map:
   NULL_REVISION -> ZERO_SHA, else mapping_registry.parse_revision_id(revid)[0]
   (only the registered default mapping git-v1 is modelled) *)
Definition parent_lookup (revid : bytes) : res bytes :=
  if bytes_eqb revid NULL_REVISION then Ok ZERO_SHA
  else match drop_prefix (REVID_PREFIX ++ [58]) revid with
       | Some sha => Ok sha
       | None => Err "InvalidRevisionId"
       end.

(* ---------- import_commit ---------- *)
Definition HG_RENAME_SOURCE := bs "HG:rename-source".
Definition HG_EXTRA := bs "HG:extra".
Definition hg_known (k : bytes) : bool :=
  existsb (bytes_eqb k)
    [bs "amend_source"; bs "rebase_source"; bs "absorb_source"; bs "intermediate-source";
     bs "source"; bs "topic"; bs "_rewrite_noise"].

Definition extra_line (k v : bytes) : text := k ++ SP :: v ++ [NL].

(* the loop over commit._extra: (git-extra text, any unknown field seen) *)
Fixpoint import_extra (ex : list (bytes * bytes)) : res (text * bool) :=
  match ex with
  | [] => Ok ([], false)
  | (k, v) :: r =>
      if bytes_eqb k HG_RENAME_SOURCE then
        bind (import_extra r) (fun lu => Ok (extra_line k v ++ fst lu, snd lu))
      else if bytes_eqb k HG_EXTRA then
        match break_at 58 v with
        | None => Err "ValueError"                       (* hgk, _hgv = v.split(b":", 1) *)
        | Some (hgk, _) =>
            if hg_known hgk
            then bind (import_extra r) (fun lu => Ok (extra_line k v ++ fst lu, snd lu))
            else Err "UnknownMercurialCommitExtra"
        end
      else bind (import_extra r) (fun lu => Ok (fst lu, true))
  end.

(* except LookupError as err: raise UnknownCommitEncoding(encoding) from err *)
Definition lookup_to_commit_encoding {A} (r : res A) : res A :=
  match r with
  | Err e => if String.eqb e "LookupError" then Err "UnknownCommitEncoding" else Err e
  | _ => r
  end.

(* decode_using_encoding: (committer, author property, message) *)
Definition decode_using (cd : codec) (c : commit) : res (text * option text * option text) :=
  bind (lookup_to_commit_encoding (decode cd (c_committer c))) (fun tc =>
  bind (if bytes_eqb (c_committer c) (c_author c) then Ok None
        else bind (lookup_to_commit_encoding (decode cd (c_author c)))
                  (fun a => Ok (Some a))) (fun ta =>
  (* _decode_commit_message is outside the try: a LookupError escapes as such *)
  bind (match c_message c with
        | None => Ok None
        | Some m => bind (decode cd m) (fun t => Ok (Some t))
        end) (fun tm =>
  Ok (tc, ta, tm)))).

Definition is_ude {A} (r : res A) : bool :=
  match r with Err e => String.eqb e "UnicodeDecodeError" | _ => false end.

(* for encoding in ("utf-8", "latin1"): try ... except UnicodeDecodeError: pass
   else: (git-implicit-encoding only when encoding != "utf-8"); break *)
Definition decode_implicit (c : commit)
  : res (text * option text * option text * option text) :=
  let r := decode_using CUtf8 c in
  if is_ude r then bind (decode_using CLatin1 c) (fun d => Ok (d, Some (bs "latin1")))
  else bind r (fun d => Ok (d, None)).

Definition opt_nonempty (o : option bytes) : option bytes := truthy o.

(* the text part of import_commit:
   (git-explicit-encoding, git-implicit-encoding, (committer, author property, message)) *)
Definition import_texts (env : bytes -> codec) (c : commit)
  : res (option text * option text * (text * option text * option text)) :=
  (* properties["git-explicit-encoding"] = commit.encoding.decode("ascii") *)
  bind (match c_encoding c with
        | Some e => if is_ascii e then Ok (Some e) else Err "UnicodeDecodeError"
        | None => Ok None
        end) (fun explicit =>
  bind (match c_encoding c with
        | Some e =>
            if bytes_eqb e (bs "false") then decode_implicit c
            else bind (decode_using (lookup env e) c) (fun d => Ok (d, None))
        | None => decode_implicit c
        end) (fun di => Ok (explicit, snd di, fst di))).

Definition import_commit (env : bytes -> codec) (c : commit) : res revision :=
  bind (import_texts env c) (fun eit =>
  let explicit := fst (fst eit) in
  let implicit := snd (fst eit) in
  let tc := fst (fst (snd eit)) in
  let ta := snd (fst (snd eit)) in
  let tm := snd (snd eit) in
  bind (import_extra (c_extra c)) (fun lu =>
  if snd lu then Err "UnknownCommitExtra"
  else
    (* commit.id needs the serialisation *)
    match serialise c with
    | None => Err "ValueError"
    | Some _ =>
      Ok {| r_committer := tc;
            r_timestamp := c_commit_time c;
            r_timezone := c_commit_tz c;
            r_message := match tm with Some m => m | None => [] end;
            r_parents := map revid_foreign_to_bzr (c_parents c);
            r_props :=
              {| p_explicit_enc := explicit;
                 p_implicit_enc := implicit;
                 p_author := ta;
                 p_author_ts := if (c_commit_time c =? c_author_time c)%Z then None
                                else Some (c_author_time c);
                 p_author_tz := if (c_commit_tz c =? c_author_tz c)%Z then None
                                else Some (c_author_tz c);
                 p_author_neg := c_author_neg c;
                 p_commit_neg := c_commit_neg c;
                 p_gpgsig := opt_nonempty (c_gpgsig c);
                 p_mergetags := c_mergetag c;
                 p_extra := match fst lu with [] => None | l => Some l end;
                 p_missing_msg := match tm with None => true | Some _ => false end |} |}
    end)).

(* ---------- export_commit (lossy=True) ---------- *)
Fixpoint export_parents (ps : list bytes) : res (list bytes) :=
  match ps with
  | [] => Ok []
  | p :: r =>
      bind (parent_lookup p) (fun g =>
      if negb (Nat.eqb (List.length g) 40) then Err "AssertionError"
      else bind (export_parents r) (fun gs => Ok (g :: gs)))
  end.

Fixpoint export_extra (lines : list text) : res (list (bytes * bytes)) :=
  match lines with
  | [] => Ok []
  | l :: r =>
      match break_at SP l with
      | None => Err "ValueError"                          (* (k, v) = l.split(" ", 1) *)
      | Some (k, v) => bind (export_extra r) (fun e => Ok ((k, v) :: e))
      end
  end.

(* first_author.split(",")[0] *)
Definition before_comma (t : text) : text :=
  match break_at COMMA t with Some (a, _) => a | None => t end.

Definition implicit_codec (env : bytes -> codec) (implicit : option text) : codec :=
  match implicit with
  | Some e => lookup env e
  | None => CUtf8
  end.
(* encoding = props.get("git-explicit-encoding"); if it is None or "false":
   props.get("git-implicit-encoding", "utf-8")          (since 5f2eb02) *)
Definition export_codec (env : bytes -> codec) (explicit implicit : option text) : codec :=
  match explicit with
  | Some e => if bytes_eqb e (bs "false") then implicit_codec env implicit else lookup env e
  | None => implicit_codec env implicit
  end.

(* the "several authors" rule applied to rev.get_apparent_authors()[0] *)
Definition cut_author (a : text) : text :=
  if memb COMMA a && Nat.ltb 1 (count GT a) then before_comma a else a.

Definition export_commit (env : bytes -> codec) (r : revision) (tree_sha : bytes) : res commit :=
  let p := r_props r in
  bind (export_parents (r_parents r)) (fun parents =>
  let cd := export_codec env (p_explicit_enc p) (p_implicit_enc p) in
  bind (match p_explicit_enc p with
        | Some e => if is_ascii e then Ok (Some e) else Err "UnicodeEncodeError"
        | None => Ok None
        end) (fun enc =>
  bind (bind (encode cd (r_committer r)) fix_person) (fun committer =>
  (* rev.get_apparent_authors()[0] *)
  bind (match (match p_author p with Some a => a | None => r_committer r end) with
        | [] => Err "IndexError"
        | a => Ok a
        end) (fun first_author =>
  bind (bind (encode cd (cut_author first_author)) fix_person) (fun author =>
  bind (if p_missing_msg p
        then match r_message r with       (* since bd50aba: commit.message = None *)
             | [] => Ok None
             | _ => Err "AssertionError"
             end
        else bind (encode cd (r_message r)) (fun m => Ok (Some m))) (fun message =>
  bind (export_extra (match p_extra p with Some t => extra_lines t | None => [] end)) (fun extra =>
  Ok {| c_tree := tree_sha;
        c_parents := parents;
        c_author := author;
        c_author_time := match p_author_ts p with Some t => t | None => r_timestamp r end;
        c_author_tz := match p_author_tz p with Some t => t | None => r_timezone r end;
        c_author_neg := p_author_neg p;
        c_committer := committer;
        c_commit_time := r_timestamp r;
        c_commit_tz := r_timezone r;
        c_commit_neg := p_commit_neg p;
        c_encoding := enc;
        c_mergetag := p_mergetags p;
        c_extra := extra;
        c_gpgsig := p_gpgsig p;
        c_message := message |}))))))).

(* ---------- observations for the correspondence run ---------- *)
Definition ores {A} (f : A -> obs) (r : res A) : obs :=
  match r with Ok a => f a | Err e => OE e | Unmodelled => OT "unmodelled" end.

Definition oprops (p : props) : obs :=
  OL [ oopt OB (p_explicit_enc p); oopt OB (p_implicit_enc p); oopt OB (p_author p);
       oopt OZ (p_author_ts p); oopt OZ (p_author_tz p);
       obool (p_author_neg p); obool (p_commit_neg p);
       oopt OB (p_gpgsig p); olist OB (p_mergetags p); oopt OB (p_extra p);
       obool (p_missing_msg p) ].

Definition orev (r : revision) : obs :=
  OL [ OB (r_committer r); OZ (r_timestamp r); OZ (r_timezone r); OB (r_message r);
       olist OB (r_parents r); oprops (r_props r) ].

Definition oser (c : commit) : obs :=
  match serialise c with Some b => OB b | None => OE "ValueError" end.

(* [serialisation of the input, import result, serialisation of export(import)] *)
Definition run_case (env : bytes -> codec) (c : commit) : obs :=
  let i := import_commit env c in
  OL [ oser c;
       ores orev i;
       match i with
       | Ok r => ores oser (export_commit env r (c_tree c))
       | _ => ON
       end ].

(* environment given by the harness: the class of the commit's own encoding name *)
Definition env1 (name : bytes) (cd : codec) : bytes -> codec :=
  fun n => if bytes_eqb n name then cd else CUnknown.

Definition run_fix_person (t : bytes) : obs := ores OB (fix_person t).
Definition run_extra_lines (t : bytes) : obs := olist OB (extra_lines t).

(* ---------- the executable guards of the theorems ---------- *)
Definition wf_commit (c : commit) : bool :=
  forallb (fun p => Nat.eqb (List.length p) 40) (c_parents c)
  && (c_author_tz c mod 60 =? 0)%Z && (c_commit_tz c mod 60 =? 0)%Z
  && wf_bytes (c_committer c) && wf_bytes (c_author c)
  && match c_message c with Some m => wf_bytes m | None => true end.

Definition accepted (env : bytes -> codec) (c : commit) : bool :=
  match import_commit env c with Ok _ => true | _ => false end.

(* the person identifier is already in the form fix_person_identifier produces, and the
   "several authors" rule does not cut it *)
Definition ident_ok (t : bytes) : bool :=
  match fix_person t with Ok t' => bytes_eqb t' t | _ => false end
  && negb (memb COMMA t && Nat.ltb 1 (count GT t)).

Definition extra_ok (kv : bytes * bytes) : bool :=
  let '(k, v) := kv in
  (bytes_eqb k HG_RENAME_SOURCE
   || (bytes_eqb k HG_EXTRA
       && match break_at 58 v with Some (hgk, _) => hg_known hgk | None => false end))
  && negb (memb NL v).

Definition texts_valid (c : commit) : bool :=
  valid_utf8 (c_committer c) && valid_utf8 (c_author c)
  && match c_message c with Some m => valid_utf8 m | None => true end.

Definition encoding_ok (env : bytes -> codec) (c : commit) : bool :=
  match c_encoding c with
  | None => true
  | Some e =>
      is_ascii e
      && (bytes_eqb e (bs "false")
          || match lookup env e with
             | CUtf8 => texts_valid c
             | CLatin1 => true
             | _ => false
             end)
  end.

Definition rt_guard (env : bytes -> codec) (c : commit) : bool :=
  wf_commit c && encoding_ok env c
  && ident_ok (c_committer c) && ident_ok (c_author c)
  && forallb extra_ok (c_extra c).

(* falsy gpgsig (b"") is not serialised and comes back as None *)
Definition norm (c : commit) : commit :=
  {| c_tree := c_tree c; c_parents := c_parents c;
     c_author := c_author c; c_author_time := c_author_time c; c_author_tz := c_author_tz c;
     c_author_neg := c_author_neg c;
     c_committer := c_committer c; c_commit_time := c_commit_time c; c_commit_tz := c_commit_tz c;
     c_commit_neg := c_commit_neg c;
     c_encoding := c_encoding c; c_mergetag := c_mergetag c; c_extra := c_extra c;
     c_gpgsig := truthy (c_gpgsig c); c_message := c_message c |}.

(* ---------- roundtrip.py: extract_bzr_metadata (used by BzrGitMappingExperimental only) ----------
   message.split(b"\n--BZR--\n", 1): the text before the first marker and the text after it *)
Definition BZR_MARK : bytes := NL :: bs "--BZR--" ++ [NL].
Fixpoint bzr_split (m : bytes) : option (bytes * bytes) :=
  if prefixb BZR_MARK m then Some ([], skipn 9 m)
  else match m with
       | [] => None
       | b :: r => match bzr_split r with
                   | Some (h, t) => Some (b :: h, t)
                   | None => None
                   end
       end.
(* (message returned, was a metadata block split off) *)
Definition extract_msg (m : bytes) : bytes * bool :=
  match bzr_split m with Some (h, _) => (h, true) | None => (m, false) end.

(* parse_roundtripping_metadata raises ValueError unless every line (BytesIO.readlines) is
   "key:value" with key revision-id | parent-ids | testament3-sha1 | property-* *)
Definition meta_key_ok (k : bytes) : bool :=
  bytes_eqb k (bs "revision-id") || bytes_eqb k (bs "parent-ids")
  || bytes_eqb k (bs "testament3-sha1") || prefixb (bs "property-") k.
Definition meta_line_ok (l : bytes) : bool :=
  match break_at 58 l with Some (k, _) => meta_key_ok k | None => false end.
Fixpoint drop_last_empty (ls : list bytes) : list bytes :=
  match ls with
  | [] => []
  | [l] => match l with [] => [] | _ => [l] end
  | l :: r => l :: drop_last_empty r
  end.
Definition meta_valid (t : bytes) : bool :=
  forallb meta_line_ok (drop_last_empty (split1 NL t)).

Definition run_meta (m : bytes) : obs :=
  match bzr_split m with
  | None => OL [OB m; obool false]
  | Some (h, t) => if meta_valid t then OL [OB h; obool true] else OE "ValueError"
  end.
