(* Model/Upgrade52.v -- C52: the format-upgrade driver at specification level.

   Mirrors (definitions only):
     needs_conv        BzrDirMeta1.needs_format_conversion          (breezy/bzr/bzrdir.py)
     check_target      BzrDirMeta1.check_conversion_target -> RepositoryFormat.check_conversion_target
     get_converter     BzrDirMetaFormat1.get_converter              (which converter class is chosen)
     branch_chain      the `while old != new` loop of ConvertMetaToMeta.convert  (Converter5to6/6to7/7to8)
     tree_steps        the three `if isinstance(tree, ...)` tests of ConvertMetaToMeta.convert
                       (Converter3to4, Converter4to5, Converter4or5to6 of breezy/bzr/workingtree_4.py)
     meta_to_meta      ConvertMetaToMeta.convert
     meta_to_colo      ConvertMetaToColo.convert
     convert_loop      the `while self.controldir.needs_format_conversion(format)` loop of upgrade.Convert.convert
     convert           upgrade.Convert.convert as called from upgrade._convert_items
     upgrade_one       upgrade._smart_upgrade_one (a control directory and the branches depending on its
                       shared repository)
   Formats are numbers: repository formats are class identities (the harness only uses formats whose
   classes are unrelated by inheritance), branch formats 5..8, working tree formats 3..6.
   The payload (what the property says must survive) is carried through every converter. *)
From Coq Require Import List Bool Arith String ZArith.
Import ListNotations.
From BV Require Import Lib.Obs.
Open Scope string_scope.
Open Scope nat_scope.
Open Scope list_scope.

(* what a branch stores besides its format *)
Record bpay := mkBP { bp_tip : nat; bp_tags : list (nat * nat); bp_parent : option nat;
                      bp_bound : option nat; bp_push : option nat }.
(* what a tree stores besides its format: parents (basis + pending merges) and uncommitted changes *)
Record tpay := mkTP { tp_parents : list nat; tp_changes : list nat }.

(* a repository format: class identity, rich_root_data, supports_tree_reference *)
Record rfmt := mkRF { rf_id : nat; rf_rich : bool; rf_treeref : bool }.

(* a control directory: colocated-branch metadir?; repository (format, revisions); branch; tree *)
Record cdir := mkCD {
  c_colo : bool;
  c_repo : option (rfmt * list nat);
  c_branch : option (nat * bpay);
  c_tree : option (nat * tpay);
  c_backup : bool }.

(* a target format (a BzrDirMetaFormat1 with its three sub formats) *)
Record tfmt := mkTF { tg_colo : bool; tg_repo : rfmt; tg_branch : nat; tg_tree : nat }.

Definition needs_conv (d : cdir) (f : tfmt) : bool :=
  negb (Bool.eqb (c_colo d) (tg_colo f))
  || match c_repo d with Some (r, _) => negb (rf_id r =? rf_id (tg_repo f)) | None => false end
  || match c_branch d with Some (b, _) => negb (b =? tg_branch f) | None => false end
  || match c_tree d with Some (t, _) => negb (t =? tg_tree f) | None => false end.

(* RepositoryFormat.check_conversion_target: true = raises BadConversionTarget *)
Definition check_target (d : cdir) (f : tfmt) : bool :=
  match c_repo d with
  | Some (r, _) => (rf_rich r && negb (rf_rich (tg_repo f))) || (rf_treeref r && negb (rf_treeref (tg_repo f)))
  | None => false
  end.

(* which converter BzrDirMetaFormat1.get_converter returns: true = ConvertMetaToColo -- exactly when
   source and target differ in the metadir flavour (colocated branches or not) *)
Definition get_converter (d : cdir) (f : tfmt) : bool :=
  negb (Bool.eqb (c_colo d) (tg_colo f)).

(* Converter5to6: a new format-6 branch is filled from the old one's fields; tags start empty
   (format 5 has none); a missing push location stays missing *)
Definition conv5to6 (p : bpay) : bpay := mkBP (bp_tip p) [] (bp_parent p) (bp_bound p) (bp_push p).

(* one turn of the `while old != new` loop; None = raise BadConversionTarget *)
Definition branch_step (old new : nat) (p : bpay) : option (nat * bpay) :=
  if (old =? 5) && ((new =? 6) || (new =? 7) || (new =? 8)) then Some (6, conv5to6 p)
  else if (old =? 6) && ((new =? 7) || (new =? 8)) then Some (7, p)
  else if (old =? 7) && (new =? 8) then Some (8, p)
  else None.
Fixpoint branch_chain (fuel : nat) (old new : nat) (p : bpay) : option (nat * bpay) :=
  if old =? new then Some (old, p)
  else match fuel with
       | 0 => None
       | S k => match branch_step old new p with
                | Some (o', p') => branch_chain k o' new p'
                | None => None
                end
       end.

(* the three tests use the class of the tree object opened BEFORE any conversion *)
Definition tree_steps (t new : nat) : nat :=
  let t1 := if (t =? 3) && (4 <=? new) then 4 else t in
  let dirstate := 4 <=? t in
  let t2 := if dirstate && negb (t =? 5) && (new =? 5) then 5 else t1 in
  let t3 := if dirstate && negb (t =? 6) && (new =? 6) then 6 else t2 in
  t3.

(* the tree part of ConvertMetaToMeta.convert: None = raise BadConversionTarget (no converter applied
   and the tree is not in the target format, e.g. lowering a dirstate format) *)
Definition tree_convert (t new : nat) : option nat :=
  let t' := tree_steps t new in
  if (t' =? t) && negb (t =? new) then None else Some t'.

(* ConvertMetaToMeta.convert: (result, raised BadConversionTarget?) -- repository, then branch, then tree:
   a refusal of a later part leaves the earlier parts converted *)
Definition meta_to_meta (d : cdir) (f : tfmt) : cdir * bool :=
  let repo' := match c_repo d with
               | Some (r, revs) => if rf_id r =? rf_id (tg_repo f) then Some (r, revs) else Some (tg_repo f, revs)
               | None => None
               end in
  let br' := match c_branch d with
             | Some (b, p) => match branch_chain 3 b (tg_branch f) p with
                              | Some bp' => Some (Some bp')
                              | None => None
                              end
             | None => Some None
             end in
  match br' with
  | None => (mkCD (c_colo d) repo' (c_branch d) (c_tree d) (c_backup d), true)
  | Some b' =>
      match c_tree d with
      | Some (t, tp) =>
          match tree_convert t (tg_tree f) with
          | Some t' => (mkCD (c_colo d) repo' b' (Some (t', tp)) (c_backup d), false)
          | None => (mkCD (c_colo d) repo' b' (c_tree d) (c_backup d), true)
          end
      | None => (mkCD (c_colo d) repo' b' None (c_backup d), false)
      end
  end.

Definition meta_to_colo (d : cdir) (f : tfmt) : cdir :=
  mkCD (tg_colo f) (c_repo d) (c_branch d) (c_tree d) (c_backup d).

Inductive outcome := Done (d : cdir) | Raised (e : string) (d : cdir) | Hangs (d : cdir).

Fixpoint convert_loop (fuel : nat) (d : cdir) (f : tfmt) : outcome :=
  if needs_conv d f then
    match fuel with
    | 0 => Hangs d
    | S k =>
        if get_converter d f then convert_loop k (meta_to_colo d f) f
        else match meta_to_meta d f with
             | (d', true) => Raised "BadConversionTarget" d'
             | (d', false) => convert_loop k d' f
             end
    end
  else Done d.

Definition FUEL := 6.

(* upgrade.Convert.convert *)
Definition convert (d : cdir) (f : tfmt) : outcome :=
  if negb (needs_conv d f) then Raised "UpToDateFormat" d
  else if check_target d f then Raised "BadConversionTarget" d
  else convert_loop FUEL (mkCD (c_colo d) (c_repo d) (c_branch d) (c_tree d) true) f.

Definition cdir_of (o : outcome) : cdir := match o with Done d => d | Raised _ d => d | Hangs d => d end.

(* upgrade._convert_items for one item: (succeeded, exception reported, result); clean_up removes the backup *)
Definition convert_item (clean_up : bool) (d : cdir) (f : tfmt) : bool * option string * outcome :=
  match convert d f with
  | Raised e d' => if String.eqb e "UpToDateFormat" then (true, None, Done d') else (false, Some e, Raised e d')
  | Hangs d' => (false, Some "Hang", Hangs d')
  | Done d' =>
      (true, None, Done (if clean_up then mkCD (c_colo d') (c_repo d') (c_branch d') (c_tree d') false else d'))
  end.

(* upgrade._smart_upgrade_one: the dependents are converted only when the main directory
   succeeded and holds a SHARED repository (the harness passes deps = [] otherwise) *)
Definition upgrade_one (clean_up : bool) (d : cdir) (deps : list cdir) (f : tfmt)
  : list string * outcome * list outcome :=
  let '(ok, e, o) := convert_item clean_up d f in
  let exc := match e with Some x => [x] | None => [] end in
  if ok then
    let rs := map (fun x => convert_item clean_up x f) deps in
    (exc ++ flat_map (fun r => match snd (fst r) with Some x => [x] | None => [] end) rs, o, map snd rs)
  else (exc, o, map Done deps).

(* ---- observations ------------------------------------------------------------------ *)
Definition obpay (p : bpay) : obs :=
  OL [onat (bp_tip p); olist (fun q => OL [onat (fst q); onat (snd q)]) (bp_tags p);
      oopt onat (bp_parent p); oopt onat (bp_bound p); oopt onat (bp_push p)].
Definition ocdir (d : cdir) : obs :=
  OL [obool (c_colo d);
      oopt (fun r => OL [onat (rf_id (fst r)); olist onat (snd r)]) (c_repo d);
      oopt (fun b => OL [onat (fst b); obpay (snd b)]) (c_branch d);
      oopt (fun t => OL [onat (fst t); olist onat (tp_parents (snd t)); olist onat (tp_changes (snd t))]) (c_tree d);
      obool (c_backup d)].
Definition ooutcome (o : outcome) : obs :=
  match o with
  | Done d => ocdir d
  | Raised _ d => ocdir d
  | Hangs _ => OE "Hang"
  end.
Definition run_upgrade (clean_up : bool) (d : cdir) (deps : list cdir) (f : tfmt) : obs :=
  let '(exc, o, os) := upgrade_one clean_up d deps f in
  OL [olist OE exc; ooutcome o; olist ooutcome os].
