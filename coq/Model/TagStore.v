(* Model/TagStore.v -- hand model (tie H) of the tag storage and transfer glue
   around the generated kernel Gen.ReconcileTags.reconcile_tags.

   Python / breezy                                         here
   ------------------------------------------------------  --------------------------
   breezy/bzr/tag.py BasicTags._serialize_tag_dict         serialize
     (utf-8 names -> fastbencode.bencode of a dict)
   breezy/bzr/tag.py BasicTags._deserialize_tag_dict       deserialize
     (b"" special case; fastbencode.bdecode; .items())
   breezy/tag.py     InterTags.merge / _merge_to           merge_inter
   breezy/tag.py     MemoryTags.merge_to                   merge_memsrc
   breezy/git/branch.py InterTagsFromGitToLocalGit.merge   merge_nomaster (no master, no shortcut)
   breezy/git/branch.py InterTagsFromGitToNonGit.merge     merge_inter  (the empty-source shortcut is unobservable)

   Tag names are modelled as their utf-8 BYTE STRINGS (str.encode/bytes.decode
   are Python built-ins = environment; the harness encodes names before
   comparing).  fastbencode is outside /repo: [serialize]/[deserialize] model
   its dict-of-byte-strings subset (sorted keys, "<decimal length>:<bytes>"
   strings, strictly increasing keys and no leading zeros required on decode)
   and are validated byte-for-byte by the correspondence run.
   [deserialize] returns None where the real function raises or yields
   something that is not a bytes->bytes dict (ints, lists, nested dicts).
   No proofs in this file. *)
From Coq Require Import String ZArith NArith List Bool.
From BV Require Import Lib.Bytes Lib.Obs Lib.PyDict Lib.DecBytes Gen.ReconcileTags.
Import ListNotations.
Open Scope N_scope.

Definition tagdict : Type := dict bytes bytes.

(* ------------------------------------------------------------ bencode *)

(* Python/Rust ordering of byte strings: lexicographic, a proper prefix first *)
Fixpoint bytes_ltb (a b : bytes) : bool :=
  match a, b with
  | _, [] => false
  | [], _ :: _ => true
  | x :: a', y :: b' => if x <? y then true else if y <? x then false else bytes_ltb a' b'
  end.

(* sorted(td.items()): insertion sort by key (keys are pairwise different) *)
Fixpoint insert_kv (x : bytes * bytes) (l : tagdict) : tagdict :=
  match l with
  | [] => [x]
  | y :: l' => if bytes_ltb (fst x) (fst y) then x :: y :: l' else y :: insert_kv x l'
  end.
Definition sort_kv (d : tagdict) : tagdict := fold_right insert_kv [] d.

Definition COLON : N := 58.   (* ":" *)
Definition CH_d : N := 100.   (* "d" *)
Definition CH_e : N := 101.   (* "e" *)

(* b"%d:%s" % (len(s), s) *)
Definition bstr (s : bytes) : bytes := print_dec (N.of_nat (length s)) ++ COLON :: s.
Definition enc_item (kv : bytes * bytes) : bytes := bstr (fst kv) ++ bstr (snd kv).

(* _serialize_tag_dict: bencode({name.encode("utf-8"): revid}) *)
Definition serialize (d : tagdict) : bytes :=
  CH_d :: flat_map enc_item (sort_kv d) ++ [CH_e].

Definition leading_zero (ds : bytes) : bool :=
  match ds with c :: _ :: _ => c =? 48 | _ => false end.

(* one "<len>:<bytes>" string off the front; None = ValueError / not a string *)
Definition parse_bstr (s : bytes) : option (bytes * bytes) :=
  match find_byte COLON s with
  | None => None
  | Some (ds, rest) =>
      if leading_zero ds then None else
      match parse_dec ds with
      | None => None
      | Some n => if n <=? N.of_nat (length rest)
                  then Some (firstn (N.to_nat n) rest, skipn (N.to_nat n) rest)
                  else None
      end
  end.

Definition key_ok (last : option bytes) (k : bytes) : bool :=
  match last with None => true | Some l => bytes_ltb l k end.

(* the items of a dict up to the closing "e" which must end the input;
   keys strictly increasing ("dict keys disordered" otherwise) *)
Fixpoint parse_items (fuel : nat) (last : option bytes) (s : bytes) : option tagdict :=
  match fuel with
  | O => None
  | S f =>
      match s with
      | [] => None
      | c :: s' =>
          if c =? CH_e then match s' with [] => Some [] | _ => None end
          else match parse_bstr s with
               | None => None
               | Some (k, s1) =>
                   if key_ok last k then
                     match parse_bstr s1 with
                     | None => None
                     | Some (v, s2) =>
                         match parse_items f (Some k) s2 with
                         | Some d => Some ((k, v) :: d)
                         | None => None
                         end
                     end
                   else None
               end
      end
  end.

(* _deserialize_tag_dict *)
Definition deserialize (s : bytes) : option tagdict :=
  match s with
  | [] => Some []
  | c :: s' => if c =? CH_d then parse_items (S (length s')) None s' else None
  end.

(* -------------------------------------------------------------- transfer *)

Definition conflict : Type := (bytes * bytes * option bytes)%type.
Definition reconcileB := reconcile_tags bytes bytes bytes_eqb bytes_eqb.

Definition conf_eqb (a b : conflict) : bool :=
  let '(k1, v1, w1) := a in let '(k2, v2, w2) := b in
  bytes_eqb k1 k2 && bytes_eqb v1 v2 && opt_eqb bytes_eqb w1 w2.

(* InterTagsFromGitToLocalGit.merge (the reconcile loop on refs; git branches have no master):
     result, updates, conflicts = reconcile(source, dest); result written; no master step.
   This was also MemoryTags.merge_to BEFORE commit b75814f (finding C24-memorytags-merge-ignores-master). *)
Definition merge_nomaster (src dst : tagdict) (master : option tagdict) (ov : bool) (sel : option (bytes -> bool))
  : tagdict * option tagdict * tagdict * list conflict :=
  let '(r, u, c) := reconcileB src dst ov sel in (r, master, u, c).
Definition merge_memsrc_old := merge_nomaster.

(* MemoryTags.merge_to (since b75814f):
     result, updates, conflicts = _reconcile_tags(source_dict, dest_dict, overwrite, selector)
     if result != dest_dict: to_tags._set_tag_dict(result)
     master = to_tags.branch.get_master_branch() unless ignore_master (or no branch)
     if master: extra = InterTags._merge_to(master.tags, ...); updates.update(extra_updates)
                conflicts += [c for c in extra_conflicts if c not in conflicts] *)
Definition merge_memsrc (src dst : tagdict) (master : option tagdict) (ignore_master ov : bool)
                        (sel : option (bytes -> bool))
  : tagdict * option tagdict * tagdict * list conflict :=
  let '(r1, u1, c1) := reconcileB src dst ov sel in
  match master with
  | Some m =>
      if ignore_master then (r1, Some m, u1, c1)
      else let '(r2, u2, c2) := reconcileB src m ov sel in
           (r1, Some r2, dict_update bytes_eqb u1 u2,
            c1 ++ filter (fun c => negb (existsb (conf_eqb c) c1)) c2)
  | None => (r1, None, u1, c1)
  end.

(* InterTags.merge:  empty source -> nothing; _merge_to(target); if there is a master and
   not ignore_master: _merge_to(master.tags), updates.update(extra), conflicts += extra *)
Definition merge_inter (src dst : tagdict) (master : option tagdict) (ignore_master ov : bool)
                       (sel : option (bytes -> bool))
  : tagdict * option tagdict * tagdict * list conflict :=
  match src with
  | [] => (dst, master, [], [])
  | _ =>
      let '(r1, u1, c1) := reconcileB src dst ov sel in
      match master with
      | Some m =>
          if ignore_master then (r1, Some m, u1, c1)
          else let '(r2, u2, c2) := reconcileB src m ov sel in
               (r1, Some r2, dict_update bytes_eqb u1 u2, c1 ++ c2)
      | None => (r1, None, u1, c1)
      end
  end.

(* ------------------------------------------------- correspondence runners *)

Definition okv (kv : bytes * bytes) : obs := OL [OB (fst kv); OB (snd kv)].
Definition odict (d : tagdict) : obs := OL (map okv d).                 (* iteration order *)
Definition odict_sorted (d : tagdict) : obs := odict (sort_kv d).
Definition oconf (c : conflict) : obs :=
  OL [OB (fst (fst c)); OB (snd (fst c)); oopt OB (snd c)].

Definition opt_ltb (a b : option bytes) : bool :=
  match a, b with
  | None, Some _ => true
  | Some x, Some y => bytes_ltb x y
  | _, _ => false
  end.
Definition conf_ltb (a b : conflict) : bool :=
  let '(k1, v1, w1) := a in let '(k2, v2, w2) := b in
  bytes_ltb k1 k2 ||
  (bytes_eqb k1 k2 && (bytes_ltb v1 v2 || (bytes_eqb v1 v2 && opt_ltb w1 w2))).
(* sorted(set(conflicts)) *)
Fixpoint insert_conf (x : conflict) (l : list conflict) : list conflict :=
  match l with
  | [] => [x]
  | y :: l' => if conf_ltb x y then x :: y :: l'
               else if conf_eqb x y then y :: l' else y :: insert_conf x l'
  end.
Definition sort_confs (l : list conflict) : list conflict := fold_right insert_conf [] l.

(* selector given as an accept list (neg = false) or a reject list (neg = true) *)
Definition mk_sel (neg : bool) (names : list bytes) : bytes -> bool :=
  fun n => xorb neg (existsb (bytes_eqb n) names).

(* direct call of _reconcile_tags: accumulators in iteration order *)
Definition run_reconcile (src dst : tagdict) (ov : bool) (sel : option (bytes -> bool)) : obs :=
  let '(r, u, c) := reconcileB src dst ov sel in
  OL [odict r; odict u; OL (map oconf c)].

Definition run_ser (d : tagdict) : obs := OB (serialize d).
Definition run_deser (s : bytes) : obs :=
  match deserialize s with Some d => odict d | None => OE "error" end.
(* _set_tag_dict then a fresh get_tag_dict on a native branch *)
Definition run_store (d : tagdict) : obs :=
  match deserialize (serialize d) with Some d' => odict_sorted d' | None => OE "error" end.

(* how a destination that held [old] keeps the dict [d] handed to _set_tag_dict, as read back by
   get_tag_dict:
     DMem     MemoryTags._set_tag_dict: dict(result.items())
     DNative  BasicTags: through the bencode tags file
     DGit cs  LocalGitTagDict._set_tag_dict: every name of [d] is first taken off the list of refs to
              delete, then set_tag runs per entry; a revision id that is not a commit of the
              repository (cs = its commits) raises GhostTagsNotSupported, which _set_tag_dict
              SUPPRESSES: the ref keeps its OLD value if the name existed, else nothing is stored
              (known finding C24-git-ghost-tag-reported-not-stored); refs of [old] whose name is
              not in [d] are deleted *)
Inductive dest_store : Type := DMem | DNative | DGit (commits : list bytes).

Definition git_keeps (commits : list bytes) (kv : bytes * bytes) : bool :=
  existsb (bytes_eqb (snd kv)) commits.

Definition git_set_entry (commits : list bytes) (old : tagdict) (kv : bytes * bytes) : tagdict :=
  if git_keeps commits kv then [kv]
  else match dict_get bytes_eqb old (fst kv) with
       | Some w => [(fst kv, w)]
       | None => []
       end.
Definition git_set (commits : list bytes) (old d : tagdict) : tagdict :=
  flat_map (git_set_entry commits old) d.

Definition stored (ds : dest_store) (old d : tagdict) : option tagdict :=
  match ds with
  | DMem => Some d
  | DNative => deserialize (serialize d)
  | DGit commits => Some (git_set commits old d)
  end.

(* a master branch exists only for bound native branches *)
Definition transfer_obs (ds : dest_store) (dst : tagdict)
                        (out : tagdict * option tagdict * tagdict * list conflict) : obs :=
  let '(r, m, u, c) := out in
  match stored ds dst r, match m with Some md => option_map Some (stored DNative [] md) | None => Some None end with
  | Some r', Some m' =>
      OL [odict_sorted r'; oopt odict_sorted m'; odict_sorted u; OL (map oconf (sort_confs c))]
  | _, _ => OE "error"
  end.

(* which transfer routine runs *)
Inductive merge_kind : Type :=
| MInter      (* InterTags.merge / InterTagsFromGitToNonGit.merge *)
| MMem        (* MemoryTags.merge_to *)
| MGitGit.    (* InterTagsFromGitToLocalGit.merge *)

Definition run_transfer (mk : merge_kind) (ds : dest_store) (src dst : tagdict) (master : option tagdict)
                        (ignore_master ov : bool) (sel : option (bytes -> bool)) : obs :=
  transfer_obs ds dst
    match mk with
    | MInter => merge_inter src dst master ignore_master ov sel
    | MMem => merge_memsrc src dst master ignore_master ov sel
    | MGitGit => merge_nomaster src dst master ov sel
    end.
