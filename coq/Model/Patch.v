(* Model/Patch.v -- hand model for C39 (diffs apply back to the text they describe).

   Mirrors, definition by definition:
     breezy/diff.py      internal_diff, unified_diff_bytes
     breezy/patches.py   hunk_from_header, parse_line, HunkLine.get_str, Hunk.get_header/range_str/as_bytes,
                         iter_hunks, Patch.as_bytes/get_header/stats_values, parse_patch, iter_patched,
                         iter_patched_from_hunks
     crates/patch/src/parse.rs   get_patch_names, iter_lines_handle_nl, parse_range
   Environment (outside /repo, validated by the correspondence run): the sequence matcher.  Its
   get_opcodes() result is an INPUT ([ops]) checked by [valid_opcodes]; its get_grouped_opcodes(n)
   is modelled by [group_opcodes] (difflib's algorithm, which patiencediff re-implements).
   A text is a [list line]; a line is a byte list.  No proofs here. *)
From Coq Require Import Decimal DecimalNat.
From Coq Require Import ZArith NArith Bool String Ascii Arith List.
From BV Require Import Lib.Bytes Lib.Obs.
Import ListNotations.
Open Scope nat_scope.
Open Scope list_scope.

Definition line := bytes.

(* ------------------------------------------------------------------ bytes helpers *)
Definition cNL : N := 10%N.
Definition cSP : N := 32%N.
Definition cPLUS : N := 43%N.
Definition cCOMMA : N := 44%N.
Definition cMINUS : N := 45%N.
Definition cAT : N := 64%N.
Definition cTAB : N := 9%N.

Definition ascii_N (c : Ascii.ascii) : N := N_of_ascii c.
Fixpoint str (s : string) : bytes :=
  match s with EmptyString => [] | String c s' => ascii_N c :: str s' end.

Fixpoint lines_eqb (a b : list bytes) : bool :=
  match a, b with
  | [], [] => true
  | x :: a', y :: b' => bytes_eqb x y && lines_eqb a' b'
  | _, _ => false
  end.

Definition ends_nl (l : bytes) : bool :=
  match rev l with c :: _ => N.eqb c cNL | [] => false end.

(* a[i:j] *)
Definition slice {A} (l : list A) (i j : nat) : list A := firstn (j - i) (skipn i l).

(* b"%d" % n  and Rust str::parse on a non-empty all-digit string *)
Fixpoint uint_bytes (u : uint) : bytes :=
  match u with
  | Nil => []
  | D0 u => 48%N :: uint_bytes u | D1 u => 49%N :: uint_bytes u | D2 u => 50%N :: uint_bytes u
  | D3 u => 51%N :: uint_bytes u | D4 u => 52%N :: uint_bytes u | D5 u => 53%N :: uint_bytes u
  | D6 u => 54%N :: uint_bytes u | D7 u => 55%N :: uint_bytes u | D8 u => 56%N :: uint_bytes u
  | D9 u => 57%N :: uint_bytes u
  end.
Definition dec (n : nat) : bytes := uint_bytes (Nat.to_uint n).

Definition digit_cons (c : N) (u : uint) : option uint :=
  if N.eqb c 48 then Some (D0 u) else if N.eqb c 49 then Some (D1 u) else
  if N.eqb c 50 then Some (D2 u) else if N.eqb c 51 then Some (D3 u) else
  if N.eqb c 52 then Some (D4 u) else if N.eqb c 53 then Some (D5 u) else
  if N.eqb c 54 then Some (D6 u) else if N.eqb c 55 then Some (D7 u) else
  if N.eqb c 56 then Some (D8 u) else if N.eqb c 57 then Some (D9 u) else None.
Fixpoint bytes_uint (s : bytes) : option uint :=
  match s with
  | [] => Some Nil
  | c :: s' => match bytes_uint s' with Some u => digit_cons c u | None => None end
  end.
(* signs and i32 overflow are not modelled: a signed or non-digit string is an error *)
Definition parse_nat (s : bytes) : option nat :=
  match s with [] => None | _ => option_map Nat.of_uint (bytes_uint s) end.

(* ------------------------------------------------------------------ opcodes (environment input) *)
Inductive tag := TEqual | TReplace | TDelete | TInsert.
Record opcode := Op { otag : tag; oi1 : nat; oi2 : nat; oj1 : nat; oj2 : nat }.

Definition is_equal (o : opcode) : bool := match otag o with TEqual => true | _ => false end.

Definition tag_ok (a b : list line) (o : opcode) : bool :=
  match otag o with
  | TEqual => lines_eqb (slice a (oi1 o) (oi2 o)) (slice b (oj1 o) (oj2 o))
              && Nat.eqb (oi2 o - oi1 o) (oj2 o - oj1 o)
  | TReplace => true
  | TDelete => Nat.eqb (oj1 o) (oj2 o)
  | TInsert => Nat.eqb (oi1 o) (oi2 o)
  end.

(* the checker for the matcher's answer: the opcodes tile a and b from (i,j) to the ends,
   'equal' blocks really are equal, 'delete' consumes nothing of b, 'insert' nothing of a *)
Fixpoint valid_from (a b : list line) (i j : nat) (ops : list opcode) : bool :=
  match ops with
  | [] => Nat.eqb i (length a) && Nat.eqb j (length b)
  | o :: r => Nat.eqb (oi1 o) i && Nat.eqb (oj1 o) j && Nat.leb i (oi2 o) && Nat.leb j (oj2 o)
              && Nat.leb (oi2 o) (length a) && Nat.leb (oj2 o) (length b)
              && tag_ok a b o && valid_from a b (oi2 o) (oj2 o) r
  end.
Definition valid_opcodes (a b : list line) (ops : list opcode) : bool := valid_from a b 0 0 ops.

(* SequenceMatcher.get_grouped_opcodes(n) *)
Definition fix_first (n : nat) (codes : list opcode) : list opcode :=
  match codes with
  | o :: r => if is_equal o
              then Op TEqual (Nat.max (oi1 o) (oi2 o - n)) (oi2 o) (Nat.max (oj1 o) (oj2 o - n)) (oj2 o) :: r
              else codes
  | [] => []
  end.
Fixpoint fix_last (n : nat) (codes : list opcode) : list opcode :=
  match codes with
  | [] => []
  | [o] => if is_equal o
           then [Op TEqual (oi1 o) (Nat.min (oi2 o) (oi1 o + n)) (oj1 o) (Nat.min (oj2 o) (oj1 o + n))]
           else [o]
  | o :: r => o :: fix_last n r
  end.
Definition emit_group (cur : list opcode) : list (list opcode) :=   (* cur is reversed *)
  match cur with
  | [] => []
  | [o] => if is_equal o then [] else [[o]]
  | _ => [rev cur]
  end.
Fixpoint group_loop (n : nat) (codes : list opcode) (cur : list opcode) : list (list opcode) :=
  match codes with
  | [] => emit_group cur
  | o :: r =>
      if is_equal o && Nat.ltb (n + n) (oi2 o - oi1 o)
      then rev (Op TEqual (oi1 o) (Nat.min (oi2 o) (oi1 o + n)) (oj1 o) (Nat.min (oj2 o) (oj1 o + n)) :: cur)
           :: group_loop n r [Op TEqual (Nat.max (oi1 o) (oi2 o - n)) (oi2 o) (Nat.max (oj1 o) (oj2 o - n)) (oj2 o)]
      else group_loop n r (o :: cur)
  end.
Definition group_opcodes (n : nat) (ops : list opcode) : list (list opcode) :=
  let codes := match ops with [] => [Op TEqual 0 1 0 1] | _ => ops end in
  group_loop n (fix_last n (fix_first n codes)) [].

(* ------------------------------------------------------------------ hunks *)
Inductive hline := Ctx (c : bytes) | Ins (c : bytes) | Rem (c : bytes).
Record hunk := Hunk { orig_pos : nat; orig_range : nat; mod_pos : nat; mod_range : nat;
                      htail : option bytes; hlines : list hline }.
Record patch := Patch { oldname : bytes; oldts : option bytes; newname : bytes; newts : option bytes;
                        hunks : list hunk }.

Definition hl_contents (h : hline) : bytes := match h with Ctx c | Ins c | Rem c => c end.
Definition old_side (hl : list hline) : list line :=
  flat_map (fun h => match h with Ctx c | Rem c => [c] | Ins _ => [] end) hl.
Definition new_side (hl : list hline) : list line :=
  flat_map (fun h => match h with Ctx c | Ins c => [c] | Rem _ => [] end) hl.

Definition op_hlines (a b : list line) (o : opcode) : list hline :=
  match otag o with
  | TEqual => map Ctx (slice a (oi1 o) (oi2 o))
  | TReplace => map Rem (slice a (oi1 o) (oi2 o)) ++ map Ins (slice b (oj1 o) (oj2 o))
  | TDelete => map Rem (slice a (oi1 o) (oi2 o))
  | TInsert => map Ins (slice b (oj1 o) (oj2 o))
  end.

Definition first_op (g : list opcode) : opcode := hd (Op TEqual 0 0 0 0) g.
Definition last_op (g : list opcode) : opcode := last g (Op TEqual 0 0 0 0).

(* the hunk a group of opcodes describes (header numbers as unified_diff_bytes prints them) *)
Definition group_hunk (a b : list line) (g : list opcode) : hunk :=
  let i1 := oi1 (first_op g) in let i2 := oi2 (last_op g) in
  let j1 := oj1 (first_op g) in let j2 := oj2 (last_op g) in
  Hunk (S i1) (i2 - i1) (S j1) (j2 - j1) None (flat_map (op_hlines a b) g).

(* internal_diff's work-around on the FIRST hunk header: "-1,0" -> "-0,0" when the old text is
   empty, else "+1,0" -> "+0,0" when the new text is empty *)
Definition fix_hdr (a b : list line) (h : hunk) : hunk :=
  match a with
  | [] => if Nat.eqb (orig_pos h) 1 && Nat.eqb (orig_range h) 0
          then Hunk 0 (orig_range h) (mod_pos h) (mod_range h) (htail h) (hlines h) else h
  | _ => match b with
         | [] => if Nat.eqb (mod_pos h) 1 && Nat.eqb (mod_range h) 0
                 then Hunk (orig_pos h) (orig_range h) 0 (mod_range h) (htail h) (hlines h) else h
         | _ => h
         end
  end.

(* the hunks breezy's diff describes, for matcher opcodes [ops] and context size [n] *)
Definition mk_hunks (a b : list line) (ops : list opcode) (n : nat) : list hunk :=
  match map (group_hunk a b) (group_opcodes n ops) with
  | h :: r => fix_hdr a b h :: r
  | [] => []
  end.

(* ------------------------------------------------------------------ diff.py: unified_diff_bytes, internal_diff *)
Definition op_udlines (a b : list line) (o : opcode) : list bytes :=
  match otag o with
  | TEqual => map (cons cSP) (slice a (oi1 o) (oi2 o))
  | TReplace => map (cons cMINUS) (slice a (oi1 o) (oi2 o)) ++ map (cons cPLUS) (slice b (oj1 o) (oj2 o))
  | TDelete => map (cons cMINUS) (slice a (oi1 o) (oi2 o))
  | TInsert => map (cons cPLUS) (slice b (oj1 o) (oj2 o))
  end.

(* b"@@ -%d,%d +%d,%d @@%s" % (i1 + 1, i2 - i1, j1 + 1, j2 - j1, lineterm) *)
Definition ud_header (g : list opcode) : bytes :=
  let i1 := oi1 (first_op g) in let i2 := oi2 (last_op g) in
  let j1 := oj1 (first_op g) in let j2 := oj2 (last_op g) in
  str "@@ -" ++ dec (i1 + 1) ++ [cCOMMA] ++ dec (i2 - i1) ++ str " +" ++ dec (j1 + 1) ++ [cCOMMA] ++ dec (j2 - j1)
  ++ str " @@" ++ [cNL].

Definition group_udlines (a b : list line) (g : list opcode) : list bytes :=
  ud_header g :: flat_map (op_udlines a b) g.

Definition unified_diff_bytes (a b : list line) (fromfile tofile : bytes) (n : nat) (ops : list opcode)
  : list bytes :=
  match group_opcodes n ops with
  | [] => []
  | gs => (str "--- " ++ fromfile ++ [cNL]) :: (str "+++ " ++ tofile ++ [cNL])
          :: flat_map (group_udlines a b) gs
  end.

Definition map_nth2 (f : bytes -> bytes) (ud : list bytes) : list bytes :=
  match ud with x :: y :: z :: r => x :: y :: f z :: r | _ => ud end.

Definition NO_NL : bytes := str "\ No newline at end of file" ++ [cNL].

(* to_file.write(line); if not line.endswith(b"\n"): to_file.write(b"\n\\ No newline at end of file\n") *)
Definition write_line (l : bytes) : bytes := if ends_nl l then l else l ++ [cNL] ++ NO_NL.

(* everything internal_diff writes to to_file (allow_binary=True: no check_text_lines) *)
Definition internal_diff (old_label : bytes) (a : list line) (new_label : bytes) (b : list line)
           (n : nat) (ops : list opcode) : bytes :=
  let ud := unified_diff_bytes a b old_label new_label n ops in
  match ud with
  | [] => []
  | _ =>
    let ud' := match a with
               | [] => map_nth2 (replace (str "-1,0") (str "-0,0")) ud
               | _ => match b with
                      | [] => map_nth2 (replace (str "+1,0") (str "+0,0")) ud
                      | _ => ud
                      end
               end in
    flat_map write_line ud' ++ [cNL]
  end.

(* ------------------------------------------------------------------ parsing *)
Inductive perr := EPatchSyntax | EMalformedPatchHeader | EBinaryFiles | EMalformedHunkHeader
                | EMalformedLine | EStop (* StopIteration inside a generator -> RuntimeError *)
                | EPanic (* Rust assert!/panic! -> PanicException *).

(* io.BytesIO(text).readlines(): split after every LF *)
Fixpoint split_lines (s : bytes) : list bytes :=
  match s with
  | [] => []
  | c :: s' => if N.eqb c cNL then [c] :: split_lines s'
               else match split_lines s' with [] => [[c]] | l :: ls => (c :: l) :: ls end
  end.

(* crates/patch/src/parse.rs iter_lines_handle_nl (the Python wrapper collects eagerly) *)
Fixpoint handle_nl (lastl : option bytes) (ls : list bytes) : perr + list bytes :=
  match ls with
  | [] => inr (match lastl with Some l => [l] | None => [] end)
  | l :: ls' =>
      if bytes_eqb l NO_NL then
        match lastl with
        | Some p => if ends_nl p then handle_nl (Some (removelast p)) ls' else inl EPanic
        | None => inl EPanic
        end
      else match lastl with
           | Some p => match handle_nl (Some l) ls' with inl e => inl e | inr r => inr (p :: r) end
           | None => handle_nl (Some l) ls'
           end
  end.
Definition iter_lines_handle_nl (ls : list bytes) : perr + list bytes := handle_nl None ls.

Fixpoint strip_prefix (p s : bytes) : option bytes :=
  match p, s with
  | [], _ => Some s
  | x :: p', y :: s' => if N.eqb x y then strip_prefix p' s' else None
  | _ :: _, [] => None
  end.
Definition strip_nl (s : bytes) : option bytes :=
  if ends_nl s then Some (removelast s) else None.

(* name \t timestamp *)
Definition split_name (s : bytes) : option (bytes * option bytes) :=
  match split1 cTAB s with
  | [nm] => Some (nm, None)
  | [nm; ts] => Some (nm, Some ts)
  | _ => None
  end.

(* get_patch_names: returns the names and the remaining lines.
   The Binary-files regex is approximated by its fixed prefix. *)
Definition get_patch_names (ls : list bytes)
  : perr + ((bytes * option bytes) * (bytes * option bytes) * list bytes) :=
  match ls with
  | [] => inl EPatchSyntax
  | l1 :: ls1 =>
    if prefixb (str "Binary files ") l1 then inl EBinaryFiles else
    match strip_prefix (str "--- ") l1 with
    | None => inl EMalformedPatchHeader
    | Some r1 =>
      match strip_nl r1 with
      | None => inl EPatchSyntax
      | Some nm1 =>
        match split_name nm1 with
        | None => inl EMalformedPatchHeader
        | Some o =>
          match ls1 with
          | [] => inl EPatchSyntax
          | l2 :: ls2 =>
            match strip_prefix (str "+++ ") l2 with
            | None => inl EMalformedPatchHeader
            | Some r2 =>
              match strip_nl r2 with
              | None => inl EPatchSyntax
              | Some nm2 =>
                match split_name nm2 with
                | None => inl EPatchSyntax
                | Some m => inr (o, m, ls2)
                end
              end
            end
          end
        end
      end
    end
  end.

(* parse_range: "p" -> (p, 1); "p,r[,...]" -> (p, r) *)
Definition parse_range (s : bytes) : option (nat * nat) :=
  match split1 cCOMMA s with
  | [p] => match parse_nat p with Some pv => Some (pv, 1) | None => None end
  | p :: r :: _ => match parse_nat p, parse_nat r with Some pv, Some rv => Some (pv, rv) | _, _ => None end
  | [] => None
  end.

(* longest prefix without byte c, and the rest *)
Fixpoint span_not (c : N) (s : bytes) : bytes * bytes :=
  match s with
  | [] => ([], [])
  | x :: s' => if N.eqb x c then ([], s) else let (p, r) := span_not c s' in (x :: p, r)
  end.

(* hunk_from_header: re.match of  @@ <no at-signs> @@< tail>?LF  (group 1 = the ranges, group 3 = tail) and the range parsing *)
Definition hunk_from_header (l : bytes) : perr + hunk :=
  match strip_prefix (str "@@ ") l with
  | None => inl EMalformedHunkHeader
  | Some s =>
    let (g1x, rest) := span_not cAT s in
    match strip_prefix [cAT; cAT] rest with
    | None => inl EMalformedHunkHeader
    | Some rest2 =>
      match rev g1x with
      | sp :: g1r =>
        if negb (N.eqb sp cSP) then inl EMalformedHunkHeader else
        let g1 := rev g1r in
        let tail_ok : option (option bytes) :=
            match rest2 with
            | c :: r3 =>
                if N.eqb c cNL then Some None
                else if N.eqb c cSP then
                       let (t, r4) := span_not cNL r3 in
                       match r4 with _ :: _ => Some (Some t) | [] => None end
                     else None
            | [] => None
            end in
        match tail_ok with
        | None => inl EMalformedHunkHeader
        | Some tl =>
          match split1 cSP g1 with
          | [orig; mod_] =>
            match orig, mod_ with
            | oc :: orig', mc :: mod' =>
              if N.eqb oc cMINUS && N.eqb mc cPLUS then
                match parse_range orig', parse_range mod' with
                | Some (op_, or_), Some (mp, mr) => inr (Hunk op_ or_ mp mr tl [])
                | _, _ => inl EMalformedHunkHeader
                end
              else inl EMalformedHunkHeader
            | _, _ => inl EMalformedHunkHeader
            end
          | _ => inl EMalformedHunkHeader
          end
        end
      | [] => inl EMalformedHunkHeader
      end
    end
  end.

Definition parse_line (l : bytes) : perr + hline :=
  match l with
  | c :: r => if N.eqb c cNL then inr (Ctx l)
              else if N.eqb c cSP then inr (Ctx r)
              else if N.eqb c cPLUS then inr (Ins r)
              else if N.eqb c cMINUS then inr (Rem r)
              else inl EMalformedLine
  | [] => inl EMalformedLine
  end.

(* iter_hunks as a state machine over the lines:
   PHead p    -- at the top of the for loop, [p] = the not yet yielded hunk
   PRead h ro rm -- inside the while loop; ro/rm = lines still missing on each side; h's lines reversed *)
Inductive pstate := PHead (p : option hunk) | PRead (h : hunk) (ro rm : nat).

Definition with_lines (h : hunk) (ls : list hline) : hunk :=
  Hunk (orig_pos h) (orig_range h) (mod_pos h) (mod_range h) (htail h) ls.
Definition after_line (h : hunk) (ro rm : nat) : pstate :=
  if Nat.eqb ro 0 && Nat.eqb rm 0 then PHead (Some (with_lines h (rev (hlines h)))) else PRead h ro rm.
Definition opt_cons {A} (o : option A) (r : list A * option perr) : list A * option perr :=
  match o with Some x => (x :: fst r, snd r) | None => r end.

(* returns the hunks yielded before the generator stopped, and the error it stopped with (if any) *)
Fixpoint hunks_loop (ls : list bytes) (st : pstate) : list hunk * option perr :=
  match ls with
  | [] => match st with
          | PHead p => opt_cons p ([], None)
          | PRead _ _ _ => ([], Some EStop)
          end
  | l :: ls' =>
      match st with
      | PHead p =>
          if bytes_eqb l [cNL] then opt_cons p (hunks_loop ls' (PHead None))
          else opt_cons p
                 match hunk_from_header l with
                 | inl e => ([], Some e)
                 | inr h => hunks_loop ls' (after_line h (orig_range h) (mod_range h))
                 end
      | PRead h ro rm =>
          match parse_line l with
          | inl e => ([], Some e)
          | inr hl =>
              let h' := with_lines h (hl :: hlines h) in
              match hl with
              | Ctx _ => hunks_loop ls' (after_line h' (pred ro) (pred rm))
              | Rem _ => hunks_loop ls' (after_line h' (pred ro) rm)
              | Ins _ => hunks_loop ls' (after_line h' ro (pred rm))
              end
          end
      end
  end.
Definition iter_hunks (ls : list bytes) : list hunk * option perr := hunks_loop ls (PHead None).

(* parse_patch(lines) (text patches only) *)
Definition parse_patch (ls : list bytes) : perr + patch :=
  match iter_lines_handle_nl ls with
  | inl e => inl e
  | inr ls1 =>
    match get_patch_names ls1 with
    | inl e => inl e
    | inr (o, m, ls2) =>
      match iter_hunks ls2 with
      | (hs, None) => inr (Patch (fst o) (snd o) (fst m) (snd m) hs)
      | (_, Some e) => inl e
      end
    end
  end.

(* ------------------------------------------------------------------ serialising: Patch.as_bytes *)
Definition range_str (pos rng : nat) : bytes :=
  if Nat.eqb rng 1 then dec pos else dec pos ++ [cCOMMA] ++ dec rng.
Definition hunk_header (h : hunk) : bytes :=
  str "@@ -" ++ range_str (orig_pos h) (orig_range h) ++ str " +" ++ range_str (mod_pos h) (mod_range h)
  ++ str " @@" ++ match htail h with None => [] | Some t => cSP :: t end ++ [cNL].
Definition get_str (lead : N) (c : bytes) : bytes :=
  lead :: c ++ (if ends_nl c then [] else cNL :: NO_NL).
Definition hline_bytes (h : hline) : bytes :=
  match h with Ctx c => get_str cSP c | Ins c => get_str cPLUS c | Rem c => get_str cMINUS c end.
Definition hunk_bytes (h : hunk) : bytes := hunk_header h ++ flat_map hline_bytes (hlines h).
Definition headerline (start name : bytes) (ts : option bytes) : bytes :=
  start ++ [cSP] ++ name ++ match ts with Some t => cTAB :: t | None => [] end ++ [cNL].
Definition patch_bytes (p : patch) : bytes :=
  headerline (str "---") (oldname p) (oldts p) ++ headerline (str "+++") (newname p) (newts p)
  ++ flat_map hunk_bytes (hunks p).

(* Patch.stats_values *)
Definition count_ins (hl : list hline) : nat :=
  length (filter (fun h => match h with Ins _ => true | _ => false end) hl).
Definition count_rem (hl : list hline) : nat :=
  length (filter (fun h => match h with Rem _ => true | _ => false end) hl).
Definition stats (hs : list hunk) : nat * nat * nat :=
  (fold_right (fun h s => count_ins (hlines h) + s) 0 hs,
   fold_right (fun h s => count_rem (hlines h) + s) 0 hs,
   length hs).

(* ------------------------------------------------------------------ applying: iter_patched_from_hunks *)
Inductive aerr := AConflict (line_no : nat)   (* raise PatchConflict(line_no, ...): a mismatching line, or
                                                  next(orig_lines, None) is None (the original text ended) *)
                | AParse (e : perr).           (* the hunk generator raised *)

(* the inner for loop over hunk.lines *)
Fixpoint apply_lines (hl : list hline) (rest : list line) (line_no : nat)
  : aerr + (list line * list line * nat) :=
  match hl with
  | [] => inr ([], rest, line_no)
  | Ins c :: hl' =>
      match apply_lines hl' rest line_no with
      | inl e => inl e
      | inr (out, rest', ln') => inr (c :: out, rest', ln')
      end
  | Ctx c :: hl' =>
      match rest with
      | [] => inl (AConflict line_no)
      | o :: rest1 =>
          if bytes_eqb o c then
            match apply_lines hl' rest1 (S line_no) with
            | inl e => inl e
            | inr (out, rest', ln') => inr (o :: out, rest', ln')
            end
          else inl (AConflict line_no)
      end
  | Rem c :: hl' =>
      match rest with
      | [] => inl (AConflict line_no)
      | o :: rest1 =>
          if bytes_eqb o c then apply_lines hl' rest1 (S line_no) else inl (AConflict line_no)
      end
  end.

(* the for loop over hunks: output so far, unread original lines, line_no *)
Fixpoint apply_hunks (hs : list hunk) (rest : list line) (line_no : nat)
  : aerr + (list line * list line * nat) :=
  match hs with
  | [] => inr ([], rest, line_no)
  | h :: hs' =>
      let k := orig_pos h - line_no in          (* while line_no < hunk.orig_pos: copy one line *)
      if Nat.ltb (length rest) k then inl (AConflict (line_no + length rest)) else
      match apply_lines (hlines h) (skipn k rest) (line_no + k) with
      | inl e => inl e
      | inr (out, rest1, ln1) =>
          match apply_hunks hs' rest1 ln1 with
          | inl e => inl e
          | inr (out2, rest2, ln2) => inr (firstn k rest ++ out ++ out2, rest2, ln2)
          end
      end
  end.

(* iter_patched_from_hunks(orig_lines, hunks), forced with list() *)
Definition apply (orig : list line) (hs : list hunk) : aerr + list line :=
  match apply_hunks hs orig 1 with
  | inl e => inl e
  | inr (out, rest, _) => inr (out ++ rest)
  end.

(* the same when the hunk generator stops with an error after yielding [hs] *)
Definition apply_partial (orig : list line) (r : list hunk * option perr) : aerr + list line :=
  match snd r with
  | None => apply orig (fst r)
  | Some e => match apply_hunks (fst r) orig 1 with inl e' => inl e' | inr _ => inl (AParse e) end
  end.

(* iter_patched(orig_lines, patch_lines) *)
Definition iter_patched (orig : list line) (patch_lines : list bytes) : aerr + list line :=
  match iter_lines_handle_nl patch_lines with
  | inl e => inl (AParse e)
  | inr ls1 =>
    match get_patch_names ls1 with
    | inl e => inl (AParse e)
    | inr (_, _, ls2) => apply_partial orig (iter_hunks ls2)
    end
  end.

(* ------------------------------------------------------------------ observations *)
Open Scope string_scope.
Definition perr_obs (e : perr) : obs :=
  OE match e with
     | EPatchSyntax => "PatchSyntax" | EMalformedPatchHeader => "MalformedPatchHeader"
     | EBinaryFiles => "BinaryFiles" | EMalformedHunkHeader => "MalformedHunkHeader"
     | EMalformedLine => "MalformedLine" | EStop => "RuntimeError" | EPanic => "PanicException"
     end.
Definition ares_obs (r : aerr + list line) : obs :=
  match r with
  | inr ls => olist OB ls
  | inl (AConflict ln) => OL [OE "PatchConflict"; onat ln]
  | inl (AParse e) => perr_obs e
  end.
Definition hline_obs (h : hline) : obs :=
  match h with Ctx c => OL [OT "ctx"; OB c] | Ins c => OL [OT "ins"; OB c] | Rem c => OL [OT "rem"; OB c] end.
Definition hunk_obs (h : hunk) : obs :=
  OL [onat (orig_pos h); onat (orig_range h); onat (mod_pos h); onat (mod_range h);
      oopt OB (htail h); olist hline_obs (hlines h)].
Definition stats_obs (s : nat * nat * nat) : obs :=
  OL [onat (fst (fst s)); onat (snd (fst s)); onat (snd s)].
Definition patch_obs (r : perr + patch) : obs :=
  match r with
  | inl e => perr_obs e
  | inr p => OL [OB (oldname p); oopt OB (oldts p); OB (newname p); oopt OB (newts p);
                 olist hunk_obs (hunks p); stats_obs (stats (hunks p)); OB (patch_bytes p);
                 (* the re-serialised patch parses to ... *)
                 match parse_patch (split_lines (patch_bytes p)) with
                 | inl e => perr_obs e
                 | inr p2 => olist hunk_obs (hunks p2)
                 end]
  end.

Definition lbl_old : bytes := str "old".
Definition lbl_new : bytes := str "new".

(* kind "diff": the diff text, its application to a, its parse *)
Definition run_diff (a b : list line) (ops : list opcode) (n : nat) : obs :=
  let d := internal_diff lbl_old a lbl_new b n ops in
  match d with
  | [] => OL [OB []]
  | _ => OL [OB d; ares_obs (iter_patched a (split_lines d)); patch_obs (parse_patch (split_lines d))]
  end.

(* kind "perturb": the diff of (a,b) applied to another text a2 *)
Definition run_perturb (a b : list line) (ops : list opcode) (n : nat) (a2 : list line) : obs :=
  let d := internal_diff lbl_old a lbl_new b n ops in
  OL [ares_obs (iter_patched a2 (split_lines d))].

(* kind "parse": arbitrary patch lines *)
Definition run_parse (orig : list line) (ls : list bytes) : obs :=
  OL [ares_obs (iter_patched orig ls); patch_obs (parse_patch ls)].

(* kind "groups": the matcher's own grouping against the model's *)
Definition opcode_obs (o : opcode) : obs :=
  OL [OT match otag o with TEqual => "equal" | TReplace => "replace" | TDelete => "delete" | TInsert => "insert" end;
      onat (oi1 o); onat (oi2 o); onat (oj1 o); onat (oj2 o)].
Definition run_groups (a b : list line) (ops : list opcode) (n : nat) : obs :=
  OL [obool (valid_opcodes a b ops); olist (olist opcode_obs) (group_opcodes n ops)].
