(* Model/LockDir.v -- hand model of breezy/lockdir.py (LockDir) over an abstract
   transport, plus the dead-holder predicate of src/lockdir.rs.

   Shared state  = the lock directory on the transport: [held] (the directory
   <lock>/held, with or without an info file) and the temporary directories
   <lock>/*.tmp.  Every locker is a program-counter machine; ONE step of a
   locker = ONE transport operation (mkdir, put_bytes_non_atomic, rename,
   get_bytes, delete, rmdir, delete_tree) followed by the purely local code up
   to the next transport operation.  A schedule is a list of locker ids
   (Lib/SchedLD.v).  A locker that is never scheduled again has crashed at that
   point, so "every crash prefix" = "every schedule".

   What each definition mirrors is written beside it.  No proofs here. *)
From Coq Require Import NArith ZArith List Bool String Arith.
From BV Require Import Lib.Obs Lib.SchedLD.
Import ListNotations.
Open Scope list_scope.

(* ---------------------------------------------------------------- data -- *)

(* nonce = rand_chars(20) in LockHeldInfo.for_this_process: unique by
   construction -- (owner locker, per-locker counter). *)
Definition nonce := (nat * nat)%type.
Definition nonce_eqb (a b : nonce) : bool :=
  Nat.eqb (fst a) (fst b) && Nat.eqb (snd a) (snd b).

(* the identity fields of LockHeldInfo (hostname, user, pid); host 0 = "localhost" *)
Record hinfo := { h_host : option N; h_user : option N; h_pid : option N }.
Definition optN_eqb (a b : option N) : bool :=
  match a, b with Some x, Some y => N.eqb x y | None, None => true | _, _ => false end.
Definition hinfo_eqb (a b : hinfo) : bool :=
  optN_eqb (h_host a) (h_host b) && optN_eqb (h_user a) (h_user b) && optN_eqb (h_pid a) (h_pid b).

(* content of an info file: a well-formed LockHeldInfo, an empty file (parses to
   the default LockHeldInfo, bug 185013), or bytes that do not parse (LockCorrupt) *)
Inductive content := CInfo (n : nonce) (h : hinfo) | CEmpty | CCorrupt (tag : N).
Definition content_eqb (a b : content) : bool :=
  match a, b with
  | CInfo n h, CInfo n' h' => nonce_eqb n n' && hinfo_eqb h h'
  | CEmpty, CEmpty => true
  | CCorrupt x, CCorrupt y => N.eqb x y
  | _, _ => false
  end.
Definition readable (c : content) : bool := match c with CCorrupt _ => false | _ => true end.
Definition nonce_of (c : content) : option nonce := match c with CInfo n _ => Some n | _ => None end.

(* a directory: does it contain an info file? *)
Definition dir := option content.

Inductive tkind := Pending | Releasing | Broken.
Definition tkind_eqb (a b : tkind) : bool :=
  match a, b with Pending, Pending | Releasing, Releasing | Broken, Broken => true | _, _ => false end.
(* temporary directory name "<rand>.tmp": (kind, creating locker, per-locker counter) -- fresh by construction *)
Definition tname := (tkind * nat * nat)%type.
Definition tname_eqb (a b : tname) : bool :=
  tkind_eqb (fst (fst a)) (fst (fst b)) && Nat.eqb (snd (fst a)) (snd (fst b)) && Nat.eqb (snd a) (snd b).
Definition t_owner (t : tname) : nat := snd (fst t).

Definition tmap := tname -> option dir.
Definition tset (m : tmap) (t : tname) (v : option dir) : tmap :=
  fun u => if tname_eqb u t then v else m u.

(* ------------------------------------------------- transport operations -- *)

Inductive op :=
| OMkdir (t : tname)                 (* transport.mkdir(tmpname) *)
| OPut (t : tname) (c : content)     (* transport.put_bytes_non_atomic(tmpname/info, ...) *)
| ORenIn (t : tname)                 (* transport.rename(tmpname, held) *)
| ORenOut (t : tname)                (* transport.rename(held, tmpname) *)
| OGetHeld                           (* transport.get_bytes(held/info) *)
| OGetTmp (t : tname)                (* transport.get_bytes(tmpname/info) *)
| ODelete (t : tname)                (* transport.delete(tmpname/info) *)
| ORmdir (t : tname)                 (* transport.rmdir(tmpname) *)
| ODelTree (t : tname).              (* transport.delete_tree(tmpname) *)

Inductive ores :=
| RDone | RGot (c : content)
| RNoSuch       (* NoSuchFile *)
| RExists       (* FileExists / DirectoryNotEmpty from rename *)
| RNotEmpty     (* DirectoryNotEmpty from rmdir *)
| RFault.       (* injected TransportError (not a PathError); the operation has no effect *)

(* Environment model (dromedary MemoryTransport / LocalTransport as exercised):
   rename of a directory onto an existing NON-EMPTY directory fails; temporary
   names never collide (fresh-name supply), so mkdir/rename-out never hit an
   existing name.  [mem] = dromedary MemoryTransport, whose rename of a MISSING
   source directory silently does nothing (LocalTransport raises NoSuchFile). *)
Definition exec_op (mem : bool) (o : op) (held : option dir) (tm : tmap) : option dir * tmap * ores :=
  match o with
  | OMkdir t => (held, tset tm t (Some None), RDone)
  | OPut t c => match tm t with
                | Some _ => (held, tset tm t (Some (Some c)), RDone)
                | None => (held, tm, RNoSuch)
                end
  | ORenIn t => match tm t with
                | None => (held, tm, RNoSuch)
                | Some d => match held with
                            | Some (Some _) => (held, tm, RExists)
                            | _ => (Some d, tset tm t None, RDone)
                            end
                end
  | ORenOut t => match held with
                 | None => (held, tm, if mem then RDone else RNoSuch)
                 | Some d => (None, tset tm t (Some d), RDone)
                 end
  | OGetHeld => match held with
                | Some (Some c) => (held, tm, RGot c)
                | _ => (held, tm, RNoSuch)
                end
  | OGetTmp t => match tm t with
                 | Some (Some c) => (held, tm, RGot c)
                 | _ => (held, tm, RNoSuch)
                 end
  | ODelete t => match tm t with
                 | Some (Some _) => (held, tset tm t (Some None), RDone)
                 | _ => (held, tm, RNoSuch)
                 end
  | ORmdir t => match tm t with
                | Some None => (held, tset tm t None, RDone)
                | Some (Some _) => (held, tm, RNotEmpty)
                | None => (held, tm, RNoSuch)
                end
  | ODelTree t => match tm t with
                  | Some _ => (held, tset tm t None, RDone)
                  | None => (held, tm, RNoSuch)
                  end
  end.

(* --------------------------------------------------------- the lockers -- *)

Inductive err :=
| ELockContention | ELockFailed | ELockBroken | ELockNotHeld | ELockBreakMismatch
| ELockCorrupt | ENoSuchFile | EFileExists | EDirNotEmpty | EFault | EAssertion | EMisuse.

Inductive res :=
| ROk                          (* returned normally *)
| RErr (e : err)               (* raised *)
| RSaw (c : option content)    (* result of peek() *)
| RSkip.                       (* the driver did not call anything (nothing to break) *)

(* what each locker's driver does, in order *)
Inductive cmd :=
| Attempt        (* ld.attempt_lock()   (only called when not ld.is_held) *)
| Unlock         (* ld.unlock() *)
| Confirm        (* ld.confirm() *)
| Peek           (* saved = ld.peek()   (LockCorrupt: saved = e.file_data) *)
| ForceBreak     (* ld.force_break(saved)           if saved is a LockHeldInfo *)
| BreakCorrupt   (* ld.force_break_corrupt(saved)   if the peek raised LockCorrupt *)
| Crash.         (* the process dies between two operations *)

(* per-locker constants: identity that is_lock_holder_known_dead compares with,
   the pids known to be dead, the locks.steal_dead configuration *)
Record env := { e_host : N; e_user : N; e_dead : list N; e_steal : bool }.

(* src/lockdir.rs LockHeldInfo::is_lock_holder_known_dead, test by test *)
Definition known_dead (e : env) (c : content) : bool :=
  match c with
  | CInfo _ h =>
      match h_host h with
      | None => false
      | Some hh =>
          if negb (N.eqb hh (e_host e)) then false        (* hostname != ours *)
          else if N.eqb hh 0 then false                   (* "localhost": too ambiguous *)
          else match h_user h with
               | None => false
               | Some u =>
                   if negb (N.eqb u (e_user e)) then false   (* another user *)
                   else match h_pid h with
                        | None => false                       (* no pid recorded *)
                        | Some pd => existsb (N.eqb pd) (e_dead e)   (* is_local_pid_dead *)
                        end
               end
      end
  | _ => false     (* default LockHeldInfo (empty file): hostname None *)
  end.

(* force_break is reached from the driver or from _handle_lock_contention (steal) *)
Inductive bctx := FromCmd | FromAttempt (pend : nat).   (* pend: counter of the pending dir's name *)

Inductive pc :=
| Idle | Dead
(* _attempt_lock / _create_pending_dir / _remove_pending_dir; i: the pending dir is (Pending, self, i) *)
| A_mkdir | A_put (i : nat) | A_rename (i : nat) | A_check | A_peek (i : nat)
| A_rm_delete (i : nat) (e : err) | A_rm_rmdir (i : nat) (e : err)
(* unlock; i: the releasing dir is (Releasing, self, i) *)
| U_confirm | U_rename | U_delete (i : nat) | U_rmdir (i : nat) | U_deltree (i : nat)
(* confirm, peek *)
| C_peek | P_peek
(* force_break(d); i: the broken dir is (Broken, self, i) *)
| B_peek (x : bctx) (d : content) | B_rename (x : bctx) (d : content)
| B_read (x : bctx) (d : content) (i : nat) | B_delete (x : bctx) (i : nat) | B_rmdir (x : bctx) (i : nat)
(* force_break_corrupt(c) *)
| K_rename (c : content) | K_read (c : content) (i : nat) | K_delete (i : nat) | K_rmdir (i : nat).

Record lstate := {
  l_prog : list cmd;            (* rest of the driver's program *)
  l_pc : pc;
  l_held : bool;                (* LockDir._lock_held *)
  l_nonce : option nonce;       (* LockDir.nonce *)
  l_k : nat;                    (* nonce supply *)
  l_t : nat;                    (* tmp-name supply *)
  l_peeked : option (option content);   (* the driver's saved peek result *)
  l_log : list res;             (* results of the finished commands, newest first *)
  l_fault : option nat;         (* Some k: the k-th next transport operation raises *)
  l_wid : hinfo;                (* identity written by LockHeldInfo.for_this_process *)
  l_env : env;
  l_eb : nat; l_ep : nat        (* ghost: acquisition epoch at the last force_break peek / driver peek *)
}.

Definition upd (l : lstate) (c : pc) (hd : bool) (nn : option nonce) (k t : nat)
           (pk : option (option content)) (lg : list res) : lstate :=
  {| l_prog := l_prog l; l_pc := c; l_held := hd; l_nonce := nn; l_k := k; l_t := t;
     l_peeked := pk; l_log := lg; l_fault := l_fault l; l_wid := l_wid l; l_env := l_env l;
     l_eb := l_eb l; l_ep := l_ep l |}.
Definition set_pc (l : lstate) (c : pc) : lstate :=
  upd l c (l_held l) (l_nonce l) (l_k l) (l_t l) (l_peeked l) (l_log l).
Definition set_pc_t (l : lstate) (c : pc) : lstate :=     (* a tmp name was consumed *)
  upd l c (l_held l) (l_nonce l) (l_k l) (S (l_t l)) (l_peeked l) (l_log l).
Definition logr (l : lstate) (r : res) : lstate :=
  upd l Idle (l_held l) (l_nonce l) (l_k l) (l_t l) (l_peeked l) (r :: l_log l).
Definition set_prog (l : lstate) (pr : list cmd) : lstate :=
  {| l_prog := pr; l_pc := l_pc l; l_held := l_held l; l_nonce := l_nonce l; l_k := l_k l; l_t := l_t l;
     l_peeked := l_peeked l; l_log := l_log l; l_fault := l_fault l; l_wid := l_wid l; l_env := l_env l;
     l_eb := l_eb l; l_ep := l_ep l |}.

(* The driver: start the next command.  Commands that perform no transport
   operation complete at once (LockNotHeld, "can't break own lock", nothing to break). *)
Fixpoint dispatch (prog : list cmd) (l : lstate) : lstate :=
  match prog with
  | [] => set_prog (set_pc l Idle) []
  | c :: rest =>
      match c with
      | Attempt => if l_held l then dispatch rest (logr l (RErr EMisuse))
                   else set_prog (set_pc l A_mkdir) rest
      | Unlock => if l_held l then set_prog (set_pc l U_confirm) rest      (* "if not self._lock_held: cant_unlock_not_held" *)
                  else dispatch rest (logr l (RErr ELockNotHeld))
      | Confirm => if l_held l then set_prog (set_pc l C_peek) rest         (* "if not self._lock_held: raise LockNotHeld" *)
                   else dispatch rest (logr l (RErr ELockNotHeld))
      | Peek => set_prog (set_pc l P_peek) rest
      | ForceBreak =>
          match l_peeked l with
          | Some (Some d) =>
              if readable d then
                if l_held l then dispatch rest (logr l (RErr EAssertion))    (* _check_not_locked *)
                else set_prog (set_pc l (B_peek FromCmd d)) rest
              else dispatch rest (logr l RSkip)
          | _ => dispatch rest (logr l RSkip)
          end
      | BreakCorrupt =>
          match l_peeked l with
          | Some (Some d) =>
              if readable d then dispatch rest (logr l RSkip)
              else if l_held l then dispatch rest (logr l (RErr EAssertion))
              else set_prog (set_pc l (K_rename d)) rest
          | _ => dispatch rest (logr l RSkip)
          end
      | Crash => set_prog (set_pc l Dead) []
      end
  end.

(* the current command finished with result r *)
Definition finish (l : lstate) (r : res) : lstate := dispatch (l_prog l) (logr l r).

(* an exception e inside force_break: propagates (driver) or, inside
   _attempt_lock's "except BaseException", first _remove_pending_dir(tmpname) *)
Definition fail_in (x : bctx) (e : err) (l : lstate) : lstate :=
  match x with
  | FromCmd => finish l (RErr e)
  | FromAttempt t => set_pc l (A_rm_delete t e)
  end.
(* force_break returned *)
Definition done_in (x : bctx) (l : lstate) : lstate :=
  match x with
  | FromCmd => finish l ROk
  | FromAttempt t => set_pc l (A_rename t)      (* "stole lock from dead holder"; loop: rename again *)
  end.

Definition perr (r : ores) : err :=
  match r with RNoSuch => ENoSuchFile | RExists => EFileExists | RNotEmpty => EDirNotEmpty | _ => EFault end.

(* the transport operation the locker performs next (p = its id) *)
Definition next_op (p : nat) (l : lstate) : option op :=
  match l_pc l with
  | Idle | Dead => None
  | A_mkdir => Some (OMkdir (Pending, p, l_t l))
  | A_put i => Some (OPut (Pending, p, i) (CInfo (p, l_k l) (l_wid l)))
  | A_rename i => Some (ORenIn (Pending, p, i))
  | A_check | A_peek _ | U_confirm | C_peek | P_peek | B_peek _ _ => Some OGetHeld
  | A_rm_delete i _ => Some (ODelete (Pending, p, i))
  | A_rm_rmdir i _ => Some (ORmdir (Pending, p, i))
  | U_rename => Some (ORenOut (Releasing, p, l_t l))
  | U_delete i => Some (ODelete (Releasing, p, i))
  | U_rmdir i => Some (ORmdir (Releasing, p, i))
  | U_deltree i => Some (ODelTree (Releasing, p, i))
  | B_rename _ _ | K_rename _ => Some (ORenOut (Broken, p, l_t l))
  | B_read _ _ i | K_read _ i => Some (OGetTmp (Broken, p, i))
  | B_delete _ i | K_delete i => Some (ODelete (Broken, p, i))
  | B_rmdir _ i | K_rmdir i => Some (ORmdir (Broken, p, i))
  end.

Definition own (l : lstate) (c : content) : bool :=     (* "info.nonce == self.nonce" *)
  match c, l_nonce l with
  | CInfo n _, Some m => nonce_eqb n m
  | _, _ => false
  end.

(* the local code that follows the operation, given its outcome *)
Definition react (p : nat) (l : lstate) (r : ores) : lstate :=
  match l_pc l with
  | Idle | Dead => l
  (* _create_pending_dir: mkdir; info = for_this_process; self.nonce = info.nonce; put info *)
  | A_mkdir =>
      match r with
      | RDone => upd l (A_put (l_t l)) (l_held l) (Some (p, l_k l)) (l_k l) (S (l_t l)) (l_peeked l) (l_log l)
      | _ => finish (set_pc_t l Idle) (RErr ELockFailed)
      end
  | A_put t =>
      match r with
      | RDone => upd l (A_rename t) (l_held l) (l_nonce l) (S (l_k l)) (l_t l) (l_peeked l) (l_log l)
      | _ => finish (upd l Idle (l_held l) (l_nonce l) (S (l_k l)) (l_t l) (l_peeked l) (l_log l)) (RErr ELockFailed)
      end
  (* while True: try: rename(tmpname, held); break / except (TransportError, PathError, ...): peek ... *)
  | A_rename t =>
      match r with
      | RDone => set_pc l A_check
      | _ => set_pc l (A_peek t)
      end
  (* info = self.peek(); None -> LockFailed; nonce differs -> LockContention; else _lock_held = True *)
  | A_check =>
      match r with
      | RGot c =>
          if readable c then
            if own l c then finish (upd l Idle true (l_nonce l) (l_k l) (l_t l) (l_peeked l) (l_log l)) ROk
            else finish l (RErr ELockContention)
          else finish l (RErr ELockCorrupt)
      | RFault => finish l (RErr EFault)
      | _ => finish l (RErr ELockFailed)
      end
  (* other_holder = self.peek(); _handle_lock_contention(other_holder) *)
  | A_peek t =>
      match r with
      | RGot c =>
          if readable c then
            if known_dead (l_env l) c && e_steal (l_env l)
            then set_pc l (B_peek (FromAttempt t) c)              (* self.force_break(other_holder) *)
            else set_pc l (A_rm_delete t ELockContention)
          else finish l (RErr ELockCorrupt)                        (* escapes; pending dir stays *)
      | RFault => finish l (RErr EFault)
      | _ => set_pc l (A_rm_delete t ELockContention)              (* other_holder is None *)
      end
  (* _remove_pending_dir: delete info; rmdir; "except PathError: note(...)"; then re-raise e *)
  | A_rm_delete t e =>
      match r with
      | RDone => set_pc l (A_rm_rmdir t e)
      | RFault => finish l (RErr EFault)
      | _ => finish l (RErr e)
      end
  | A_rm_rmdir t e =>
      match r with
      | RFault => finish l (RErr EFault)
      | _ => finish l (RErr e)
      end
  (* unlock: confirm(); rename(held, tmp); _lock_held = False; delete; rmdir.
     @only_raises(LockNotHeld, LockBroken): every other exception is swallowed *)
  | U_confirm =>
      match r with
      | RGot c =>
          if readable c then
            if own l c then set_pc l U_rename else finish l (RErr ELockBroken)
          else finish l ROk
      | RFault => finish l ROk
      | _ => finish l (RErr ELockBroken)
      end
  | U_rename =>
      match r with
      | RDone => upd l (U_delete (l_t l)) false (l_nonce l) (l_k l) (S (l_t l)) (l_peeked l) (l_log l)
      | _ => finish (set_pc_t l Idle) ROk
      end
  | U_delete t =>
      match r with
      | RDone => set_pc l (U_rmdir t)
      | _ => finish l ROk
      end
  | U_rmdir t =>
      match r with
      | RNotEmpty => set_pc l (U_deltree t)
      | _ => finish l ROk
      end
  | U_deltree t => finish l ROk
  (* confirm *)
  | C_peek =>
      match r with
      | RGot c =>
          if readable c then
            if own l c then finish l ROk else finish l (RErr ELockBroken)
          else finish l (RErr ELockCorrupt)
      | RFault => finish l (RErr EFault)
      | _ => finish l (RErr ELockBroken)
      end
  (* the driver's peek *)
  | P_peek =>
      match r with
      | RGot c =>
          let l' := upd l Idle (l_held l) (l_nonce l) (l_k l) (l_t l) (Some (Some c)) (l_log l) in
          if readable c then finish l' (RSaw (Some c)) else finish l' (RErr ELockCorrupt)
      | RFault => finish (upd l Idle (l_held l) (l_nonce l) (l_k l) (l_t l) None (l_log l)) (RErr EFault)
      | _ => finish (upd l Idle (l_held l) (l_nonce l) (l_k l) (l_t l) (Some None) (l_log l)) (RSaw None)
      end
  (* force_break(d): current = peek(); None -> return; != d -> LockBreakMismatch;
     rename(held, broken); broken_info = read; != d -> LockBreakMismatch; delete; rmdir *)
  | B_peek x d =>
      match r with
      | RGot c =>
          if readable c then
            if content_eqb c d then set_pc l (B_rename x d) else fail_in x ELockBreakMismatch l
          else fail_in x ELockCorrupt l
      | RFault => fail_in x EFault l
      | _ => done_in x l
      end
  | B_rename x d =>
      match r with
      | RDone => set_pc_t l (B_read x d (l_t l))
      | _ => fail_in x (perr r) (set_pc_t l (l_pc l))
      end
  | B_read x d t =>
      match r with
      | RGot c =>
          if readable c then
            if content_eqb c d then set_pc l (B_delete x t) else fail_in x ELockBreakMismatch l
          else fail_in x ELockCorrupt l
      | _ => fail_in x (perr r) l
      end
  | B_delete x t =>
      match r with
      | RDone => set_pc l (B_rmdir x t)
      | _ => fail_in x (perr r) l
      end
  | B_rmdir x t =>
      match r with
      | RDone => done_in x l
      | _ => fail_in x (perr r) l
      end
  (* force_break_corrupt(c): rename; get_bytes; != c -> LockBreakMismatch; delete; rmdir *)
  | K_rename c =>
      match r with
      | RDone => set_pc_t l (K_read c (l_t l))
      | _ => finish (set_pc_t l Idle) (RErr (perr r))
      end
  | K_read c t =>
      match r with
      | RGot c' => if content_eqb c' c then set_pc l (K_delete t) else finish l (RErr ELockBreakMismatch)
      | _ => finish l (RErr (perr r))
      end
  | K_delete t =>
      match r with
      | RDone => set_pc l (K_rmdir t)
      | _ => finish l (RErr (perr r))
      end
  | K_rmdir t =>
      match r with
      | RDone => finish l ROk
      | _ => finish l (RErr (perr r))
      end
  end.

(* ------------------------------------------------------------ the system -- *)

(* ghost history, read only by the theorems *)
Record ghost := {
  g_brk : list nonce;      (* nonces whose held directory a break step (force_break / force_break_corrupt rename) moved away *)
  g_stale : list nonce;    (* nonces moved away by an unlock rename of a locker whose own nonce was different *)
  g_live : bool;           (* a break step moved the lock of a live locker that believed it held it *)
  g_wrong : bool;          (* a break step moved a lock other than the one whose info had been examined *)
  g_acq : nat;             (* number of successful rename-into-place steps so far *)
  g_window : bool;         (* a break rename happened after an acquisition that followed the breaker's peek *)
  g_chkfault : bool        (* a transport fault hit the confirming peek that follows a successful rename *)
}.

Record sys := { s_mem : bool; s_held : option dir; s_tmps : tmap; s_procs : nat -> lstate; s_g : ghost }.

Definition pset (f : nat -> lstate) (p : nat) (l : lstate) : nat -> lstate :=
  fun q => if Nat.eqb q p then l else f q.

Definition alive (l : lstate) : bool := match l_pc l with Dead => false | _ => true end.
(* "p holds the lock" as the process itself sees it *)
Definition holds (l : lstate) : bool := l_held l && alive l.

Definition victim_live (procs : nat -> lstate) (c : content) : bool :=
  match c with
  | CInfo n _ => let lo := procs (fst n) in
                 holds lo && match l_nonce lo with Some m => nonce_eqb m n | None => false end
  | _ => false
  end.

Definition consn (c : content) (l : list nonce) : list nonce :=
  match c with CInfo n _ => n :: l | _ => l end.

Definition dec_fault (l : lstate) : lstate :=
  {| l_prog := l_prog l; l_pc := l_pc l; l_held := l_held l; l_nonce := l_nonce l; l_k := l_k l; l_t := l_t l;
     l_peeked := l_peeked l; l_log := l_log l;
     l_fault := match l_fault l with Some (S k) => Some k | _ => None end;
     l_wid := l_wid l; l_env := l_env l; l_eb := l_eb l; l_ep := l_ep l |}.
Definition faults_now (l : lstate) : bool := match l_fault l with Some 0 => true | _ => false end.

Definition set_epochs (l : lstate) (eb ep : nat) : lstate :=
  {| l_prog := l_prog l; l_pc := l_pc l; l_held := l_held l; l_nonce := l_nonce l; l_k := l_k l; l_t := l_t l;
     l_peeked := l_peeked l; l_log := l_log l; l_fault := l_fault l; l_wid := l_wid l; l_env := l_env l;
     l_eb := eb; l_ep := ep |}.

(* ghost bookkeeping for one step: [l] = the stepping locker before the step,
   [hc] = content of held/info before the step, [r] = outcome *)
Definition ghost_step (procs : nat -> lstate) (l : lstate) (hc : option content) (r : ores) (g : ghost) : ghost :=
  match l_pc l, r with
  | A_rename _, RDone =>
      {| g_brk := g_brk g; g_stale := g_stale g; g_live := g_live g; g_wrong := g_wrong g;
         g_acq := S (g_acq g); g_window := g_window g; g_chkfault := g_chkfault g |}
  | A_check, RFault =>
      {| g_brk := g_brk g; g_stale := g_stale g; g_live := g_live g; g_wrong := g_wrong g;
         g_acq := g_acq g; g_window := g_window g; g_chkfault := true |}
  | U_rename, RDone =>
      match hc with
      | Some c => if own l c then g else
          {| g_brk := g_brk g; g_stale := consn c (g_stale g); g_live := g_live g; g_wrong := g_wrong g;
             g_acq := g_acq g; g_window := g_window g; g_chkfault := g_chkfault g |}
      | None => g
      end
  | B_rename _ d, RDone =>
      match hc with
      | Some c =>
          {| g_brk := consn c (g_brk g); g_stale := g_stale g; g_live := g_live g || victim_live procs c;
             g_wrong := g_wrong g || negb (content_eqb c d);
             g_acq := g_acq g; g_window := g_window g || negb (Nat.eqb (l_eb l) (g_acq g));
             g_chkfault := g_chkfault g |}
      | None => g
      end
  | K_rename d, RDone =>
      match hc with
      | Some c =>
          {| g_brk := consn c (g_brk g); g_stale := g_stale g; g_live := g_live g || victim_live procs c;
             g_wrong := g_wrong g || negb (content_eqb c d);
             g_acq := g_acq g; g_window := g_window g || negb (Nat.eqb (l_ep l) (g_acq g));
             g_chkfault := g_chkfault g |}
      | None => g
      end
  | _, _ => g
  end.

Definition held_content (h : option dir) : option content :=
  match h with Some (Some c) => Some c | _ => None end.

(* ghost epochs: remember the acquisition count when force_break / the driver peeks *)
Definition stamp (l_before l_after : lstate) (acq : nat) : lstate :=
  match l_pc l_before with
  | B_peek _ _ => set_epochs l_after acq (l_ep l_after)
  | P_peek => set_epochs l_after (l_eb l_after) acq
  | _ => l_after
  end.

(* one atomic step of locker p *)
Definition step (p : nat) (s : sys) : sys :=
  let l := s_procs s p in
  match next_op p l with
  | None => s
  | Some o =>
      let '(h', tm', r) := if faults_now l then (s_held s, s_tmps s, RFault)
                           else exec_op (s_mem s) o (s_held s) (s_tmps s) in
      let l' := stamp l (react p (dec_fault l) r) (g_acq (s_g s)) in
      {| s_mem := s_mem s; s_held := h'; s_tmps := tm'; s_procs := pset (s_procs s) p l';
         s_g := ghost_step (s_procs s) l (held_content (s_held s)) r (s_g s) |}
  end.

Definition runs (sched : list nat) (s : sys) : sys := run step sched s.

(* ----------------------------------------------------------- initial state -- *)

Record pconf := { c_prog : list cmd; c_fault : option nat; c_wid : hinfo; c_env : env }.

Definition l0 (c : pconf) : lstate :=
  {| l_prog := []; l_pc := Idle; l_held := false; l_nonce := None; l_k := 0; l_t := 0;
     l_peeked := None; l_log := []; l_fault := c_fault c; l_wid := c_wid c; l_env := c_env c;
     l_eb := 0; l_ep := 0 |}.
Definition linit (c : pconf) : lstate := dispatch (c_prog c) (l0 c).

Definition noenv : env := {| e_host := 1; e_user := 1; e_dead := []; e_steal := false |}.
Definition nowid : hinfo := {| h_host := None; h_user := None; h_pid := None |}.
Definition idle_conf : pconf := {| c_prog := []; c_fault := None; c_wid := nowid; c_env := noenv |}.

Definition g0 : ghost :=
  {| g_brk := []; g_stale := []; g_live := false; g_wrong := false; g_acq := 0; g_window := false; g_chkfault := false |}.

(* [h0]: content of held/info left by an EXTERNAL (not modelled, e.g. dead) holder, if any *)
Definition init (mem : bool) (h0 : option content) (confs : list pconf) : sys :=
  {| s_mem := mem;
     s_held := match h0 with Some c => Some (Some c) | None => None end;
     s_tmps := fun _ => None;
     s_procs := fun p => linit (nth p confs idle_conf);
     s_g := g0 |}.

(* an external holder's nonce must not be one of ours *)
Definition ext_ok (n : nat) (h0 : option content) : bool :=
  match h0 with Some (CInfo m _) => Nat.leb n (fst m) | _ => true end.

(* ------------------------------------------------------- observations -- *)

Definition ocontent (c : content) : obs :=
  match c with
  | CInfo n _ => OL [onat (fst n); onat (snd n)]
  | CEmpty => OT "empty"
  | CCorrupt _ => OT "corrupt"
  end.
Definition odir (d : dir) : obs := match d with Some c => ocontent c | None => OT "noinfo" end.
Definition okind (k : tkind) : obs :=
  OT (match k with Pending => "pending" | Releasing => "releasing" | Broken => "broken" end)%string.

Definition oerr (e : err) : obs :=
  OE (match e with
      | ELockContention => "LockContention" | ELockFailed => "LockFailed" | ELockBroken => "LockBroken"
      | ELockNotHeld => "LockNotHeld" | ELockBreakMismatch => "LockBreakMismatch"
      | ELockCorrupt => "LockCorrupt" | ENoSuchFile => "NoSuchFile" | EFileExists => "FileExists"
      | EDirNotEmpty => "DirectoryNotEmpty" | EFault => "InjectedFault" | EAssertion => "AssertionError"
      | EMisuse => "Misuse" end)%string.
Definition ores_obs (r : res) : obs :=
  match r with
  | ROk => OT "ok" | RErr e => oerr e | RSkip => OT "skip"
  | RSaw c => OL [OT "saw"; oopt ocontent c]
  end.

(* all temporary directories, in the canonical order (locker, counter, kind) *)
Definition list_tmps (n : nat) (s : sys) : list obs :=
  flat_map (fun p =>
    flat_map (fun i =>
      flat_map (fun k => match s_tmps s (k, p, i) with
                         | Some d => [OL [okind k; onat p; onat i; odir d]]
                         | None => []
                         end) [Pending; Releasing; Broken])
      (seq 0 (l_t (s_procs s p))))
    (seq 0 n).

(* what the harness observes after every step: held, the tmp dirs, every locker's is_held *)
Definition snapshot (n : nat) (s : sys) : obs :=
  OL [ match s_held s with Some d => odir d | None => ON end;
       OL (list_tmps n s);
       OL (map (fun p => obool (l_held (s_procs s p))) (seq 0 n)) ].

Fixpoint trace (n : nat) (sched : list nat) (s : sys) : list obs * sys :=
  match sched with
  | [] => ([], s)
  | p :: rest => let s' := step p s in
                 let '(tr, sf) := trace n rest s' in (snapshot n s' :: tr, sf)
  end.

(* the property's observable: lockers with is_held whose nonce equals held/info *)
Definition observable (n : nat) (s : sys) : list nat :=
  filter (fun p => let l := s_procs s p in
                   l_held l && match held_content (s_held s) with Some c => own l c | None => false end)
         (seq 0 n).

Definition run_case (mem : bool) (h0 : option content) (confs : list pconf) (sched : list nat) : obs :=
  let n := List.length confs in
  let '(tr, sf) := trace n sched (init mem h0 confs) in
  OL [ OL tr;
       OL (map (fun p => OL (map ores_obs (rev (l_log (s_procs sf p))))) (seq 0 n));
       OL (map onat (observable n sf));
       OL [obool (g_live (s_g sf)); obool (g_wrong (s_g sf)); obool (g_chkfault (s_g sf))] ].

(* the dead-holder predicate alone, for the direct comparison with the Rust function *)
Definition run_dead (e : env) (h : hinfo) : obs := obool (known_dead e (CInfo (0, 0) h)).
