(* Model/Upload.v -- hand model of breezy/plugins/upload/cmds.py (BzrUploader)
   for C43.  No proofs here.

   The uploader is modelled as a COMPILER from a pair of revision trees to a
   program of uploader-level commands (one constructor per BzrUploader helper
   method) and an INTERPRETER of those commands over the abstract remote file
   system of Lib/FS43.v:

     upload_incremental old new  ~  BzrUploader.upload_tree  (incremental branch)
     upload_full new             ~  BzrUploader.upload_full_tree
     exec_cmd                    ~  upload_file, delete_remote_file, delete_remote_dir,
                                    delete_remote_dir_maybe, finish_deletions, rename_remote,
                                    finish_renames, make_remote_dir, upload_symlink,
                                    _force_clear / *_robustly, set_uploaded_revid
     delta                       ~  breezy/delta.py:_compare_trees (classification + sort keys)

   Environment (outside /repo, validated by the correspondence run): transport
   operations (Lib/FS43.v); Tree.iter_changes (what changed, by file id);
   iter_entries_by_dir order ([by_dir]); Globster/ignore-file parsing for
   plain-name patterns ([is_ignored]: some segment of the path is a pattern);
   temporary names are fresh ("we *assume* that no collisions will occur").  *)
From Coq Require Import NArith ZArith List Bool Arith String.
From BV Require Import Lib.Bytes Lib.Obs Lib.FS43.
Import ListNotations.
Open Scope list_scope.

(* ---------- revision trees ---------- *)
Record entry := mkent { eid : N; epath : path; enode : node }.
(* tign: the patterns of the tree's .bzrignore-upload (plain names) *)
Record tree := mktree { ents : list entry; tign : list name }.

Definition find_id (t : tree) (i : N) : option entry :=
  find (fun e => N.eqb (eid e) i) (ents t).
Definition find_path (t : tree) (p : path) : option entry :=
  find (fun e => path_eqb (epath e) p) (ents t).
Definition tlook (t : tree) (p : path) : option node :=
  match find_path t p with Some e => Some (enode e) | None => None end.

(* file id of the parent directory (0 = tree root) and basename *)
Definition parent_id (t : tree) (p : path) : N :=
  match parent p with
  | [] => 0%N
  | q => match find_path t q with Some e => eid e | None => 0%N end
  end.
Definition basename (p : path) : name := last p NIgn.

(* BzrUploader.is_ignored: the path or one of its parents matches a pattern *)
Definition is_ignored (t : tree) (p : path) : bool :=
  existsb (fun n => existsb (name_eqb n) (tign t)) p.

Definition kind_eqb (a b : node) : bool :=
  match a, b with
  | File _ _, File _ _ | Dir, Dir | Link _, Link _ => true
  | _, _ => false
  end.
(* InventoryTree iter_changes: changed_content *)
Definition changed_content (a b : node) : bool :=
  match a, b with
  | File c1 _, File c2 _ => negb (bytes_eqb c1 c2)
  | Link t1, Link t2 => negb (name_eqb t1 t2)
  | Dir, Dir => false
  | _, _ => true
  end.
Definition exec_of (n : node) : bool := match n with File _ x => x | _ => false end.
(* Tree.get_file_text on a non-file yields the empty string *)
Definition text_of (n : node) : bytes := match n with File c _ => c | _ => [] end.

(* ---------- delta.py:_compare_trees ---------- *)
Record change := mkch { c_old : entry; c_new : entry }.

Definition is_renamed (old new : tree) (e e' : entry) : bool :=
  negb (name_eqb (basename (epath e)) (basename (epath e')))
  || negb (N.eqb (parent_id old (epath e)) (parent_id new (epath e'))).

Definition pairs (old new : tree) : list change :=
  flat_map (fun e => match find_id new (eid e) with
                     | Some e' => [mkch e e'] | None => [] end) (ents old).

Definition d_removed (old new : tree) : list entry :=
  sort_by epath (filter (fun e => negb (isSome (find_id new (eid e)))) (ents old)).
Definition d_added (old new : tree) : list entry :=
  sort_by epath (filter (fun e => negb (isSome (find_id old (eid e)))) (ents new)).
Definition d_renamed (old new : tree) : list change :=
  sort_by (fun c => epath (c_old c))
    (filter (fun c => is_renamed old new (c_old c) (c_new c)) (pairs old new)).
Definition d_kind_changed (old new : tree) : list change :=
  sort_by (fun c => epath (c_old c))
    (filter (fun c => negb (is_renamed old new (c_old c) (c_new c))
                      && negb (kind_eqb (enode (c_old c)) (enode (c_new c)))) (pairs old new)).
Definition d_modified (old new : tree) : list change :=
  sort_by (fun c => epath (c_old c))
    (filter (fun c => negb (is_renamed old new (c_old c) (c_new c))
                      && kind_eqb (enode (c_old c)) (enode (c_new c))
                      && (changed_content (enode (c_old c)) (enode (c_new c))
                          || negb (Bool.eqb (exec_of (enode (c_old c))) (exec_of (enode (c_new c))))))
            (pairs old new)).

(* ---------- uploader commands ---------- *)
Inductive cmd :=
| UploadFile (p : path) (c : bytes) (x : bool)      (* upload_file -> put_bytes *)
| DeleteFile (p : path)                             (* delete_remote_file *)
| DeleteDir (p : path)                              (* delete_remote_dir *)
| DeleteDirMaybe (p : path)                         (* delete_remote_dir_maybe *)
| FinishDeletions
| RenameRemote (o n : path)                         (* rename_remote *)
| FinishRenames
| MakeDir (p : path)                                (* make_remote_dir *)
| Symlink (src link : path)                         (* upload_symlink(link, src) *)
| UploadFileRobust (p : path) (c : bytes) (x : bool)
| SymlinkRobust (link : path) (t : name)
| MakeDirRobust (p : path)
| SetRevid (k : N)                                  (* set_uploaded_revid *)
| Raise (e : err).

Record ust := mkust { ufs : fs; pdel : list path; pren : list (path * path); ntmp : nat }.

Definition with_fs (u : ust) (r : res fs) : ust * option err :=
  match r with
  | Ok f => (mkust f (pdel u) (pren u) (ntmp u), None)
  | Er e => (u, Some e)
  end.

(* finish_deletions: rmdir the deferred directories, last deferred first *)
Fixpoint rmdirs (l : list path) (f : fs) : fs * option err :=
  match l with
  | [] => (f, None)
  | p :: l' => match t_rmdir p f with
               | Ok f' => rmdirs l' f'
               | Er e => (f, Some e)
               end
  end.

(* finish_renames *)
Fixpoint renames (l : list (path * path)) (f : fs) : fs * option err :=
  match l with
  | [] => (f, None)
  | (a, b) :: l' => match t_rename a b f with
                    | Ok f' => renames l' f'
                    | Er e => (f, Some e)
                    end
  end.

(* _force_clear: errors of class PathError are swallowed *)
Definition force_clear (files : bool) (p : path) (f : fs) : fs * option err :=
  let r := match t_stat p f with
           | Er e => Er e
           | Ok Dir => t_delete_tree p f
           | Ok (Link _) => t_delete p f
           | Ok (File _ _) => if files then t_delete p f else Ok f
           end in
  match r with
  | Ok f' => (f', None)
  | Er e => if is_path_error e then (f, None) else (f, Some e)
  end.

Definition exec_cmd (c : cmd) (u : ust) : ust * option err :=
  match c with
  | UploadFile p c x => with_fs u (t_put p c x (ufs u))
  | DeleteFile p => with_fs u (t_delete p (ufs u))
  | DeleteDir p => with_fs u (t_rmdir p (ufs u))
  | DeleteDirMaybe p =>
      match t_rmdir p (ufs u) with
      | Ok f => (mkust f (pdel u) (pren u) (ntmp u), None)
      | Er e => if is_path_error e
                then (mkust (ufs u) (pdel u ++ [p]) (pren u) (ntmp u), None)
                else (u, Some e)
      end
  | FinishDeletions =>
      let '(f, e) := rmdirs (rev (pdel u)) (ufs u) in
      match e with
      | None => (mkust f [] (pren u) (ntmp u), None)
      | Some _ => (mkust f (pdel u) (pren u) (ntmp u), e)
      end
  | RenameRemote o n =>
      match t_rename o [Tmp (ntmp u)] (ufs u) with
      | Ok f => (mkust f (pdel u) (pren u ++ [([Tmp (ntmp u)], n)]) (S (ntmp u)), None)
      | Er e => (u, Some e)
      end
  | FinishRenames =>
      let '(f, e) := renames (pren u) (ufs u) in
      match e with
      | None => (mkust f (pdel u) [] (ntmp u), None)
      | Some _ => (mkust f (pdel u) (pren u) (ntmp u), e)
      end
  | MakeDir p => with_fs u (t_mkdir p (ufs u))
  | Symlink src link => with_fs u (t_symlink src link (ufs u))
  | UploadFileRobust p c x =>
      let '(f, e) := force_clear false p (ufs u) in
      match e with
      | Some _ => (u, e)
      | None => with_fs (mkust f (pdel u) (pren u) (ntmp u)) (t_put p c x f)
      end
  | SymlinkRobust link t =>
      let '(f, e) := force_clear true link (ufs u) in
      match e with
      | Some _ => (u, e)
      | None => with_fs (mkust f (pdel u) (pren u) (ntmp u))
                        (t_symlink (parent link ++ [t]) link f)
      end
  | MakeDirRobust p =>
      (* make_remote_dir_robustly *)
      match t_stat p (ufs u) with
      | Ok Dir => (u, None)
      | Ok _ =>
          match t_delete p (ufs u) with
          | Ok f => with_fs (mkust f (pdel u) (pren u) (ntmp u)) (t_mkdir p f)
          | Er e => if is_path_error e then with_fs u (t_mkdir p (ufs u)) else (u, Some e)
          end
      | Er e => if is_path_error e then with_fs u (t_mkdir p (ufs u)) else (u, Some e)
      end
  | SetRevid k => with_fs u (t_put [NMark] [k] false (ufs u))
  | Raise e => (u, Some e)
  end.

Fixpoint run (cs : list cmd) (u : ust) : ust * option err :=
  match cs with
  | [] => (u, None)
  | c :: cs' => match exec_cmd c u with
                | (u', None) => run cs' u'
                | (u', Some e) => (u', Some e)
                end
  end.

(* ---------- BzrUploader.upload_tree, incremental branch ---------- *)
Definition cmds_removed (new : tree) (l : list entry) : list cmd :=
  flat_map (fun e =>
    if is_ignored new (epath e) then []
    else match enode e with
         | Dir => [DeleteDirMaybe (epath e)]
         | _ => [DeleteFile (epath e)]
         end) l.

(* a renamed entry whose kind or symlink target changed cannot be renamed into
   shape: it is removed at its old path and created with the additions *)
Definition recreate (c : change) : bool :=
  negb (kind_eqb (enode (c_old c)) (enode (c_new c)))
  || match enode (c_new c) with
     | Link _ => changed_content (enode (c_old c)) (enode (c_new c))
     | _ => false
     end.
(* a renamed file is uploaded again (at its old path) when its content or its
   executable bit changed *)
Definition reupload (c : change) : bool :=
  changed_content (enode (c_old c)) (enode (c_new c))
  || match enode (c_new c) with
     | File _ x => negb (Bool.eqb (exec_of (enode (c_old c))) x)
     | _ => false
     end.
Definition both_ignored (new : tree) (c : change) : bool :=
  is_ignored new (epath (c_old c)) && is_ignored new (epath (c_new c)).

Definition cmds_renamed (new : tree) (l : list change) : list cmd :=
  flat_map (fun c =>
    let p0 := epath (c_old c) in let p1 := epath (c_new c) in
    if both_ignored new c then []
    else if recreate c
    then [match enode (c_old c) with Dir => DeleteDirMaybe p0 | _ => DeleteFile p0 end]
    else (if reupload c
          then [UploadFile p0 (text_of (enode (c_new c))) (exec_of (enode (c_new c)))]
          else [])
         ++ [RenameRemote p0 p1]) l.

(* the new entries of the renamed changes that are re-created *)
Definition recreated (new : tree) (l : list change) : list entry :=
  map c_new (filter (fun c => negb (both_ignored new c) && recreate c) l).

Definition create_cmd (p : path) (n : node) : cmd :=
  match n with
  | File c x => UploadFile p c x
  | Link t => SymlinkRobust p t
  | Dir => MakeDir p
  end.

(* renames are finished: the entry is at its NEW path *)
Definition cmds_kind_changed (new : tree) (l : list change) : list cmd :=
  flat_map (fun c =>
    let p1 := epath (c_new c) in
    if is_ignored new p1 then []
    else [match enode (c_old c) with Dir => DeleteDir p1 | _ => DeleteFile p1 end;
          create_cmd p1 (enode (c_new c))]) l.

Definition cmds_added (new : tree) (l : list entry) : list cmd :=
  flat_map (fun e =>
    if is_ignored new (epath e) then [] else [create_cmd (epath e) (enode e)]) l.

Definition cmds_modified (new : tree) (l : list change) : list cmd :=
  flat_map (fun c =>
    let p1 := epath (c_new c) in
    if is_ignored new p1 then []
    else [match enode (c_new c) with
          | File cc x => UploadFile p1 cc x
          | Link t => SymlinkRobust p1 t
          | Dir => Raise NotImplemented
          end]) l.

(* sorted(changes.added + changes.copied + recreated, key=path[1]) *)
Definition d_created (old new : tree) : list entry :=
  sort_by epath (d_added old new ++ recreated new (d_renamed old new)).

Definition upload_incremental (old new : tree) (revid : N) : list cmd :=
  cmds_removed new (d_removed old new)
  ++ cmds_renamed new (d_renamed old new)
  ++ [FinishDeletions; FinishRenames]
  ++ cmds_kind_changed new (d_kind_changed old new)
  ++ cmds_added new (d_created old new)
  ++ cmds_modified new (d_modified old new)
  ++ [SetRevid revid].

(* ---------- BzrUploader.upload_full_tree ---------- *)
(* Inventory.iter_entries_by_dir: the entries of a directory sorted by name,
   then the same for each of its sub-directories in that order. *)
Definition children (t : tree) (d : path) : list entry :=
  sort_by epath (filter (fun e => match epath e with
                                  | [] => false
                                  | _ => path_eqb (parent (epath e)) d
                                  end) (ents t)).
Fixpoint by_dir (fuel : nat) (t : tree) (d : path) : list entry :=
  match fuel with
  | O => []
  | S fuel' =>
      let cs := children t d in
      cs ++ flat_map (fun c => match enode c with
                               | Dir => by_dir fuel' t (epath c)
                               | _ => []
                               end) cs
  end.
Definition full_order (t : tree) : list entry := by_dir (S (List.length (ents t))) t [].

Definition cmds_full (t : tree) (l : list entry) : list cmd :=
  flat_map (fun e =>
    if path_eqb (epath e) [NIgn] then []
    else if is_ignored t (epath e) then []
    else [match enode e with
          | File c x => UploadFileRobust (epath e) c x
          | Link tg => SymlinkRobust (epath e) tg
          | Dir => MakeDirRobust (epath e)
          end]) l.

Definition upload_full (t : tree) (revid : N) : list cmd :=
  cmds_full t (full_order t) ++ [SetRevid revid].

Definition ust0 (f : fs) : ust := mkust f [] [] 0.

(* ---------- the correspondence run ---------- *)
(* BzrUploader.upload_tree: full upload when the marker is missing, otherwise
   incremental from the revision the marker names. *)
Definition empty_tree : tree := mktree [] [].
Definition upload_tree (revs : list tree) (k : nat) (f : fs) : list cmd :=
  let new := nth k revs empty_tree in
  match look f [NMark] with
  | Some (File [j] _) => upload_incremental (nth (N.to_nat j) revs empty_tree) new (N.of_nat k)
  | _ => upload_full new (N.of_nat k)
  end.

Definition oname (a : name) : obs :=
  match a with
  | NIgn => OT "ign" | Nm n => OZ (Z.of_N n) | NMark => OT "mark"
  | Tmp k => OL [OT "tmp"; OZ (Z.of_nat k)]
  end.
Definition onode (n : node) : obs :=
  match n with
  | File c x => OL [OT "f"; OB c; obool x]
  | Dir => OL [OT "d"]
  | Link t => OL [OT "l"; oname t]
  end.
Definition oerr (e : err) : obs :=
  OE (match e with
      | NoSuchFile => "NoSuchFile" | FileExists => "FileExists"
      | DirectoryNotEmpty => "DirectoryNotEmpty" | ReadError => "ReadError"
      | InvalidURL => "InvalidURL" | NotADirectoryError => "NotADirectoryError"
      | OSError => "OSError" | NotImplemented => "NotImplementedError"
      end)%string.

Fixpoint dedup (l : list path) : list path :=
  match l with
  | [] => []
  | p :: l' => if existsb (path_eqb p) l' then dedup l' else p :: dedup l'
  end.
Definition listing (f : fs) : list (path * node) :=
  flat_map (fun q => match look f q with Some n => [(q, n)] | None => [] end)
           (sort_by (fun q => q) (dedup (dom f))).
(* left-over temporaries are reported by their rank among the temporaries that
   are present (the harness cannot see how many were created and renamed away) *)
Fixpoint nodup_nat (l : list nat) : list nat :=
  match l with
  | [] => []
  | x :: r => if existsb (Nat.eqb x) r then nodup_nat r else x :: nodup_nat r
  end.
Definition tmp_heads (l : list (path * node)) : list nat :=
  nodup_nat (flat_map (fun qn => match fst qn with Tmp k :: _ => [k] | _ => [] end) l).
Fixpoint index_of (k : nat) (l : list nat) (n : nat) : nat :=
  match l with
  | [] => n
  | x :: r => if Nat.eqb x k then n else index_of k r (S n)
  end.
Definition oname_c (tm : list nat) (a : name) : obs :=
  match a with
  | Tmp k => OL [OT "tmp"; OZ (Z.of_nat (index_of k tm 0))]
  | _ => oname a
  end.
Definition olisting (f : fs) : obs :=
  let l := listing f in
  let tm := tmp_heads l in
  olist (fun qn => OL [olist (oname_c tm) (fst qn); onode (snd qn)]) l.

(* The order of TreeDelta.kind_changed is the iteration order of the CHK
   inventory (hash order, environment).  The model uses the path order; the
   final state does not depend on it unless a command fails, so a failed step
   with two or more kind changes is reported as order-dependent by both sides. *)
Definition order_dependent (revs : list tree) (k : nat) (f : fs) : bool :=
  match look f [NMark] with
  | Some (File [j] _) =>
      Nat.leb 2 (List.length (d_kind_changed (nth (N.to_nat j) revs empty_tree) (nth k revs empty_tree)))
  | _ => false
  end.

(* steps: (full?, revision index).  The run stops at the first failing upload. *)
Fixpoint run_steps (revs : list tree) (steps : list (bool * nat)) (f : fs) : list obs :=
  match steps with
  | [] => []
  | (full, k) :: steps' =>
      let prog := if full then upload_full (nth k revs empty_tree) (N.of_nat k)
                  else upload_tree revs k f in
      match run prog (ust0 f) with
      | (u, None) => OL [OT "ok"; olisting (ufs u)] :: run_steps revs steps' (ufs u)
      | (u, Some e) =>
          if negb full && order_dependent revs k f
          then [OL [OT "order-dependent"]]
          else [OL [oerr e; olisting (ufs u)]]
      end
  end.

Definition run_case (revs : list tree) (steps : list (bool * nat)) : obs :=
  OL (run_steps revs steps fs_empty).

(* ---------- cmd_upload.run: which upload is performed ---------- *)
(* [parents]: for every commit (index = creation order) its left-hand parent.
   graph.is_ancestor(prev_uploaded_rev_id, rev_id); NULL_REVISION (no marker) is
   an ancestor of everything. *)
Fixpoint is_ancestor (fuel : nat) (parents : list (option nat)) (j cur : nat) : bool :=
  if Nat.eqb j cur then true
  else match fuel with
       | O => false
       | S fuel' => match nth cur parents None with
                    | Some p => is_ancestor fuel' parents j p
                    | None => false
                    end
       end.

Definition marker_rev (f : fs) : option nat :=
  match look f [NMark] with
  | Some (File [j] _) => Some (N.to_nat j)
  | _ => None
  end.

(* a step: (revision to upload, --full, --overwrite).  Without --overwrite the
   command refuses (DivergedUploadedTree, remote untouched) when the marker's
   revision is not an ancestor; otherwise --full -> upload_full_tree, else
   upload_tree (incremental from the MARKER's revision, also when diverged). *)
Fixpoint run_cmd_steps (revs : list tree) (parents : list (option nat))
         (steps : list (nat * bool * bool)) (f : fs) : list obs :=
  match steps with
  | [] => []
  | (k, full, overwrite) :: steps' =>
      let diverged := match marker_rev f with
                      | Some j => negb (is_ancestor (List.length parents) parents j k)
                      | None => false
                      end in
      if negb overwrite && diverged
      then OL [OE "DivergedUploadedTree"%string; olisting f] :: run_cmd_steps revs parents steps' f
      else
        let prog := if full then upload_full (nth k revs empty_tree) (N.of_nat k)
                    else upload_tree revs k f in
        match run prog (ust0 f) with
        | (u, None) => OL [OT "ok"; olisting (ufs u)] :: run_cmd_steps revs parents steps' (ufs u)
        | (u, Some e) =>
            if negb full && order_dependent revs k f
            then [OL [OT "order-dependent"]]
            else [OL [oerr e; olisting (ufs u)]]
        end
  end.

Definition run_cmd_case (revs : list tree) (parents : list (option nat))
           (steps : list (nat * bool * bool)) : obs :=
  OL (run_cmd_steps revs parents steps fs_empty).
