(* Model/Smart.v -- hand model of the smart-protocol codecs of
   breezy/bzr/smart/protocol.py (C29, C30).  Definitions only.

   Modelled functions (Python name -> Gallina name):
     _encode_tuple / _decode_tuple / _recv_tuple        encode_tuple / decode_tuple / recv_tuple
     SmartProtocolBase._encode_bulk_data                encode_bulk_data
     SmartProtocolBase._serialise_offsets               serialise_offsets
     vfs.ReadvRequest._deserialise_offsets              deserialise_offsets
     _send_stream / _send_chunks                        encode_stream
     _StatefulDecoder.accept_bytes (the state loop)     loop / run (Section Loop)
     LengthPrefixedBodyDecoder (+ next_read_size,
        read_pending_data)                              lp_state, lp_accept, lp_hint, lp_read
     ChunkedBodyDecoder (+ next_read_size)              ck_mode, ck_body, ck_accept, ck_hint
     _ProtocolThreeEncoder._write_*                     p3_encode_*
     ProtocolThreeDecoder (+ next_read_size)            p3_mode, p3_body, p3_accept, p3_hint
     ConventionalResponseHandler part handlers          rh_event / rh_run
     SmartServerPipeStreamMedium._serve_one_request_unguarded,
     ConventionalResponseHandler._read_more,
     SmartClientRequestProtocolOne.read_body_bytes      read_loop (Section ReadLoop)

   Conventions.  A decoder object is modelled by the fields that survive
   between two accept_bytes calls.  `state_accept` is the constructor / mode;
   the in-buffer (`_in_buffer_list` joined) is an explicit component where the
   Python state function can leave bytes in it, and is absent where every state
   function clears it.  An exception escaping accept_bytes (ValueError from
   int(), SmartProtocolError) is the absorbing state *Failed: callers never
   feed a decoder again after it raised.
   Python int(b"..") / int(b"..",16) are modelled on digit strings only (no
   sign, whitespace, underscore, 0x prefix): those spellings are never produced
   by the encoders.  bencode (package fastbencode) is NOT modelled: a structure
   part carries the raw bencoded bytes. *)
From Coq Require Import String ZArith NArith Bool List.
From BV Require Import Lib.Bytes Lib.Obs.
Import ListNotations.
Open Scope N_scope.

Definition NL : N := 10.
Definition SEP : N := 1.
Definition COMMA : N := 44.

(* ---------------------------------------------------------------- numbers *)

(* most significant digit first; [fuel] = number of further divisions allowed *)
Fixpoint to_digits (base : N) (fuel : nat) (n : N) (acc : list N) : list N :=
  match fuel with
  | O => n :: acc
  | S f => if n <? base then n :: acc
           else to_digits base f (n / base) (n mod base :: acc)
  end.
Definition digits_of (base n : N) : list N := to_digits base (N.to_nat (N.size n)) n [].

Definition dec_char (d : N) : N := 48 + d.
Definition hex_char (d : N) : N := if d <? 10 then 48 + d else 87 + d.
(* b"%d" % n   and   f"{n:x}".encode("ascii") *)
Definition print_dec (n : N) : bytes := map dec_char (digits_of 10 n).
Definition print_hex (n : N) : bytes := map hex_char (digits_of 16 n).

Definition dec_digit (c : N) : option N :=
  if (48 <=? c) && (c <=? 57) then Some (c - 48) else None.
Definition hex_digit (c : N) : option N :=
  if (48 <=? c) && (c <=? 57) then Some (c - 48)
  else if (97 <=? c) && (c <=? 102) then Some (c - 87)
  else if (65 <=? c) && (c <=? 70) then Some (c - 55)
  else None.

Fixpoint parse_digits (base : N) (dig : N -> option N) (s : bytes) (acc : N) : option N :=
  match s with
  | [] => Some acc
  | c :: s' => match dig c with
               | Some d => parse_digits base dig s' (acc * base + d)
               | None => None
               end
  end.
(* int(s) / int(s, 16) on pure digit strings; None = ValueError *)
Definition parse_num (base : N) (dig : N -> option N) (s : bytes) : option N :=
  match s with [] => None | _ => parse_digits base dig s 0 end.
Definition parse_dec := parse_num 10 dec_digit.
Definition parse_hex := parse_num 16 hex_digit.

(* pos = s.find(b"\n");  (s[:pos], s[pos+1:]) *)
Fixpoint find_byte (b : N) (s : bytes) : option (bytes * bytes) :=
  match s with
  | [] => None
  | c :: s' => if c =? b then Some ([], s')
               else match find_byte b s' with
                    | Some (l, r) => Some (c :: l, r)
                    | None => None
                    end
  end.
Definition find_nl := find_byte NL.

(* ---------------------------------------------------- v1/v2 tuple encoding *)

(* _encode_tuple: b"\x01".join(args) + b"\n" *)
Definition encode_tuple (args : list bytes) : bytes := join [SEP] args ++ [NL].

Inductive dt_result := DtNone | DtErr | DtOk (args : list bytes).
(* _decode_tuple(req_line) *)
Definition decode_tuple (line : bytes) : dt_result :=
  match line with
  | [] => DtNone
  | _ => if last line 0 =? NL then DtOk (split1 SEP (removelast line)) else DtErr
  end.
(* read one line (up to and including the first "\n") off a stream and decode
   it: SmartServerRequestProtocolOne.accept_bytes (in_buffer.split(b"\n", 1)),
   SmartClientRequestProtocolOne._recv_tuple (read_line).  None = no line yet *)
Definition recv_tuple (stream : bytes) : option (dt_result * bytes) :=
  match find_nl stream with
  | Some (line, rest) => Some (decode_tuple (line ++ [NL]), rest)
  | None => None
  end.

Definition no_sep_arg (a : bytes) : bool := negb (memb SEP a) && negb (memb NL a).
(* the guard of the v1/v2 argument round trip *)
Definition no_sep (args : list bytes) : bool :=
  match args with [] => false | _ => forallb no_sep_arg args end.

(* ------------------------------------------------------------ bulk bodies *)

Definition DONE : bytes := [100; 111; 110; 101; 10].       (* b"done\n" *)

(* _encode_bulk_data: b"%d\n" % len(body) + body + b"done\n" *)
Definition encode_bulk_data (body : bytes) : bytes :=
  print_dec (N.of_nat (length body)) ++ [NL] ++ body ++ DONE.

(* _serialise_offsets: b"\n".join(b"%d,%d" % (start, length)) *)
Definition offset_line (o : N * N) : bytes := print_dec (fst o) ++ [COMMA] ++ print_dec (snd o).
Definition serialise_offsets (offs : list (N * N)) : bytes := join [NL] (map offset_line offs).

(* vfs.ReadvRequest._deserialise_offsets; None = ValueError *)
Fixpoint deser_lines (ls : list bytes) : option (list (N * N)) :=
  match ls with
  | [] => Some []
  | [] :: ls' => deser_lines ls'                       (* if not line: continue *)
  | l :: ls' =>
      match split1 COMMA l with
      | [a; b] => match parse_dec a, parse_dec b, deser_lines ls' with
                  | Some x, Some y, Some r => Some ((x, y) :: r)
                  | _, _, _ => None
                  end
      | _ => None
      end
  end.
Definition deserialise_offsets (text : bytes) : option (list (N * N)) :=
  deser_lines (split1 NL text).

(* ---------------------------------- LengthPrefixedBodyDecoder (v1/v2 body) *)

(* state_accept        fields that are live in that state
   expecting_length    _in_buffer                      (bytes_left is None)
   reading_body        bytes_left (> 0), _body         (_in_buffer empty)
   reading_trailer     _body, _trailer_buffer          (bytes_left is None)
   reading_unused      _body, unused_data ; finished_reading = True *)
Inductive lp_state :=
| LpLength (buf : bytes)
| LpBody (nleft : N) (body : bytes)
| LpTrailer (body trailer : bytes)
| LpDone (body unused : bytes)
| LpFailed.

(* _state_accept_reading_trailer, entered with the new bytes already appended *)
Definition lp_trailer_step (body trailer : bytes) : lp_state :=
  if prefixb DONE trailer then LpDone body (skipn 5 trailer)
  else LpTrailer body trailer.

(* _state_accept_reading_body on in-buffer [buf]:
     _body += buf; bytes_left -= len(buf)
     if bytes_left <= 0: excess (the last -bytes_left bytes) moves to the
     trailer buffer, then the trailer state runs (accept_bytes loop). *)
Definition lp_body_step (nleft : N) (body buf : bytes) : lp_state :=
  if nleft <=? N.of_nat (length buf)
  then lp_trailer_step (body ++ firstn (N.to_nat nleft) buf) (skipn (N.to_nat nleft) buf)
  else LpBody (nleft - N.of_nat (length buf)) (body ++ buf).

Definition lp_init : lp_state := LpLength [].

(* accept_bytes *)
Definition lp_accept (s : lp_state) (new : bytes) : lp_state :=
  match s with
  | LpLength buf =>
      match find_nl (buf ++ new) with
      | None => LpLength (buf ++ new)
      | Some (line, rest) =>
          match parse_dec line with
          | None => LpFailed                          (* int() raised ValueError *)
          | Some n => lp_body_step n [] rest
          end
      end
  | LpBody nleft body => lp_body_step nleft body new
  | LpTrailer body t => lp_trailer_step body (t ++ new)
  | LpDone body unused => LpDone body (unused ++ new)
  | LpFailed => LpFailed
  end.

(* next_read_size *)
Definition lp_hint (s : lp_state) : Z :=
  match s with
  | LpBody nleft _ => Z.of_N nleft + 5
  | LpTrailer _ t => 5 - Z.of_nat (length t)
  | LpLength _ => 6
  | LpDone _ _ => 1
  | LpFailed => 0
  end.
Definition lp_finished (s : lp_state) : bool :=
  match s with LpDone _ _ => true | _ => false end.
Definition lp_unused (s : lp_state) : bytes :=
  match s with LpDone _ u => u | _ => [] end.
Definition lp_body (s : lp_state) : bytes :=
  match s with LpBody _ b | LpTrailer b _ | LpDone b _ => b | _ => [] end.
(* read_pending_data: returns and clears _body *)
Definition lp_read (s : lp_state) : bytes * lp_state :=
  match s with
  | LpBody l b => (b, LpBody l [])
  | LpTrailer b t => (b, LpTrailer [] t)
  | LpDone b u => (b, LpDone [] u)
  | _ => ([], s)
  end.
(* a consumer: feed the segments, calling read_pending_data after a segment
   when its flag is set (the v1 server does so after every accept_bytes, the
   client only once at the end); returns everything read + the final state *)
Fixpoint lp_consume (s : lp_state) (segs : list (bytes * bool)) (got : bytes) : bytes * lp_state :=
  match segs with
  | [] => (got ++ fst (lp_read s), snd (lp_read s))
  | (seg, drain) :: segs' =>
      let s1 := lp_accept s seg in
      if drain then lp_consume (snd (lp_read s1)) segs' (got ++ fst (lp_read s1))
      else lp_consume s1 segs' got
  end.

(* ------------------------------------------- the _StatefulDecoder state loop *)

(* accept_bytes runs the current state function, and again while the state
   changed.  [body rec m buf] is one state function on in-buffer [buf] with
   "continue the loop" = a call of [rec]; "stop" (state unchanged or
   _NeedMoreBytes) = return.  [mu] bounds the number of iterations. *)
Section Loop.
  Variable M : Type.
  Variable body : (M -> bytes -> M * bytes) -> M -> bytes -> M * bytes.
  Variable mu : M -> bytes -> nat.
  Fixpoint loop (fuel : nat) (m : M) (buf : bytes) : M * bytes :=
    match fuel with
    | O => (m, buf)
    | S f => body (loop f) m buf
    end.
  Definition run (m : M) (buf : bytes) : M * bytes := loop (S (mu m buf)) m buf.
End Loop.

(* ------------------------------------ ChunkedBodyDecoder (v2 streamed body) *)

Definition CHUNKED : bytes := [99; 104; 117; 110; 107; 101; 100].     (* b"chunked" *)
Definition ERR : bytes := [69; 82; 82].
Definition END_ : bytes := [69; 78; 68].

(* _send_chunks for byte chunks *)
Definition encode_chunk (c : bytes) : bytes := print_hex (N.of_nat (length c)) ++ [NL] ++ c.
Definition encode_chunks (cs : list bytes) : bytes := concat (map encode_chunk cs).
(* _send_stream: a stream of chunks, optionally ended by a
   FailedSmartServerResponse(args) (None = no error) *)
Definition encode_stream (cs : list bytes) (err : option (list bytes)) : bytes :=
  CHUNKED ++ [NL] ++ encode_chunks cs ++
  match err with Some args => ERR ++ [NL] ++ encode_chunks args | None => [] end ++
  END_ ++ [NL].

(* error = (self.error, self.error_in_progress); chunks = everything ever
   appended to self.chunks (read_next_chunk only pops from the nleft) *)
Inductive ck_mode :=
| CkHeader
| CkLength (err : option (list bytes)) (chunks : list bytes)
| CkChunk (nleft : N) (cur : bytes) (err : option (list bytes)) (chunks : list bytes)
| CkDone (err : option (list bytes)) (chunks : list bytes) (unused : bytes)
| CkFailed (e : string).

Definition ck_push (cur : bytes) (err : option (list bytes)) (chunks : list bytes)
  : option (list bytes) * list bytes :=
  match err with
  | Some e => (Some (e ++ [cur]), chunks)       (* error_in_progress.append *)
  | None => (None, chunks ++ [cur])             (* chunks.append *)
  end.

Definition ck_body (rec : ck_mode -> bytes -> ck_mode * bytes) (m : ck_mode) (buf : bytes)
  : ck_mode * bytes :=
  match m with
  | CkHeader =>                                   (* _state_accept_expecting_header *)
      match find_nl buf with
      | None => (m, buf)                                          (* _NeedMoreBytes(1) *)
      | Some (line, rest) =>
          if bytes_eqb line CHUNKED then rec (CkLength None []) rest
          else (CkFailed "SmartProtocolError", [])
      end
  | CkLength err chunks =>                        (* _state_accept_expecting_length *)
      match find_nl buf with
      | None => (m, buf)
      | Some (line, rest) =>
          if bytes_eqb line ERR then rec (CkLength (Some []) chunks) rest
          else if bytes_eqb line END_ then (CkDone err chunks rest, [])   (* _finished *)
          else match parse_hex line with
               | None => (CkFailed "ValueError", [])
               | Some n => rec (CkChunk n [] err chunks) rest
               end
      end
  | CkChunk nleft cur err chunks =>                (* _state_accept_reading_chunk *)
      if nleft <=? N.of_nat (length buf)
      then let '(err', chunks') := ck_push (cur ++ firstn (N.to_nat nleft) buf) err chunks in
           rec (CkLength err' chunks') (skipn (N.to_nat nleft) buf)
      else (CkChunk (nleft - N.of_nat (length buf)) (cur ++ buf) err chunks, [])
  | CkDone err chunks unused => (CkDone err chunks (unused ++ buf), [])
  | CkFailed _ => (m, [])
  end.

Definition ck_mu (m : ck_mode) (buf : bytes) : nat :=
  (2 * length buf + match m with CkChunk _ _ _ _ => 1 | _ => 0 end)%nat.
Definition ck_run := run ck_mode ck_body ck_mu.

Definition ck_state := (ck_mode * bytes)%type.
Definition ck_init : ck_state := (CkHeader, []).
Definition ck_accept (s : ck_state) (new : bytes) : ck_state := ck_run (fst s) (snd s ++ new).

Definition ck_hint (s : ck_state) : Z :=
  match fst s with
  | CkChunk nleft _ _ _ => Z.of_N nleft + 4
  | CkLength _ _ => match snd s with [] => 2 | _ => 1 end
  | CkDone _ _ _ => 1
  | CkHeader => Z.max 0 (8 - Z.of_nat (length (snd s)))
  | CkFailed _ => 0
  end.
Definition ck_finished (s : ck_state) : bool :=
  match fst s with CkDone _ _ _ => true | _ => false end.

(* --------------------------------------------------------- protocol v3 *)

(* b"bzr message 3 (bzr 1.6)\n" *)
Definition MARKER3 : bytes :=
  [98;122;114;32;109;101;115;115;97;103;101;32;51;32;40;98;122;114;32;49;46;54;41;10].

(* struct.pack("!L", n)  (n < 2^32) and struct.unpack("!L", 4 bytes) *)
Definition be32_enc (n : N) : bytes :=
  [n / 16777216 mod 256; n / 65536 mod 256; n / 256 mod 256; n mod 256].
Definition be32_dec (b : bytes) : N :=
  match b with
  | [a; b; c; d] => ((a * 256 + b) * 256 + c) * 256 + d
  | _ => 0
  end.

Inductive p3_part :=
| POne (b : N)           (* b"o" + one byte *)
| PBytes (bs : bytes)    (* b"b" + length-prefixed bytes *)
| PStruct (raw : bytes). (* b"s" + length-prefixed bencode(structure); raw = the bencoded bytes *)

Definition lp32 (payload : bytes) : bytes := be32_enc (N.of_nat (length payload)) ++ payload.
Definition p3_encode_part (p : p3_part) : bytes :=
  match p with
  | POne b => [111; b]
  | PBytes bs => 98 :: lp32 bs                      (* _write_prefixed_body *)
  | PStruct raw => 115 :: lp32 raw                  (* _write_structure *)
  end.
(* headers (raw bencoded dict), parts, b"e" ; the version marker is written by
   _write_protocol_version and consumed by the medium on the server side *)
Definition p3_encode_body (headers : bytes) (parts : list p3_part) : bytes :=
  lp32 headers ++ concat (map p3_encode_part parts) ++ [101].
Definition p3_encode (headers : bytes) (parts : list p3_part) : bytes :=
  MARKER3 ++ p3_encode_body headers parts.

Inductive p3_event :=
| EvHeaders (raw : bytes) | EvByte (b : N) | EvBytes (bs : bytes) | EvStruct (raw : bytes) | EvEnd.

Inductive p3_phase :=
| P3Version | P3Headers | P3Part | P3OneByte | P3Bytes | P3Struct
| P3Unused (unused : bytes) | P3Failed (e : string).

(* phase, calls made on the message handler so far, _number_needed_bytes *)
Definition p3_mode := (p3_phase * list p3_event * option N)%type.

Inductive lp32_result := NeedMore (n : N) | Got (payload rest : bytes).
(* _extract_length_prefixed_bytes *)
Definition extract_lp32 (buf : bytes) : lp32_result :=
  if (length buf <? 4)%nat then NeedMore 4
  else let n := 4 + be32_dec (firstn 4 buf) in
       if N.of_nat (length buf) <? n then NeedMore n
       else Got (skipn 4 (firstn (N.to_nat n) buf)) (skipn (N.to_nat n) buf).

Definition p3_body (rec : p3_mode -> bytes -> p3_mode * bytes) (m : p3_mode) (buf : bytes)
  : p3_mode * bytes :=
  let '(ph, evs, _) := m in
  let lp (mk : bytes -> p3_event) :=
      match extract_lp32 buf with
      | NeedMore n => ((ph, evs, Some n), buf)
      | Got payload rest => rec (P3Part, evs ++ [mk payload], None) rest
      end in
  match ph with
  | P3Version =>                                  (* _state_accept_expecting_protocol_version *)
      if (length buf <? length MARKER3)%nat
      then if prefixb buf MARKER3 then ((ph, evs, Some (N.of_nat (length MARKER3))), buf)
           else ((P3Failed "UnexpectedProtocolVersionMarker", evs, None), buf)
      else if prefixb MARKER3 buf then rec (P3Headers, evs, None) (skipn (length MARKER3) buf)
           else ((P3Failed "UnexpectedProtocolVersionMarker", evs, None), buf)
  | P3Headers => lp EvHeaders
  | P3Part =>                                     (* _state_accept_expecting_message_part *)
      match buf with
      | [] => ((ph, evs, Some 1), buf)
      | c :: rest =>
          if c =? 111 then rec (P3OneByte, evs, None) rest
          else if c =? 115 then rec (P3Struct, evs, None) rest
          else if c =? 98 then rec (P3Bytes, evs, None) rest
          else if c =? 101 then ((P3Unused rest, evs ++ [EvEnd], None), [])     (* done() *)
          else ((P3Failed "SmartProtocolError", evs, None), rest)
      end
  | P3OneByte =>
      match buf with
      | [] => ((ph, evs, Some 1), buf)
      | c :: rest => rec (P3Part, evs ++ [EvByte c], None) rest
      end
  | P3Bytes => lp EvBytes
  | P3Struct => lp EvStruct
  | P3Unused u => ((P3Unused (u ++ buf), evs, None), [])
  | P3Failed e => ((ph, evs, None), buf)
  end.

Definition p3_mu (m : p3_mode) (buf : bytes) : nat := length buf.
Definition p3_run := run p3_mode p3_body p3_mu.

Definition p3_state := (p3_mode * bytes)%type.
(* ProtocolThreeDecoder(handler, expect_version_marker=False / True) *)
Definition p3_init_server : p3_state := ((P3Headers, [], Some 4), []).
Definition p3_init_client : p3_state := ((P3Version, [], Some (N.of_nat (length MARKER3) + 4)), []).
Definition p3_accept (s : p3_state) (new : bytes) : p3_state := p3_run (fst s) (snd s ++ new).

Definition p3_phase_of (s : p3_state) : p3_phase := fst (fst (fst s)).
Definition p3_events (s : p3_state) : list p3_event := snd (fst (fst s)).
(* next_read_size; None = AssertionError("don't know how many bytes are expected!") *)
Definition p3_hint (s : p3_state) : option Z :=
  match p3_phase_of s with
  | P3Unused _ => Some 0%Z
  | P3Failed _ => Some 0%Z
  | _ => match snd (fst s) with
         | Some n => Some (Z.of_N n - Z.of_nat (length (snd s)))%Z
         | None => None
         end
  end.
Definition p3_finished (s : p3_state) : bool :=
  match p3_phase_of s with P3Unused _ => true | _ => false end.
Definition p3_unused (s : p3_state) : bytes :=
  match p3_phase_of s with P3Unused u => u | _ => [] end.
Definition p3_events_of (headers : bytes) (parts : list p3_part) : list p3_event :=
  EvHeaders headers ::
  map (fun p => match p with POne b => EvByte b | PBytes bs => EvBytes bs | PStruct r => EvStruct r end) parts
  ++ [EvEnd].

(* ---------------- ConventionalResponseHandler: what the parts are turned into *)

Record rh_state := {
  rh_status : option N; rh_args : option bytes; rh_parts : list bytes;
  rh_body_started : bool; rh_stream_status : option N; rh_error_args : option bytes }.
Definition rh_init := {| rh_status := None; rh_args := None; rh_parts := []; rh_body_started := false;
                         rh_stream_status := None; rh_error_args := None |}.
(* None = SmartProtocolError raised by the handler *)
Definition rh_event (s : rh_state) (e : p3_event) : option rh_state :=
  match e with
  | EvHeaders _ | EvEnd => Some s
  | EvByte b =>                                   (* byte_part_received *)
      if negb ((b =? 69) || (b =? 83)) then None
      else
        (* a status byte after status and args, before any body part, starts the
           body stream (the stream failed before its first chunk) *)
        let started := rh_body_started s ||
                       (match rh_status s with Some _ => true | None => false end &&
                        match rh_args s with Some _ => true | None => false end) in
        if started
        then match rh_stream_status s with
             | Some _ => None
             | None => Some {| rh_status := rh_status s; rh_args := rh_args s; rh_parts := rh_parts s;
                               rh_body_started := true; rh_stream_status := Some b;
                               rh_error_args := rh_error_args s |}
             end
        else match rh_status s with
             | Some _ => None
             | None => Some {| rh_status := Some b; rh_args := rh_args s; rh_parts := rh_parts s;
                               rh_body_started := false; rh_stream_status := rh_stream_status s;
                               rh_error_args := rh_error_args s |}
             end
  | EvBytes bs =>                                 (* bytes_part_received *)
      Some {| rh_status := rh_status s; rh_args := rh_args s; rh_parts := rh_parts s ++ [bs];
              rh_body_started := true; rh_stream_status := rh_stream_status s;
              rh_error_args := rh_error_args s |}
  | EvStruct raw =>                               (* structure_part_received *)
      if negb (rh_body_started s)
      then match rh_args s with
           | Some _ => None
           | None => Some {| rh_status := rh_status s; rh_args := Some raw; rh_parts := rh_parts s;
                             rh_body_started := false; rh_stream_status := rh_stream_status s;
                             rh_error_args := rh_error_args s |}
           end
      else match rh_stream_status s with
           | Some 69 => Some {| rh_status := rh_status s; rh_args := rh_args s; rh_parts := rh_parts s;
                                rh_body_started := true; rh_stream_status := rh_stream_status s;
                                rh_error_args := Some raw |}
           | _ => None
           end
  end.
Fixpoint rh_run (s : rh_state) (evs : list p3_event) : option rh_state :=
  match evs with
  | [] => Some s
  | e :: evs' => match rh_event s e with Some s' => rh_run s' evs' | None => None end
  end.

(* ProtocolThreeResponder.send_response: status byte, args, then a body, or a
   stream of chunks optionally cut short by an error (oE + error structure) *)
Inductive resp_body := RNone | RBody (b : bytes) | RStream (chunks : list bytes) (err : option bytes).
Definition response_parts (ok : bool) (args : bytes) (b : resp_body) : list p3_part :=
  POne (if ok then 83 else 69) :: PStruct args ::
  match b with
  | RNone => []
  | RBody bs => [PBytes bs]
  | RStream cs err => map PBytes cs ++ match err with Some e => [POne 69; PStruct e] | None => [] end
  end.

(* ----------------------------------------------------------- the read loop *)

(* SmartServerPipeStreamMedium._serve_one_request_unguarded and the client
   loops (_read_more, read_body_bytes, read_streamed_body): ask the decoder for
   next_read_size(), read, accept_bytes, until finished.  The transport may
   deliver any number of bytes between 1 and the request ("short read"): the
   i-th read delivers [rl_amount pol_i hint] bytes (0 = the full request,
   k > 0 = 1 + (k-1) mod hint).  A read that asks for more bytes than remain
   in [stream] blocks for ever on a pipe. *)
Definition rl_amount (k : N) (h : Z) : nat :=
  Z.to_nat (if (k =? 0)%N then h else 1 + Z.of_N (k - 1) mod h)%Z.
Inductive rl_result (St : Type) :=
| RlFinished (s : St) (left_over : bytes)     (* decoder reported completion *)
| RlWouldBlock (s : St) (asked : Z) (available : nat)
| RlOutOfPolicy (s : St) (remaining : bytes). (* [pol] exhausted (not an outcome of the code) *)
Arguments RlFinished {St}. Arguments RlWouldBlock {St}. Arguments RlOutOfPolicy {St}.

Section ReadLoop.
  Variable St : Type.
  Variable accept : St -> bytes -> St.
  Variable hint : St -> Z.           (* next_read_size *)
  Variable finished : St -> bool.    (* the loop's exit test *)
  Fixpoint read_loop (pol : list N) (s : St) (stream : bytes) : rl_result St :=
    if finished s then RlFinished s stream else
    match pol with
    | [] => RlOutOfPolicy s stream
    | k :: pol' =>
        let h := hint s in
        if (Z.of_nat (length stream) <? h)%Z then RlWouldBlock s h (length stream)
        else let n := rl_amount k h in
             read_loop pol' (accept s (firstn n stream)) (skipn n stream)
    end.
End ReadLoop.

(* --------------------------------------------- observations (correspondence) *)

Definition oZ (z : Z) : obs := OZ z.
Definition obytes (b : bytes) : obs := OB b.
Definition oerr (err : option (list bytes)) : obs := oopt (olist obytes) err.

(* split [stream] into segments of the given lengths; the rest is one last segment *)
Fixpoint cut (lens : list nat) (stream : bytes) : list bytes :=
  match lens with
  | [] => match stream with [] => [] | _ => [stream] end
  | n :: lens' => firstn n stream :: cut lens' (skipn n stream)
  end.

(* LengthPrefixedBodyDecoder fed [encode body ++ tail] cut at [lens]; after every
   accept: next_read_size, finished_reading, read_pending_data(), unused_data *)
Definition lp_obs1 (s : lp_state) : obs * lp_state :=
  let r := lp_read s in
  (OL [oZ (lp_hint s); obool (lp_finished s); OB (fst r); OB (lp_unused s);
       obool (match s with LpFailed => true | _ => false end)], snd r).
Fixpoint lp_trace (s : lp_state) (segs : list bytes) : list obs :=
  match segs with
  | [] => []
  | seg :: segs' => let (o, s') := lp_obs1 (lp_accept s seg) in o :: lp_trace s' segs'
  end.
Definition run_lp_raw (stream : bytes) (lens : list nat) : obs :=
  OL (fst (lp_obs1 lp_init) :: lp_trace lp_init (cut lens stream)).
Definition run_lp (body tail : bytes) (lens : list nat) : obs :=
  OL [OB (encode_bulk_data body); run_lp_raw (encode_bulk_data body ++ tail) lens].

Definition ck_obs1 (s : ck_state) : obs :=
  match fst s with
  | CkFailed e => OE e
  | CkDone err chunks unused =>
      OL [oZ (ck_hint s); obool true; olist obytes chunks; oerr err; OB unused]
  | CkHeader => OL [oZ (ck_hint s); obool false; OL []; ON; OB []]
  | CkLength err chunks | CkChunk _ _ err chunks =>
      (* a pending error is only visible once END arrives *)
      OL [oZ (ck_hint s); obool false; olist obytes chunks; ON; OB []]
  end.
Fixpoint ck_trace (s : ck_state) (segs : list bytes) : list obs :=
  match segs with
  | [] => []
  | seg :: segs' => let s' := ck_accept s seg in ck_obs1 s' :: ck_trace s' segs'
  end.
Definition run_ck_raw (stream : bytes) (lens : list nat) : obs :=
  OL (ck_obs1 ck_init :: ck_trace ck_init (cut lens stream)).
Definition run_ck (chunks : list bytes) (err : option (list bytes)) (tail : bytes) (lens : list nat) : obs :=
  OL [OB (encode_stream chunks err); run_ck_raw (encode_stream chunks err ++ tail) lens].

Definition oevent (e : p3_event) : obs :=
  match e with
  | EvHeaders r => OL [OT "headers"; OB r]
  | EvByte b => OL [OT "byte"; OB [b]]
  | EvBytes bs => OL [OT "bytes"; OB bs]
  | EvStruct r => OL [OT "structure"; OB r]
  | EvEnd => OL [OT "end"]
  end.
Definition p3_obs1 (s : p3_state) : obs :=
  match p3_phase_of s with
  | P3Failed e => OE e
  | _ => OL [oopt oZ (p3_hint s); obool (p3_finished s); olist oevent (p3_events s); OB (p3_unused s)]
  end.
Fixpoint p3_trace (s : p3_state) (segs : list bytes) : list obs :=
  match segs with
  | [] => []
  | seg :: segs' => let s' := p3_accept s seg in p3_obs1 s' :: p3_trace s' segs'
  end.
Definition run_p3_raw (client : bool) (stream : bytes) (lens : list nat) : obs :=
  let i := if client then p3_init_client else p3_init_server in
  OL (p3_obs1 i :: p3_trace i (cut lens stream)).
Definition run_p3 (client : bool) (headers : bytes) (parts : list p3_part) (tail : bytes) (lens : list nat) : obs :=
  let enc := if client then p3_encode headers parts else p3_encode_body headers parts in
  OL [OB (p3_encode headers parts); run_p3_raw client (enc ++ tail) lens].

(* hint-driven read loops on exactly one message (no tail): the sizes actually
   read and the outcome *)
Section RlObs.
  Variable St : Type.
  Variable accept : St -> bytes -> St.
  Variable hint : St -> Z.
  Variable finished : St -> bool.
  Fixpoint rl_sizes (pol : list N) (s : St) (stream : bytes) : list obs :=
    if finished s then [OT "finished"; onat (length stream)] else
    match pol with
    | [] => [OT "out-of-policy"]
    | k :: pol' =>
        let h := hint s in
        if (Z.of_nat (length stream) <? h)%Z then [OT "would-block"; oZ h; onat (length stream)]
        else let n := rl_amount k h in
             OL [oZ h; onat n] :: rl_sizes pol' (accept s (firstn n stream)) (skipn n stream)
    end.
End RlObs.
Definition p3_hintZ (s : p3_state) : Z := match p3_hint s with Some z => z | None => (-1)%Z end.
Definition p3_stop (s : p3_state) : bool := (p3_hintZ s =? 0)%Z.
Definition run_rl_lp (stream : bytes) (pol : list N) : obs :=
  OL (rl_sizes _ lp_accept lp_hint lp_finished pol lp_init stream).
Definition run_rl_ck (stream : bytes) (pol : list N) : obs :=
  OL (rl_sizes _ ck_accept ck_hint ck_finished pol ck_init stream).
Definition run_rl_p3 (client : bool) (stream : bytes) (pol : list N) : obs :=
  OL (rl_sizes _ p3_accept p3_hintZ p3_stop pol (if client then p3_init_client else p3_init_server) stream).

(* tuple and offsets codecs *)
Definition odt (r : dt_result) : obs :=
  match r with DtNone => ON | DtErr => OE "SmartProtocolError" | DtOk a => olist obytes a end.
Definition run_tuple (args : list bytes) : obs :=
  OL [OB (encode_tuple args); odt (decode_tuple (encode_tuple args))].
Definition run_decode_tuple (line : bytes) : obs := odt (decode_tuple line).
Definition run_offsets (offs : list (N * N)) : obs :=
  OL [OB (serialise_offsets offs);
      oopt (olist (opair oN oN)) (deserialise_offsets (serialise_offsets offs))].
(* ConventionalResponseHandler fed a sequence of parts: its fields, or the error *)
Definition run_rh (evs : list p3_event) : obs :=
  match rh_run rh_init evs with
  | None => OE "SmartProtocolError"
  | Some s => OL [oopt (fun b => OB [b]) (rh_status s); oopt obytes (rh_args s); olist obytes (rh_parts s);
                  obool (rh_body_started s); oopt (fun b => OB [b]) (rh_stream_status s);
                  oopt obytes (rh_error_args s)]
  end.
Definition run_deser (text : bytes) : obs := oopt (olist (opair oN oN)) (deserialise_offsets text).
