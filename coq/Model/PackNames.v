(* Model/PackNames.v -- hand model (tie H) of the pack-names protocol of
   breezy/bzr/pack_repo.py : RepositoryPackCollection.  No proofs here.

   Pack names.  A real pack name is the md5 of the pack file's bytes, and pack
   files are produced deterministically from their content (probed: two
   independent `pack()` runs over the same packs give the same name; repacking
   a single pack that was itself produced by a packer is detected as "already
   optimally packed", old name == new hash; repacking a single pack written by
   a commit gives a different name).  So a name is modelled as its content plus
   one bit: [PN revs opt], revs = sorted duplicate-free revision numbers,
   opt = produced by a Packer (true) or by a write group commit (false).

   Shared state = what is on disk under .bzr/repository:
     disk  : content of the pack-names index           (set of names)
     packs : pack files (+their indices) in packs/,indices/
     obsd  : pack files in obsolete_packs/
     lock  : holder of the names mutex (repo.control_files, a LockDir)
   ghosts: committed (revisions whose write group reached the pack-names put),
           created (every name ever produced or initially present),
           collided (some process produced a name that already existed).

   Per process ([proc]) = one RepositoryPackCollection:
     at_load = _packs_at_load, names = _names (keys), plan = packs being
     combined (= obsolete_packs argument of _save_pack_names), todo = packs still
     to be moved by _obsolete_packs, clr = clear_obsolete_packs argument.

   One [step] = one interaction with the shared directory (see each case).
   The harness yields to the scheduler exactly before the steps for which
   [boundary] is true; the others are "silent" continuations. *)
From Coq Require Import List Bool Arith PeanoNat ZArith String.
From BV Require Import Lib.Obs.
Import ListNotations.
Open Scope nat_scope.

(* ---------- names and finite sets as lists ---------- *)
Record pname := PN { revs : list nat; opt : bool }.

Definition pname_eqb (a b : pname) : bool :=
  list_eqb Nat.eqb (revs a) (revs b) && Bool.eqb (opt a) (opt b).

Definition inb (n : pname) (l : list pname) : bool := existsb (pname_eqb n) l.
Definition diff (a b : list pname) : list pname := filter (fun n => negb (inb n b)) a.
Definition union (a b : list pname) : list pname := a ++ diff b a.
Definition subset (a b : list pname) : bool := forallb (fun n => inb n b) a.
Definition seteq (a b : list pname) : bool := subset a b && subset b a.
Definition remove1 (n : pname) (l : list pname) := filter (fun m => negb (pname_eqb n m)) l.

(* sorted duplicate-free list of revision numbers *)
Fixpoint ins (x : nat) (l : list nat) : list nat :=
  match l with
  | [] => [x]
  | y :: t => if x <? y then x :: l else if x =? y then l else y :: ins x t
  end.
Definition norm (l : list nat) : list nat := fold_right ins [] l.
Definition all_revs (l : list pname) : list nat := norm (flat_map revs l).

(* ---------- _diff_pack_names / the three-way merge ----------
   deleted_nodes = _packs_at_load - current_nodes ; new_nodes = current_nodes - _packs_at_load
   disk_nodes.difference_update(deleted_nodes) ; disk_nodes.update(new_nodes) *)
Definition deleted_nodes (at_load cur : list pname) := diff at_load cur.
Definition new_nodes (at_load cur : list pname) := diff cur at_load.
Definition merge3 (at_load cur dsk : list pname) : list pname :=
  union (diff dsk (deleted_nodes at_load cur)) (new_nodes at_load cur).

(* ---------- autopack trigger: _max_pack_count (digit sum) ---------- *)
Fixpoint digsum (fuel n : nat) : nat :=
  match fuel with
  | 0 => n
  | S f => if n <? 10 then n else n mod 10 + digsum f (n / 10)
  end.
Definition max_pack_count (total : nat) : nat := if total =? 0 then 1 else digsum 20 total.
(* key_count of the combined revision index sums the per-pack counts *)
Definition total_revisions (l : list pname) : nat := fold_right (fun n a => List.length (revs n) + a) 0 l.
(* _do_autopack: nothing if max_pack_count >= number of packs; otherwise
   plan_autopack_combinations.  The plan is modelled as "all packs", which is what
   the real planner returns whenever no pack reaches the head of the pack
   distribution (all scenarios of the correspondence run; see notes/C05.md).
   The theory only uses [auto_plan l] is a sub-list of [l]. *)
Definition auto_plan (l : list pname) : list pname :=
  if List.length l <=? max_pack_count (total_revisions l) then [] else l.

(* ---------- state ---------- *)
Inductive role := RCommit (rs : list nat) | RPack | RRead.

Inductive pcT :=
| PStart            (* lock_write/lock_read -> _refresh_data -> ensure_loaded: read pack-names *)
| PCheck            (* commit: index look-ups before writing (all listed indices are read) *)
| PAdd              (* commit: NewPack.finish moves upload/x.pack -> packs/X.pack; allocate *)
| PMkPlan           (* silent: _do_autopack / _try_pack_operations decide what to combine *)
| PPlanRead         (* packer reads the source packs (retry when one is missing) *)
| PCreate           (* Packer: new pack moved into packs/; allocate; _remove_pack_from_memory *)
| PLock             (* _save_pack_names: lock_names *)
| PSave             (* _diff_pack_names + put_file pack-names (+ _packs_at_load, sync) *)
| PClear            (* _clear_obsolete_packs(preserve) *)
| PUnlock           (* _unlock_names *)
| PObs              (* _obsolete_packs: first pack moved to obsolete_packs/ *)
| PObsMore          (* silent: remaining packs of the same _obsolete_packs loop *)
| PCount            (* pack(): _try_pack_operations reads the revision indices (get_revision_count) *)
| PRead             (* reader: all_revision_ids over its view (revision indices) *)
| PRead2            (* reader: get_revision / revision_tree of every revision (pack data, inventory indices) *)
| PRead3            (* reader: walks the lazily loaded inventories (CHK pages through the chk indices) *)
| PReload (k : pcT) (* reload_pack_names after a missing file, then continue at k *)
| PDone | PFail.

Record proc := Proc {
  prole : role; pc : pcT;
  at_load : list pname; names : list pname;
  plan : list pname; todo : list pname; clr : bool;
  pend : list nat;       (* revisions of the not yet listed write group *)
  seen : list nat;       (* reader: revisions it could read *)
  reloads : nat }.

Record shared := Shared {
  disk : list pname; packs : list pname; obsd : list pname; lock : option nat;
  committed : list nat; created : list pname; collided : bool }.

Record sys := Sys { sh : shared; procs : nat -> proc }.

Definition upd (f : nat -> proc) (p : nat) (v : proc) : nat -> proc :=
  fun q => if Nat.eqb q p then v else f q.

Definition idle : proc := Proc RRead PDone [] [] [] [] false [] [] 0.
Definition fresh_proc (r : role) : proc := Proc r PStart [] [] [] [] false [] [] 0.

Definition set_pc (pr : proc) (k : pcT) : proc :=
  Proc (prole pr) k (at_load pr) (names pr) (plan pr) (todo pr) (clr pr) (pend pr) (seen pr) (reloads pr).

(* a pack file appears in packs/ *)
Definition create_pack (s : shared) (n : pname) : shared :=
  Shared (disk s) (if inb n (packs s) then packs s else n :: packs s) (obsd s) (lock s)
         (committed s) (if inb n (created s) then created s else n :: created s)
         (collided s || inb n (created s)).

Definition repacked (pl : list pname) : pname := PN (all_revs pl) true.

(* one atomic step of process [p] whose local state is [pr]; None = cannot move *)
Definition step_proc (p : nat) (s : shared) (pr : proc) : option (shared * proc) :=
  match pc pr with
  | PStart =>
      let k := match prole pr with RCommit _ => PCheck | RPack => PCount | RRead => PRead end in
      Some (s, Proc (prole pr) k (disk s) (disk s) [] [] false [] [] (reloads pr))
  | PCheck =>
      Some (s, set_pc pr (if subset (names pr) (packs s) then PAdd else PReload PCheck))
  | PCount =>
      Some (s, set_pc pr (if subset (names pr) (packs s) then PMkPlan else PReload PCount))
  | PReload k =>
      (* reload_pack_names: _packs_at_load := orig disk; _names := merged; True iff changed *)
      let m := merge3 (at_load pr) (names pr) (disk s) in
      let k' := if seteq m (names pr) then PFail else k in
      Some (s, Proc (prole pr) k' (disk s) m [] [] false (pend pr) (seen pr) (S (reloads pr)))
  | PAdd =>
      match prole pr with
      | RCommit rs =>
          let x := PN (norm rs) false in
          Some (create_pack s x,
                Proc (prole pr) PMkPlan (at_load pr) (names pr ++ [x]) [] [] false rs (seen pr) (reloads pr))
      | _ => None
      end
  | PMkPlan =>
      match prole pr with
      | RCommit _ =>
          let pl := auto_plan (names pr) in
          (* _execute_pack_operations saves with clear_obsolete_packs=True; the plain
             _save_pack_names() after an autopack that did nothing does not clear *)
          Some (s, Proc (prole pr) (match pl with [] => PLock | _ => PPlanRead end)
                        (at_load pr) (names pr) pl [] (match pl with [] => false | _ => true end)
                        (pend pr) (seen pr) (reloads pr))
      | RPack =>
          let pl := names pr in
          Some (s, Proc (prole pr) (match pl with [] => PLock | _ => PPlanRead end)
                        (at_load pr) (names pr) pl [] true (pend pr) (seen pr) (reloads pr))
      | RRead => None
      end
  | PPlanRead =>
      if subset (plan pr) (packs s) then
        let y := repacked (plan pr) in
        match plan pr with
        | [n] => if pname_eqb n y
                 then (* "already optimally packed": Packer.pack returns None *)
                   match prole pr with
                   | RCommit _ => Some (s, Proc (prole pr) PLock (at_load pr) (names pr) [] [] false (pend pr) (seen pr) (reloads pr))
                   | _ => Some (s, set_pc pr PDone)
                   end
                 else Some (s, set_pc pr PCreate)
        | _ => Some (s, set_pc pr PCreate)
        end
      else (* RetryAutopack restarts _do_autopack; RetryPackOperations restarts _try_pack_operations *)
        Some (s, set_pc pr (PReload (match prole pr with RPack => PCount | _ => PMkPlan end)))
  | PCreate =>
      let y := repacked (plan pr) in
      if inb y (names pr)
      then (* allocate: "Pack ... already exists" *) Some (create_pack s y, set_pc pr PFail)
      else Some (create_pack s y,
                 Proc (prole pr) PLock (at_load pr) (diff (names pr) (plan pr) ++ [y]) (plan pr) (plan pr)
                      (clr pr) (pend pr) (seen pr) (reloads pr))
  | PLock =>
      match lock s with
      | None => Some (Shared (disk s) (packs s) (obsd s) (Some p) (committed s) (created s) (collided s),
                      set_pc pr PSave)
      | Some _ => None
      end
  | PSave =>
      let m := merge3 (at_load pr) (names pr) (disk s) in
      Some (Shared m (packs s) (obsd s) (lock s) (committed s ++ pend pr) (created s) (collided s),
            Proc (prole pr) (if clr pr then PClear else PUnlock) m m (plan pr) (todo pr) (clr pr) [] (seen pr) (reloads pr))
  | PClear =>
      (* everything in obsolete_packs/ whose name is not preserved is deleted;
         found names are not moved again *)
      Some (Shared (disk s) (packs s) (filter (fun n => inb n (plan pr)) (obsd s)) (lock s)
                   (committed s) (created s) (collided s),
            Proc (prole pr) PUnlock (at_load pr) (names pr) (plan pr) (diff (plan pr) (obsd s)) (clr pr)
                 (pend pr) (seen pr) (reloads pr))
  | PUnlock =>
      Some (Shared (disk s) (packs s) (obsd s) None (committed s) (created s) (collided s),
            set_pc pr (match todo pr with [] => PDone | _ => PObs end))
  | PObs | PObsMore =>
      match todo pr with
      | [] => Some (s, set_pc pr PDone)
      | n :: rest =>
          let s' := if inb n (packs s)
                    then Shared (disk s) (remove1 n (packs s)) (if inb n (obsd s) then obsd s else n :: obsd s)
                                (lock s) (committed s) (created s) (collided s)
                    else s (* "couldn't rename obsolete pack, skipping it" *) in
          Some (s', Proc (prole pr) (match rest with [] => PDone | _ => PObsMore end)
                         (at_load pr) (names pr) (plan pr) rest (clr pr) (pend pr) (seen pr) (reloads pr))
      end
  | PRead =>
      if subset (names pr) (packs s)
      then Some (s, Proc (prole pr) PRead2 (at_load pr) (names pr) [] [] false [] (all_revs (names pr)) (reloads pr))
      else Some (s, set_pc pr (PReload PRead))
  | PRead2 =>
      Some (s, set_pc pr (if subset (names pr) (packs s) then PRead3 else PReload PRead2))
  | PRead3 =>
      Some (s, set_pc pr (if subset (names pr) (packs s) then PDone else PReload PRead3))
  | PDone | PFail => None
  end.

Definition step (p : nat) (st : sys) : option sys :=
  match step_proc p (sh st) (procs st p) with
  | Some (s', pr') => Some (Sys s' (upd (procs st) p pr'))
  | None => None
  end.

(* ---------- scenarios, macro steps and observations for the correspondence run ---------- *)
Definition silent (k : pcT) : bool :=
  match k with PMkPlan | PObsMore => true | _ => false end.

(* a scheduler entry = run p from one yield point to the next *)
Fixpoint silent_run (fuel p : nat) (st : sys) : sys :=
  match fuel with
  | 0 => st
  | S f => if silent (pc (procs st p))
           then match step p st with Some st' => silent_run f p st' | None => st end
           else st
  end.
Definition macro (p : nat) (st : sys) : option sys :=
  match step p st with
  | Some st' => Some (silent_run 40 p st')
  | None => None
  end.

Fixpoint run_macro (sched : list nat) (st : sys) : sys :=
  match sched with
  | [] => st
  | p :: rest => match macro p st with Some st' => run_macro rest st' | None => run_macro rest st end
  end.

(* after the schedule: every process in pid order runs until finished or blocked, repeatedly *)
Fixpoint exhaust (fuel p : nat) (st : sys) : sys :=
  match fuel with
  | 0 => st
  | S f => match macro p st with Some st' => exhaust f p st' | None => st end
  end.
Definition finish_round (n : nat) (st : sys) : sys :=
  fold_left (fun s p => exhaust 80 p s) (seq 0 n) st.
Fixpoint finish (rounds n : nat) (st : sys) : sys :=
  match rounds with 0 => st | S r => finish r n (finish_round n st) end.

Definition mk_procs (rs : list role) : nat -> proc :=
  fun p => match nth_error rs p with Some r => fresh_proc r | None => idle end.
Definition init_sys (base : list (list nat)) (rs : list role) : sys :=
  let d := map (fun l => PN (norm l) false) base in
  Sys (Shared d d [] None (flat_map revs d) d false) (mk_procs rs).

(* lexicographic sort of packs by revision list, for canonical observations *)
Fixpoint lex_leb (a b : list nat) : bool :=
  match a, b with
  | [], _ => true
  | _ :: _, [] => false
  | x :: a', y :: b' => if x <? y then true else if y <? x then false else lex_leb a' b'
  end.
Fixpoint lins (x : list nat) (l : list (list nat)) : list (list nat) :=
  match l with
  | [] => [x]
  | y :: t => if lex_leb x y then x :: l else y :: lins x t
  end.
Definition oset (l : list pname) : obs :=
  olist (olist onat) (fold_right lins [] (map revs l)).

Definition oproc (pr : proc) : obs :=
  match pc pr with
  | PDone => match prole pr with
             | RRead => OL [OT "ok"; olist onat (seen pr); onat (reloads pr)]
             | _ => OL [OT "ok"; onat (reloads pr)]
             end
  | PFail => OL [OT "fail"; onat (reloads pr)]
  | _ => OT "stuck"
  end.

Definition final_read (s : shared) : obs :=
  if subset (disk s) (packs s) then olist onat (all_revs (disk s)) else OE "NoSuchFile".

Definition observe (n : nat) (st : sys) : obs :=
  OL [ OL (map (fun p => oproc (procs st p)) (seq 0 n));
       oset (disk (sh st)); oset (packs (sh st)); oset (obsd (sh st));
       final_read (sh st); obool (collided (sh st)) ].

(* the scheduled run: base = revision lists of the initial packs *)
Definition run_case (base : list (list nat)) (rs : list role) (sched : list nat) : obs :=
  let n := List.length rs in
  observe n (finish (S n) n (run_macro sched (init_sys base rs))).

(* the exhaustive set-algebra comparison of _diff_pack_names over a 4-name universe:
   sets are given as lists of indices 0..3 *)
Definition uni (l : list nat) : list pname := map (fun i => PN [i] false) l.
Definition oidx (l : list pname) : obs :=
  olist onat (filter (fun i => inb (PN [i] false) l) (seq 0 4)).
Definition run_diff (at_l cur dsk : list nat) : obs :=
  let a := uni at_l in let c := uni cur in let d := uni dsk in
  OL [ oidx (merge3 a c d); oidx (deleted_nodes a c); oidx (new_nodes a c); oidx d ].
(* _save_pack_names driven directly: pack-names written, _packs_at_load, _names afterwards *)
Definition run_save (at_l cur dsk : list nat) : obs :=
  let m := merge3 (uni at_l) (uni cur) (uni dsk) in OL [ oidx m; oidx m; oidx m ].
(* reload_pack_names driven directly: _packs_at_load, _names afterwards, changed? *)
Definition run_reload (at_l cur dsk : list nat) : obs :=
  let m := merge3 (uni at_l) (uni cur) (uni dsk) in
  OL [ oidx (uni dsk); oidx m; obool (negb (seteq m (uni cur))) ].
(* batched forms: one (at_load, current) pair against a list of disk sets *)
Definition run_diffs (at_l cur : list nat) (dsks : list (list nat)) : obs := OL (map (run_diff at_l cur) dsks).
Definition run_saves (at_l cur : list nat) (dsks : list (list nat)) : obs := OL (map (run_save at_l cur) dsks).
Definition run_reloads (at_l cur : list nat) (dsks : list (list nat)) : obs := OL (map (run_reload at_l cur) dsks).
