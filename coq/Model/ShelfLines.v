(* Model/ShelfLines.v -- hand model for C15 (part 2: line-level hunk selection).
   breezy/shelf_ui.py : Shelver._select_hunks (the loop over parsed.hunks with the offset
     bookkeeping, both for ShelfReporter (invert_diff = False) and ApplyReporter (True)),
     followed by patches.iter_patched_from_hunks (Model/Patch.v: [apply], C39);
   breezy/shelf.py : ShelfCreator.shelve_lines / _inverse_lines (Merge3(new_lines, target, work))
     and the text merge of Unshelver (Merge3 of base = target, other = shelf text, this = tree text).
   Environment: merge3 + patiencediff.  They are NOT modelled; the texts the two merges are expected
   to return are given here as [render] of a segment decomposition ([shelf_text], [unshelved_text])
   and compared with the real merges by the correspondence run.  No proofs here. *)
From Coq Require Import NArith ZArith List Bool.
From BV Require Import Lib.Bytes Lib.Obs Model.Patch.
Import ListNotations.

(* ---- _select_hunks, `if not self.auto` loop.  answers = the prompt_bool results, one per hunk
   (a missing answer counts as False).  Result: final_hunks with their adjusted mod_pos. *)
Fixpoint select_loop (invert : bool) (hs : list hunk) (answers : list bool) (offset : Z)
  : list (hunk * Z) :=
  match hs with
  | [] => []
  | h :: r =>
      let ans := hd false answers in
      let selected := if invert then ans else negb ans in       (* if not invert_diff: selected = not selected *)
      if selected
      then (h, (Z.of_nat (mod_pos h) + offset)%Z) :: select_loop invert r (tl answers) offset
      else select_loop invert r (tl answers)
             (offset - (Z.of_nat (mod_range h) - Z.of_nat (orig_range h)))%Z
  end.

Definition final_hunks (invert : bool) (hs : list hunk) (answers : list bool) : list hunk :=
  map fst (select_loop invert hs answers 0%Z).

(* change_count *)
Definition change_count (invert : bool) (hs : list hunk) (answers : list bool) : nat :=
  if invert then length (final_hunks invert hs answers)
  else length hs - length (final_hunks invert hs answers).

(* lines = list(iter_patched_from_hunks(target_lines, final_hunks)); [start] is the text the hunks
   are applied to: the target text, or the work text when the diff is inverted *)
Definition select_hunks (invert : bool) (start : list line) (hs : list hunk) (answers : list bool)
  : aerr + list line := apply start (final_hunks invert hs answers).

(* ---- the segment view of a text and its hunks (specification level) ---- *)
Record seg := Seg { sgap : list line; sold : list line; snew : list line }.

Fixpoint render (ss : list seg) (mask : list bool) (tail : list line) : list line :=
  match ss with
  | [] => tail
  | s :: r => sgap s ++ (if hd false mask then snew s else sold s) ++ render r (tl mask) tail
  end.

(* cut [rest] (the original text from line p+1 on) at the hunks *)
Fixpoint segs_of (hs : list hunk) (rest : list line) (p : nat) : list seg * list line :=
  match hs with
  | [] => ([], rest)
  | h :: r =>
      let k := orig_pos h - S p in
      let old := old_side (hlines h) in
      let '(ss, tl) := segs_of r (skipn (k + length old) rest) (p + k + length old) in
      (Seg (firstn k rest) old (new_side (hlines h)) :: ss, tl)
  end.

(* which hunks are applied: hunk i is kept iff ... *)
Fixpoint kept_mask (invert : bool) (n : nat) (answers : list bool) : list bool :=
  match n with
  | O => []
  | S n' => (let ans := hd false answers in if invert then ans else negb ans)
            :: kept_mask invert n' (tl answers)
  end.

Fixpoint keep (mask : list bool) (hs : list hunk) : list hunk :=
  match hs with
  | [] => []
  | h :: r => if hd false mask then h :: keep (tl mask) r else keep (tl mask) r
  end.

Fixpoint pad (n : nat) (answers : list bool) : list bool :=
  match n with O => [] | S n' => hd false answers :: pad n' (tl answers) end.

(* shelve (invert = false): the diff is target -> work, [answers] = hunks to shelve.
   The tree keeps the hunks NOT shelved; the shelf must hold target + the shelved hunks; unshelving
   must give back the work text. *)
Definition tree_text (target : list line) (hs : list hunk) (answers : list bool) : list line :=
  let '(ss, tl) := segs_of hs target 0 in render ss (kept_mask false (length hs) answers) tl.
Definition shelf_text (target : list line) (hs : list hunk) (answers : list bool) : list line :=
  let '(ss, tl) := segs_of hs target 0 in render ss (pad (length hs) answers) tl.
Definition unshelved_text (target : list line) (hs : list hunk) : list line :=
  let '(ss, tl) := segs_of hs target 0 in render ss (repeat true (length hs)) tl.

(* ---- observation for the correspondence run (kind "hunks") ----
   a = target lines, b = work lines, ops = the matcher's opcodes, n = context lines;
   the implementation side reports: the parsed hunks' (orig_pos, mod_pos), lines / PatchConflict,
   change_count, adjusted mod_pos of final_hunks, the shelf text (_inverse_lines) and the text
   after unshelving. *)
Definition lines_obs (l : list line) : obs := olist OB l.

Definition run_hunks (invert : bool) (a b : list line) (ops : list opcode) (n : nat) (answers : list bool) : obs :=
  let hs := if invert then mk_hunks b a ops n else mk_hunks a b ops n in
  let start := if invert then b else a in
  OL [ olist (fun h => OL [onat (orig_pos h); onat (mod_pos h)]) hs;
       ares_obs (select_hunks invert start hs answers);
       onat (change_count invert hs answers);
       olist (fun p => OZ (snd p)) (select_loop invert hs answers 0%Z);
       (* nothing is shelved when change_count is 0 (handle_modify_text) *)
       (if invert || Nat.eqb (change_count invert hs answers) 0 then ON else lines_obs (shelf_text a hs answers));
       (if invert || Nat.eqb (change_count invert hs answers) 0 then ON else lines_obs (unshelved_text a hs)) ].
