(* Model/NoLoss.v -- hand model for C12 (tree-changing commands never silently discard uncommitted work).
   Definitions only.  What each part mirrors:

   Part 1  breezy/transform.py : _alter_files -- the [keep_content] decision and what is done with the
           working-tree content of one reported change (delete_contents / rename to a backup / keep in place).
   Part 2  flat working-tree states and [revert]: transform.revert -> _prepare_revert_transform -> _alter_files,
           TreeTransform._available_backup_name -> osutils.available_backup_name (crates/osutils/src/path.rs),
           transform.resolve_duplicate (an unversioned file in the way is moved to <name>.moved),
           the merge_modified bookkeeping of _alter_files + WorkingTree.set_merge_modified/merge_modified.
   Part 3  breezy/bzr/workingtree.py : InventoryWorkingTree.remove (keep_files / force / files_to_backup,
           ControlDir._available_backup_name).
   Part 4  breezy/merge.py : Merge3Merger._do_merge_contents / merge_contents / text_merge / _dump_conflicts for one
           path, on top of Model/TextMerge.v (C19), + transform.resolve_duplicate for "two entries, one path".

   Simplifications (domain of the model; the correspondence run marks everything else "unmodelled" and checks
   it with the property oracle only): one directory level (directories are leaves that may hold unversioned
   files), file identity = name (no renames), no executable bit, sha1 = the content itself (no collisions). *)
From Coq Require Import NArith List Bool String Ascii.
From BV Require Import Lib.Bytes Lib.Obs Lib.DecBytes Model.TextMerge.
Import ListNotations.
Open Scope N_scope.

(* ------------------------------------------------------------------ Part 1: the decision *)
Inductive kind := KFile | KDir | KLink.

(* everything the decision reads for one change of iter_changes(working tree vs target) *)
Record chg := {
  wt_kind : option kind;        (* change.kind[1] *)
  target_kind : option kind;    (* change.kind[0] *)
  backups : bool;               (* revert(backups=...) ; the command line passes  not --no-backup *)
  mm_match : bool;              (* merge_modified.get(wt_path) == wt_sha1 *)
  in_basis : bool;              (* basis_inter.find_source_path(wt_path) is not None *)
  target_versioned : bool;      (* change.versioned[0]; read by the decision only before cd17d15 *)
  sha_eq_basis : bool           (* wt_sha1 == basis_tree.get_file_sha1(basis_path) *)
}.

Definition is_none {A} (o : option A) : bool := match o with None => true | Some _ => false end.
Definition is_some {A} (o : option A) : bool := negb (is_none o).
Definition is_file (k : option kind) : bool := match k with Some KFile => true | _ => false end.

(* transform.py 962-986, branch by branch (as repaired by cd17d15: a file that is not in the basis is always
   kept; "wt_sha1 is None" counts as different -- the model works with the contents, so a hash is never None) *)
Definition keep_content (c : chg) : bool :=
  if is_file (wt_kind c) && (backups c || is_none (target_kind c)) then
    if negb (mm_match c) then
      if negb (in_basis c) then true
      else
        (if negb (sha_eq_basis c) then true else false)
    else false
  else false.

(* the decision before cd17d15 (kept for the record: see C12_old_decision_refuted) *)
Definition keep_content_old (c : chg) : bool :=
  if is_file (wt_kind c) && (backups c || is_none (target_kind c)) then
    if negb (mm_match c) then
      if negb (in_basis c) then
        (if is_none (target_kind c) && negb (target_versioned c) then true else false)
      else
        (if negb (sha_eq_basis c) then true else false)
    else false
  else false.

Inductive action := ANothing | ADelete | ABackup | AKeepInPlace.

(* transform.py 980-996:  if wt_kind is not None: if not keep_content: delete_contents
                                                  elif target_kind is not None: <rename to backup> *)
Definition alter_action (c : chg) : action :=
  match wt_kind c with
  | None => ANothing
  | Some _ =>
      if negb (keep_content c) then ADelete
      else if is_some (target_kind c) then ABackup
      else AKeepInPlace
  end.

(* the property's notion for one change: content of a FILE that differs from the basis (or is not in the
   basis at all) and was not written by a merge *)
Definition user_edited_chg (c : chg) : bool :=
  is_file (wt_kind c) && negb (mm_match c) && (negb (in_basis c) || negb (sha_eq_basis c)).

(* ------------------------------------------------------------------ Part 2: flat trees, revert *)
Inductive node :=
| NFile (c : bytes)
| NLink (t : bytes)
| NDir (kids : list (bytes * bytes)).     (* unversioned plain files inside the directory *)

Definition fmap := list (bytes * node).

Definition memn (n : bytes) (l : list bytes) : bool := existsb (bytes_eqb n) l.
Fixpoint lookup {A} (n : bytes) (m : list (bytes * A)) : option A :=
  match m with
  | [] => None
  | (k, v) :: m' => if bytes_eqb n k then Some v else lookup n m'
  end.
Definition names {A} (m : list (bytes * A)) : list bytes := map fst m.
Fixpoint nodupb (l : list bytes) : bool :=
  match l with [] => true | x :: t => negb (memn x t) && nodupb t end.
Fixpoint dedup (l : list bytes) : list bytes :=
  match l with [] => [] | x :: t => if memn x t then dedup t else x :: dedup t end.
Definition remove_key {A} (n : bytes) (m : list (bytes * A)) : list (bytes * A) :=
  filter (fun kv => negb (bytes_eqb n (fst kv))) m.

Definition node_kind (nd : node) : kind :=
  match nd with NFile _ => KFile | NLink _ => KLink | NDir _ => KDir end.

Record state := {
  basis : fmap;                 (* the basis tree (a revision tree: directories have no kids) *)
  inv : list bytes;             (* versioned names of the working tree *)
  disk : fmap;                  (* what is on disk *)
  mm : list (bytes * bytes)     (* the stored merge-hashes: name -> content (sha1 = identity) *)
}.

(* WorkingTree.merge_modified(): only entries that are versioned and still have that hash *)
Definition mm_live (s : state) (n : bytes) : bool :=
  match lookup n (mm s), lookup n (disk s) with
  | Some h, Some (NFile c) => memn n (inv s) && bytes_eqb h c
  | _, _ => false
  end.

(* the working tree's entry for a name: versioned and present on disk *)
Definition wt_node (s : state) (n : bytes) : option node :=
  if memn n (inv s) then lookup n (disk s) else None.

(* change.changed_content of iter_changes *)
Definition changed_content (t w : option node) : bool :=
  match t, w with
  | None, None => false
  | Some (NFile a), Some (NFile b) => negb (bytes_eqb a b)
  | Some (NLink a), Some (NLink b) => negb (bytes_eqb a b)
  | Some (NDir _), Some (NDir _) => false
  | _, _ => true
  end.

Definition mk_chg (s : state) (target : fmap) (bk : bool) (n : bytes) : chg :=
  let wn := wt_node s n in
  {| wt_kind := option_map node_kind wn;
     target_kind := option_map node_kind (lookup n target);
     backups := bk;
     mm_match := mm_live s n;
     in_basis := is_some (lookup n (basis s));
     target_versioned := is_some (lookup n target);
     sha_eq_basis := match wn, lookup n (basis s) with
                     | Some (NFile c), Some (NFile b) => bytes_eqb c b
                     | _, _ => false
                     end |}.

Record nplan := { np_name : bytes; np_act : action; np_create : option node }.

(* one entry of the change list; None = iter_changes does not report the name *)
Definition plan_name (s : state) (target : fmap) (bk : bool) (n : bytes) : option nplan :=
  let tn := lookup n target in
  if negb (is_some tn || memn n (inv s)) then None
  else if changed_content tn (wt_node s n)
       then Some {| np_name := n; np_act := alter_action (mk_chg s target bk n); np_create := tn |}
       else Some {| np_name := n; np_act := ANothing; np_create := None |}.

Definition selected (sel : option (list bytes)) (n : bytes) : bool :=
  match sel with None => true | Some l => memn n l end.
Definition cands (s : state) (target : fmap) (sel : option (list bytes)) : list bytes :=
  filter (selected sel) (dedup (names target ++ inv s)).
Fixpoint plans (s : state) (target : fmap) (bk : bool) (ns : list bytes) : list nplan :=
  match ns with
  | [] => []
  | n :: t => match plan_name s target bk n with
              | Some p => p :: plans s target bk t
              | None => plans s target bk t
              end
  end.

(* osutils.available_backup_name: "<name>.~<k>~" for the least k >= 1 that [exists] rejects *)
Definition TILDE : N := 126.
Definition backup_name (n : bytes) (k : N) : bytes := n ++ [46; TILDE] ++ print_dec k ++ [TILDE].
(* [norm] = what the existence probe does to the candidate before looking it up: the identity, both for the
   transform's _has_named_child/lexists probe and (since b356f06, which escapes the path) for
   ControlDir._available_backup_name's root_transport.has.  A candidate found taken is dropped from
   [used]: candidates are pairwise different, so this changes no later answer and makes fuel = length used enough. *)
Fixpoint avail_gen (norm : bytes -> bytes) (n : bytes) (used : list bytes) (k : N) (fuel : nat) : bytes :=
  let c := backup_name n k in
  match fuel with
  | O => c
  | S f => if memn (norm c) used
           then avail_gen norm n (filter (fun x => negb (bytes_eqb (norm c) x)) used) (N.succ k) f
           else c
  end.
Definition avail (n : bytes) (used : list bytes) : bytes := avail_gen (fun c => c) n used 1 (List.length used).

(* the renames to backup names, in change order; [used] = names on disk + names the transform created *)
Fixpoint backups_of (used : list bytes) (ps : list nplan) (d : fmap) : fmap :=
  match ps with
  | [] => []
  | p :: t =>
      match np_act p, lookup (np_name p) d with
      | ABackup, Some nd => let b := avail (np_name p) used in (b, nd) :: backups_of (b :: used) t d
      | _, _ => backups_of used t d
      end
  end.
Definition goes_away (p : nplan) : bool :=
  match np_act p with ADelete | ABackup => true | _ => false end.
Definition removed_names (ps : list nplan) : list bytes := map np_name (filter goes_away ps).
Fixpoint creations (ps : list nplan) : fmap :=
  match ps with
  | [] => []
  | p :: t => match np_create p with Some nd => (np_name p, nd) :: creations t | None => creations t end
  end.
Definition MOVED : bytes := b_ ".moved".
(* transform.resolve_duplicate: something unversioned stays at a name the transform creates: it is moved *)
Definition move_aside (created : list bytes) (kv : bytes * node) : bytes * node :=
  if memn (fst kv) created then (fst kv ++ MOVED, snd kv) else kv.

(* a directory whose content is deleted must not hold unversioned files (otherwise conflict resolution
   keeps it as <name>.new -- outside the model) *)
Definition dir_with_kids (d : fmap) (n : bytes) : bool :=
  match lookup n d with Some (NDir (_ :: _)) => true | _ => false end.

Definition mm_after (s : state) (ps : list nplan) (live : list (bytes * bytes)) : list (bytes * bytes) :=
  fold_left (fun acc p =>
    match np_create p with
    | Some (NFile tc) =>
        match lookup (np_name p) (basis s) with
        | Some (NFile b) => if bytes_eqb tc b then remove_key (np_name p) acc
                            else (np_name p, tc) :: remove_key (np_name p) acc
        | _ => (np_name p, tc) :: remove_key (np_name p) acc
        end
    | _ => acc
    end) ps live.

(* None = outside the modelled domain (a name clash that transform.resolve_conflicts would have to sort out
   differently, or a directory with unversioned files losing its place) *)
Definition revert (target : fmap) (sel : option (list bytes)) (bk : bool) (s : state) : option state :=
  let cs := cands s target sel in
  let ps := plans s target bk cs in
  let gone := removed_names ps in
  let cr := creations ps in
  let d1 := filter (fun kv => negb (memn (fst kv) gone)) (disk s) in
  let d' := map (move_aside (names cr)) d1 ++ backups_of (names (disk s)) ps (disk s) ++ cr in
  if nodupb (names d') && negb (existsb (dir_with_kids (disk s)) gone) then
    Some {| basis := basis s;
            inv := filter (fun n => negb (memn n cs)) (inv s) ++ filter (fun n => is_some (lookup n target)) cs;
            disk := d';
            mm := mm_after s ps (filter (fun kv => mm_live s (fst kv)) (mm s)) |}
  else None.

(* the property's notion on states: the file's content differs from the basis and is not a merge result *)
Definition user_edited (s : state) (n : bytes) (c : bytes) : Prop :=
  lookup n (disk s) = Some (NFile c)
  /\ mm_live s n = false
  /\ lookup n (basis s) <> Some (NFile c).

(* ------------------------------------------------------------------ Part 3: remove *)
(* files_to_backup (only computed when not keep_files and not force) for one named path:
   iter_changes(basis, want_unversioned): not in the basis -> backup; an unversioned path is backed up in any
   case ("f in files_to_backup or (not fid and not force)", 86c5d42);
   versioned, changed_content, still present -> backup *)
Definition to_backup (s : state) (n : bytes) : bool :=
  if memn n (inv s) then
    is_none (lookup n (basis s))
    || (changed_content (lookup n (basis s)) (lookup n (disk s)) && is_some (lookup n (disk s)))
  else true.

Definition set_disk (a : state) (d : fmap) : state := {| basis := basis a; inv := inv a; disk := d; mm := mm a |}.

(* one iteration of the "for f in files" loop *)
Definition remove_one (keep force : bool) (s0 : state) (a : state) (n : bytes) : state :=
  if keep then a
  else match lookup n (disk a) with
       | None => a
       | Some nd =>
           let need_backup := match nd with
                              | NDir (_ :: _) => negb force          (* non-empty directory: rmtree / backup *)
                              | _ => negb force && to_backup s0 n    (* f in files_to_backup or (not fid and not force) *)
                              end in
           if need_backup then
             let b := avail n (names (disk a)) in                    (* ControlDir._available_backup_name *)
             set_disk a (remove_key b (remove_key n (disk a)) ++ [(b, nd)])   (* os.rename *)
           else set_disk a (remove_key n (disk a))
       end.

(* [files]: in the order of the loop (all_files sorted in reverse); the inventory delta is applied after it *)
Definition remove (files : list bytes) (keep force : bool) (s : state) : state :=
  let a := fold_left (remove_one keep force s) (dedup files) s in
  {| basis := basis a; inv := filter (fun m => negb (memn m files)) (inv a); disk := disk a; mm := mm a |}.

(* ------------------------------------------------------------------ Part 4: one path through a merge *)
Record mres := {
  r_main : option bytes; r_base : option bytes; r_this : option bytes; r_other : option bytes;
  r_moved : option bytes;
  r_conf : string;              (* "" | "text" | "contents" | "duplicate" *)
  r_mm : bool                   (* the path is in merge_modified() afterwards: Merge3Merger.write_modified records the
                                   paths InventoryTreeTransform._apply_insertions reports as modified, i.e. the
                                   trans_ids that received NEW CONTENT (not those that were merely renamed) *)
}.
Definition mres0 (this : bytes) : mres :=
  {| r_main := Some this; r_base := None; r_this := None; r_other := None; r_moved := None; r_conf := "";
     r_mm := false |}.

Definition of_wt (w : wt) (wrote : bool) : mres :=
  {| r_main := f_main w; r_base := f_base w; r_this := f_this w; r_other := f_other w;
     r_moved := None; r_conf := if conflicted w then "text" else ""; r_mm := wrote |}.

(* base / other: None = the path (file id) is absent from that tree.  this_versioned = false: the file is
   on disk but unversioned (unknown, or removed with --keep).  same_id: when BASE lacks the file and THIS
   added it, whether OTHER's new file has the same file id. *)
Definition merge_entry (o : opts) (base : option (list line)) (this : list line) (this_versioned same_id : bool)
    (other : option (list line)) (rs : list iregion) : option mres :=
  let tt := text this in
  if negb this_versioned then
    match base, other with
    | _, None => Some (mres0 tt)                              (* this_pair == other_pair == (None, None) *)
    | None, Some ot =>                                         (* new file meets an unversioned one: duplicate *)
        Some {| r_main := Some (text ot); r_base := None; r_this := None; r_other := None;
                r_moved := Some tt; r_conf := "duplicate"; r_mm := true |}
    | Some b, Some ot =>
        if bytes_eqb (text b) (text ot) then Some (mres0 tt)
        else Some {| r_main := Some tt; r_base := Some (text b); r_this := None; r_other := Some (text ot);
                     r_moved := None; r_conf := "contents"; r_mm := false |}
    end
  else
    match base, other with
    | None, None => Some (mres0 tt)
    | None, Some ot =>
        if same_id then
          if bytes_eqb tt (text ot) then Some (mres0 tt)       (* _three_way: this == other *)
          else match text_merge o [] this ot rs with
               | None => None
               | Some (ls, true) =>
                   Some {| r_main := Some (text ls); r_base := None; r_this := Some tt; r_other := Some (text ot);
                           r_moved := None; r_conf := "text"; r_mm := true |}
               | Some (ls, false) =>
                   Some {| r_main := Some (text ls); r_base := None; r_this := None; r_other := None;
                           r_moved := None; r_conf := ""; r_mm := true |}
               end
        else Some {| r_main := Some (text ot); r_base := None; r_this := None; r_other := None;
                     r_moved := Some tt; r_conf := "duplicate"; r_mm := true |}
    | Some b, None =>
        if bytes_eqb tt (text b) then                           (* winner other, OTHER deleted it: "delete" *)
          Some {| r_main := None; r_base := None; r_this := None; r_other := None; r_moved := None; r_conf := "";
                  r_mm := false |}
        else Some {| r_main := None; r_base := Some (text b); r_this := Some tt; r_other := None;
                     r_moved := None; r_conf := "contents"; r_mm := false |}
    | Some b, Some ot =>
        match merge_file o b this ot rs (wt0 this) with
        | None => None
        | Some w =>                                             (* new content unless "unmodified" *)
            Some (of_wt w (negb (bytes_eqb (text b) (text ot)) && negb (bytes_eqb tt (text ot))))
        end
    end.

(* ------------------------------------------------------------------ observations *)
Definition onode (nd : node) : obs :=
  match nd with
  | NFile c => OL [OT "f"; OB c]
  | NLink t => OL [OT "l"; OB t]
  | NDir kids => OL [OT "d"; olist (opair OB OB) kids]
  end.
Definition kind_of_N (k : N) : option kind :=
  match k with 0 => None | 1 => Some KFile | 2 => Some KDir | _ => Some KLink end.

Definition obs_action (a : action) : obs :=
  OT (match a with ANothing => "nothing" | ADelete => "delete" | ABackup => "backup" | AKeepInPlace => "keep" end).

(* what the run looks at: for every name of the universe [u] what is there, how many entries exist in all,
   which names of [u] are versioned, which are in merge_modified() *)
Definition obs_state (u : list bytes) (s : state) : obs :=
  OL [olist (fun n => oopt onode (lookup n (disk s))) u;
      onat (List.length (disk s));
      olist (fun n => obool (memn n (inv s))) u;
      olist (fun n => obool (mm_live s n)) u].

Definition run_revert (u : list bytes) (target : fmap) (sel : option (list bytes)) (bk : bool) (s : state) : obs :=
  match revert target sel bk s with
  | None => OT "unmodelled"
  | Some s' => obs_state u s'
  end.
Definition run_remove (u : list bytes) (files : list bytes) (keep force : bool) (s : state) : obs :=
  obs_state u (remove files keep force s).

(* one truth-table row: the decision, and the same row pushed through [revert] on the one-file state the
   driver builds (so that Part 1 and Part 2 are tied to the same real run) *)
Definition run_decision (c : chg) : obs := obs_action (alter_action c).

Definition obs_mres (r : mres) : obs :=
  OL [oopt OB (r_main r); oopt OB (r_base r); oopt OB (r_this r); oopt OB (r_other r); oopt OB (r_moved r);
      OT (r_conf r); obool (r_mm r)].
Definition run_merge (o : opts) (base : option (list line)) (this : list line) (tv sid : bool)
    (other : option (list line)) (rs : list iregion) : obs :=
  match merge_entry o base this tv sid other rs with
  | None => OE "CantReprocessAndShowBase"
  | Some r => obs_mres r
  end.

(* truth-table rows: the decision on the row the driver computed from its input, the decision on the row the
   state model derives ([mk_chg]) for the single name "a", and the whole revert *)
Definition run_tt (c : chg) (u : list bytes) (target : fmap) (sel : option (list bytes)) (bk : bool) (s : state) : obs :=
  OL [run_decision c; run_decision (mk_chg s target bk [97]); run_revert u target sel bk s].

(* breezy/uncommit.py (src/uncommit.rs): the branch tip and the tree's parents move; no file, no inventory
   entry and no merge-hash is touched (C16 models the revision side) *)
Definition uncommit_tree (new_basis : fmap) (s : state) : state :=
  {| basis := new_basis; inv := inv s; disk := disk s; mm := mm s |}.
Definition run_uncommit (u : list bytes) (new_basis : fmap) (s : state) : obs :=
  obs_state u (uncommit_tree new_basis s).

(* ------------------------------------------------------------------ Part 5: switch --store *)
(* breezy/switch.py : switch(store_uncommitted) -> InventoryWorkingTree.store_uncommitted (shelve everything,
   Branch.store_uncommitted: ChangesAlreadyStored when the branch already holds a shelf; the shelf is WRITTEN
   before the tree is changed) -> set the branch reference -> Merge3Merger(base, target) ->
   restore_uncommitted (unshelve what the new branch holds, then delete it).
   The tree's uncommitted work is a list of (name, text); two branches false/true. *)
Record sst := {
  s_cur : bool;                                  (* the branch the checkout refers to *)
  s_tree : list (bytes * bytes);                 (* uncommitted texts in the tree *)
  s_stF : option (list (bytes * bytes));         (* what branch "false" has stored *)
  s_stT : option (list (bytes * bytes))          (* what branch "true" has stored *)
}.
Inductive sop := OEdit (n t : bytes) | OSwitch (to store : bool).

Definition stored (st : sst) (b : bool) := if b then s_stT st else s_stF st.
Definition set_stored (st : sst) (b : bool) (v : option (list (bytes * bytes))) : sst :=
  if b then {| s_cur := s_cur st; s_tree := s_tree st; s_stF := s_stF st; s_stT := v |}
  else {| s_cur := s_cur st; s_tree := s_tree st; s_stF := v; s_stT := s_stT st |}.
Definition set_tree (st : sst) (t : list (bytes * bytes)) : sst :=
  {| s_cur := s_cur st; s_tree := t; s_stF := s_stF st; s_stT := s_stT st |}.

(* the bool = the command raised (ChangesAlreadyStored) *)
Definition sstep (st : sst) (op : sop) : sst * bool :=
  match op with
  | OEdit n t => (set_tree st ((n, t) :: remove_key n (s_tree st)), false)
  | OSwitch to store =>
      if store then
        let after_store :=
          match s_tree st with
          | [] => Some st                                          (* shelve_all() is False: nothing to store *)
          | _ :: _ => match stored st (s_cur st) with
                      | Some _ => None                             (* ChangesAlreadyStored *)
                      | None => Some (set_tree (set_stored st (s_cur st) (Some (s_tree st))) [])
                      end
          end in
        match after_store with
        | None => (st, true)
        | Some st1 =>
            let st2 := {| s_cur := to; s_tree := s_tree st1; s_stF := s_stF st1; s_stT := s_stT st1 |} in
            match stored st2 to with
            | Some e => (set_tree (set_stored st2 to None) (e ++ s_tree st2), false)
            | None => (st2, false)
            end
        end
      else ({| s_cur := to; s_tree := s_tree st; s_stF := s_stF st; s_stT := s_stT st |}, false)
  end.

Definition all_work (st : sst) : list (bytes * bytes) :=
  s_tree st ++ match s_stF st with Some e => e | None => [] end ++ match s_stT st with Some e => e | None => [] end.

(* run a sequence, observing after every step: raised?, the text at each observed name *)
Definition obs_sst (u : list bytes) (st : sst) (raised : bool) : obs :=
  OL [obool raised; olist (fun n => oopt OB (lookup n (s_tree st))) u].
Fixpoint run_store_from (u : list bytes) (st : sst) (ops : list sop) : list obs :=
  match ops with
  | [] => []
  | op :: t => let '(st', r) := sstep st op in obs_sst u st' r :: run_store_from u st' t
  end.
Definition sst0 : sst := {| s_cur := false; s_tree := []; s_stF := None; s_stT := None |}.
Definition run_store (u : list bytes) (ops : list sop) : obs := OL (run_store_from u sst0 ops).
