(* Model/Log.v -- hand model of the revision selection of `log` (C25), on
   Lib/Dag + Lib/DagMergeSort + Model/RevSpec (branch, dotted revnos,
   iter_merge_sorted_revisions).

   breezy/log.py:
     reverse_by_depth                      -> rbd_raw / reverse_by_depth
     _rebase_merge_depth                   -> rebase_merge_depth
     _linear_view_revisions                -> linear_view          (a generator: items, then maybe an exception)
     _is_obvious_ancestor                  -> is_obvious_ancestor
     _has_merges, _compute_revno_str       -> has_merges, compute_revno
     _generate_one_revision                -> generate_one
     _graph_view_revisions                 -> graph_view  (+ rebase_initial: the depth adjustment loop)
     _generate_all_revisions               -> generate_all
     _calc_view_revisions                  -> calc_view
     _get_revision_limits                  -> revision_limits
     _DefaultLogGenerator.iter_log_revisions (levels, limit; delta matching path without files)
                                           -> log_revisions
   Revnos are kept as number lists ("1.2.3" = [1;2;3]; the harness parses the
   strings).  A generator that raises after having yielded is a pair (items,
   Some error): whether the error is ever observed depends on the consumer
   (a `limit` may stop the iteration first).

   Not modelled: per-file filtering (_filter_revisions_touching_path,
   _make_delta_filter), search/match filters, ghosts on a walked left-hand
   history (the generator avoids them), omit_merges.  No proofs here. *)
From Coq Require Import String List Arith Bool ZArith.
From BV Require Import Lib.Obs Lib.Dag Lib.DagMergeSort Model.RevSpec.
Import ListNotations.

(* ---- reverse_by_depth ----------------------------------------------------------- *)

Section RBD.
  Context {A : Type}.
  (* a revision with its merge depth; payload None = the fake revision
     (None, None, _depth) the code prepends *)
  Definition item := (option A * nat)%type.

  (* the chunking loop: (revisions before the first depth-d revision, chunks);
     every chunk starts with a depth-d revision.  With the fake revision in
     front the first component is empty. *)
  Fixpoint group (d : nat) (l : list item) : list item * list (list item) :=
    match l with
    | [] => ([], [])
    | x :: l' => let '(p, cs) := group d l' in
                 if snd x =? d then ([], (x :: p) :: cs) else (x :: p, cs)
    end.

  (* reverse_by_depth(l, _depth=d) without the final filter; [fuel] bounds the
     recursion depth (an exhausted fuel returns the list unchanged) *)
  Fixpoint rbd_raw (fuel d : nat) (l : list item) : list item :=
    match fuel with
    | 0 => l
    | S f =>
        let zd := snd (group d ((None, d) :: l)) in
        let zd' := map (fun c => match c with
                                 | x :: t => match t with
                                             | [] => c
                                             | _ :: _ => x :: rbd_raw f (S d) t    (* revisions[1:] = ... *)
                                             end
                                 | [] => c
                                 end) zd in
        concat (rev zd')
    end.

  Definition wrap (x : A * nat) : item := (Some (fst x), snd x).
  (* the final filter of the top-level call:
       result = [r for r in result if r[0] is not None and r[1] is not None]
     It removes the fake revisions -- and also every real entry whose revno is
     None ([has_revno] false): a revision that is not in the branch. *)
  Variable has_revno : A -> bool.
  Definition reals (l : list item) : list (A * nat) :=
    flat_map (fun x => match fst x with
                       | Some a => if has_revno a then [(a, snd x)] else []
                       | None => []
                       end) l.

  Definition rbd_fuel (l : list (A * nat)) : nat := S (length l + list_max (map snd l)).

  Definition reverse_by_depth (l : list (A * nat)) : list (A * nat) :=
    reals (rbd_raw (rbd_fuel l) 0 (map wrap l)).

  (* _rebase_merge_depth *)
  Definition min_depth (l : list (A * nat)) : nat :=
    match l with
    | [] => 0
    | x :: l' => fold_right Nat.min (snd x) (map snd l')
    end.
  Definition rebase_merge_depth (l : list (A * nat)) : list (A * nat) :=
    match l with
    | [] => l
    | x :: _ =>
        if negb (snd x =? 0) && negb (snd (last l x) =? 0)
        then let m := min_depth l in
             if m =? 0 then l else map (fun y => (fst y, snd y - m)) l
        else l
    end.
End RBD.

(* ---- view revisions ------------------------------------------------------------------ *)

(* (revision_id, dotted revno or None = "not in this branch"), merge_depth *)
Definition view := ((revid * option revno) * nat)%type.
Definition v_id (v : view) : revid := fst (fst v).
Definition v_revno (v : view) : option revno := snd (fst v).
Definition v_depth (v : view) : nat := snd v.

Inductive log_error :=
| StartNotLinearAncestor           (* the internal _StartNotLinearAncestor *)
| StartNotInHistory                (* CommandError: Start revision not found in history of end revision. *)
| StartAfterEnd                    (* CommandError: Start revision must be older than the end revision. *)
| ExcludeNeedsTwo.                 (* CommandError: --exclude-common-ancestry requires two different revisions *)

(* a generator: what it yields, and the exception it ends with (if any) *)
Definition lazy_views := (list view * option log_error)%type.

Definition oeqb (a b : option revid) : bool :=
  match a, b with
  | Some x, Some y => x =? y
  | None, None => true
  | _, _ => false
  end.

(* _compute_revno_str *)
Definition compute_revno (b : branch) (r : revid) : option revno :=
  match revision_id_to_dotted_revno b (Some r) with Ok d => Some d | Err _ => None end.

(* _has_merges *)
Definition has_merges (g : dag) (r : revid) : bool := 1 <? length (parents g r).

(* _linear_view_revisions, both limits None: the left-hand history counted down from the branch revno *)
Fixpoint count_down (n : nat) (l : list revid) : list view :=
  match l with
  | [] => []
  | r :: l' => ((r, Some [n]), 0) :: count_down (n - 1) l'
  end.

(* ... otherwise: walk the left-hand history of the end revision until the start revision *)
Fixpoint lin_walk (b : branch) (start : option revid) (excl : bool) (l : list revid) : list view * bool :=
  match l with
  | [] => ([], false)
  | r :: l' =>
      let v := ((r, compute_revno b r), 0) in
      if oeqb start (Some r) then ((if excl then [] else [v]), true)
      else let '(vs, found) := lin_walk b start excl l' in (v :: vs, found)
  end.

Definition linear_view (b : branch) (start end_ : option revid) (excl : bool) : lazy_views :=
  match start, end_ with
  | None, None => (count_down (last_revno b) (lh b), None)
  | _, _ =>
      let e := match end_ with Some e => Some e | None => br_tip b end in
      let '(vs, found) := lin_walk b start excl (lefthand_opt (br_g b) e) in
      (vs, if found || match start with None => true | Some _ => false end
           then None else Some StartNotLinearAncestor)
  end.

(* _is_obvious_ancestor (after a31cbfe: two dotted revnos must agree on base AND
   branch number; with an open end only a mainline start is obvious) *)
Definition is_obvious_ancestor (b : branch) (start end_ : option revid) : bool :=
  match start, end_ with
  | Some s, Some e =>
      match revision_id_to_dotted_revno b (Some s), revision_id_to_dotted_revno b (Some e) with
      | Ok sd, Ok ed =>
          match sd, ed with
          | [s0], [e0] => s0 <=? e0                                   (* both on mainline *)
          | [s0; s1; s2], [e0; e1; e2] =>
              if (s0 =? e0) && (s1 =? e1) then s2 <=? e2 else false  (* start_dotted[0:2] == end_dotted[0:2] *)
          | _, _ => false
          end
      | _, _ => false
      end
  | Some s, None =>
      match revision_id_to_dotted_revno b (Some s) with
      | Ok [_] => true
      | _ => false
      end
  | None, _ => true
  end.

(* _generate_one_revision *)
Definition generate_one (b : branch) (r : revid) : list view :=
  if oeqb (Some r) (br_tip b) then [((r, Some [last_revno b]), 0)]
  else [((r, compute_revno b r), 0)].

Definition view_of (e : ms4) (depth : nat) : view := ((m_id e, Some (m_revno e)), depth).

(* the depth adjustment loop of _graph_view_revisions *)
Fixpoint rebase_initial (adj : option nat) (l : list ms4) : list view :=
  match l with
  | [] => []
  | e :: l' =>
      let d := m_depth e in
      let adj0 := match adj with None => d | Some a => a end in
      if adj0 =? 0 then view_of e d :: rebase_initial (Some 0) l'
      else let adj1 := if d <? adj0 then d else adj0 in
           view_of e (d - adj1) :: rebase_initial (Some adj1) l'
  end.

(* _graph_view_revisions(branch, start_rev_id, end_rev_id, rebase_initial_depths, exclude_common_ancestry) *)
Definition graph_view (b : branch) (start end_ : option revid) (rebase : bool) (excl : bool) : list view :=
  let it := iter_merge_sorted_revisions b end_ start
              (if excl then WithMergesNoCommon else WithMerges) false in
  if rebase then rebase_initial None it else map (fun e => view_of e (m_depth e)) it.

(* the delayed_graph_generation loop of _generate_all_revisions over the items
   of the linear view: (initial revisions, Some r = the first revision with merges) *)
Fixpoint split_at_merge (g : dag) (l : list view) : list view * option revid :=
  match l with
  | [] => ([], None)
  | v :: l' => if has_merges g (v_id v) then ([], Some (v_id v))
               else let '(ini, m) := split_at_merge g l' in (v :: ini, m)
  end.

(* _generate_all_revisions (after 036aad8: an open-ended range with a start ends
   at the branch tip, so the graph queries get a real revision id) *)
Definition generate_all (b : branch) (start end0 : option revid) (forward delayed excl : bool)
  : list view + log_error :=
  let end_ := match start, end0 with
              | Some _, None => br_tip b
              | _, _ => end0
              end in
  if delayed then
    let '(lin, err) := linear_view b start end_ excl in
    match split_at_merge (br_g b) lin with
    | (ini, Some r) =>
        if match start, end_ with
           | Some s, Some e => negb (is_ancestor (br_g b) s e)
           | _, _ => false
           end
        then inr StartNotInHistory
        else inl (ini ++ graph_view b start (Some r) (negb forward) excl)
    | (ini, None) =>
        match err with
        | Some _ => inr StartNotInHistory
        | None => inl ini
        end
    end
  else inl (graph_view b start end_ (negb forward) excl).

(* _calc_view_revisions *)
Definition calc_view (b : branch) (start end_ : option revid) (forward gen_merge delayed excl : bool)
  : lazy_views :=
  if excl && oeqb start end_ then ([], Some ExcludeNeedsTwo)
  else match br_tip b with
  | None => ([], None)
  | Some _ =>
    let slow (_ : unit) : lazy_views :=
      match generate_all b start end_ forward delayed excl with
      | inr e => ([], Some e)
      | inl vs => (if forward
                   then rebase_merge_depth
                          (reverse_by_depth (fun a => match snd a with Some _ => true | None => false end) vs)
                   else vs, None)
      end in
    let single := match end_ with
                  | Some e => if oeqb start end_ && (negb gen_merge || negb (has_merges (br_g b) e))
                              then Some e else None
                  | None => None
                  end in
    match single with
    | Some e => (generate_one b e, None)
    | None =>
        if negb gen_merge then
          let '(lin, err) := linear_view b start end_ excl in
          if forward || (match start with Some _ => true | None => false end
                         && negb (is_obvious_ancestor b start end_))
          then match err with                      (* iter_revs = list(iter_revs) inside the try *)
               | Some _ => slow tt
               | None => (if forward then rev lin else lin, None)
               end
          else (lin, err)                          (* returned unevaluated: the error stays inside *)
        else slow tt
    end
  end.

(* _get_revision_limits on RevisionInfo.from_revision_id values: only the order check *)
Definition limit_revno (b : branch) (r : option revid) : option nat :=
  match r with
  | None => None
  | Some r' => match revision_id_to_revno b (Some r') with Ok n => Some n | Err _ => None end
  end.
Definition revision_limits (b : branch) (start end_ : option revid) : option log_error :=
  match br_tip b with
  | None => None
  | Some _ =>
      let sn := match limit_revno b start with Some n => n | None => 1 end in
      match limit_revno b end_ with
      | Some en => if en <? sn then Some StartAfterEnd else None
      | None => None
      end
  end.

(* iter_log_revisions over one batch: the levels filter and the limit.
   Result: (logged, number logged so far, limit reached) *)
Fixpoint take_batch (levels : nat) (limit : option nat) (count : nat) (l : list view)
  : list view * nat * bool :=
  match l with
  | [] => ([], count, false)
  | v :: l' =>
      if negb (levels =? 0) && (levels <=? v_depth v) then take_batch levels limit count l'
      else match limit with
           | Some lim => if lim <=? S count then ([v], S count, true)
                         else let '(vs, c, stop) := take_batch levels limit (S count) l' in (v :: vs, c, stop)
           | None => let '(vs, c, stop) := take_batch levels limit count l' in (v :: vs, c, stop)
           end
  end.

(* make_log_rev_iterator: _make_batch_filter pulls the view revisions in batches
   of 9, 13, 19, ... (num = min(int(num * 1.5), 200)); a generator that raises
   while a batch is being pulled loses that batch *)
Fixpoint log_batches (fuel num : nat) (levels : nat) (limit : option nat) (count : nat)
         (l : list view) (err : option log_error) : list view * option log_error :=
  match fuel with
  | 0 => ([], None)
  | S f =>
      if num <=? length l then
        let '(vs, c, stop) := take_batch levels limit count (firstn num l) in
        if stop then (vs, None)
        else let '(vs2, e2) := log_batches f (Nat.min (num + num / 2) 200) levels limit c (skipn num l) err in
             (vs ++ vs2, e2)
      else match err with
           | Some e => ([], Some e)
           | None => (fst (fst (take_batch levels limit count l)), None)
           end
  end.

(* _DefaultLogGenerator(branch, start_revision, end_revision, direction, levels, limit,
   exclude_common_ancestry).iter_log_revisions(); limit 0 = no limit *)
Definition log_revisions (b : branch) (start end_ : option revid) (forward : bool) (levels limit : nat)
           (excl : bool) : list view * option log_error :=
  match revision_limits b start end_ with
  | Some e => ([], Some e)
  | None =>
      let gen_merge := negb (levels =? 1) in
      let delayed := negb (limit =? 0) || (match start with Some _ => true | None => false end)
                     || (match end_ with Some _ => true | None => false end) in
      let '(vs, err) := calc_view b start end_ forward gen_merge delayed excl in
      log_batches (S (length vs)) 9 levels (if limit =? 0 then None else Some limit) 0 vs err
  end.

(* ---- observations ------------------------------------------------------------------------ *)

Definition lerr_name (e : log_error) : string :=
  match e with
  | StartNotLinearAncestor => "_StartNotLinearAncestor"
  | StartNotInHistory => "CommandError:start-not-found"
  | StartAfterEnd => "CommandError:start-after-end"
  | ExcludeNeedsTwo => "CommandError:exclude-needs-two"
  end.
Definition oview (v : view) : obs := OL [onat (v_id v); oopt (olist onat) (v_revno v); onat (v_depth v)].
Definition olazy (r : list view * option log_error) : obs :=
  OL [olist oview (fst r); oopt (fun e => OE (lerr_name e)) (snd r)].

(* kind "rbd": reverse_by_depth and _rebase_merge_depth on an arbitrary list of (id, depth) *)
Definition run_rbd (l : list (nat * nat)) : obs :=
  let rbd := reverse_by_depth (fun _ => true) in
  OL [olist (opair onat onat) (rbd l); olist (opair onat onat) (rebase_merge_depth l);
      olist (opair onat onat) (rbd (rbd l))].

(* kind "calc": _calc_view_revisions, consumed completely *)
Definition run_calc (g : dag) (tip start end_ : option revid) (forward gen_merge delayed excl : bool) : obs :=
  olazy (calc_view (mkBr g tip []) start end_ forward gen_merge delayed excl).

(* kind "log": the log generator *)
Definition run_log (g : dag) (tip start end_ : option revid) (forward : bool) (levels limit : nat) (excl : bool) : obs :=
  olazy (log_revisions (mkBr g tip []) start end_ forward levels limit excl).
