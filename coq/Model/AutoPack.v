(* Model/AutoPack.v -- hand model (tie H) of the autopack planner of
   breezy/bzr/pack_repo.py, class RepositoryPackCollection:

     _max_pack_count            -> max_pack_count
     pack_distribution          -> pack_distribution
     plan_autopack_combinations -> plan_mut / plan   (inner while -> consume,
                                                       outer while -> plan_loop)
     _do_autopack (trigger)     -> do_autopack_with / do_autopack

   Revision counts are binary naturals (N).  A pack is (revision_count, identity);
   the identity stands for the Pack object and is only used to order packs with an
   equal count (list.sort compares the (count, pack) tuples) and to say WHICH packs
   were chosen.  No proofs in this file. *)
From Coq Require Import String NArith List Bool.
From BV Require Import Lib.Obs.
Import ListNotations.
Open Scope N_scope.

Definition pack := (N * N)%type.            (* (revision_count, pack identity) *)
Definition op := (N * list pack)%type.      (* [revision_count, [packs...]]     *)

Definition sumN (l : list N) : N := fold_right N.add 0 l.
Definition sumc (ps : list pack) : N := sumN (map fst ps).

Definition positive (ps : list pack) : Prop := Forall (fun p => 0 < fst p) ps.
Definition positiveb (ps : list pack) : bool := forallb (fun p => 0 <? fst p) ps.

(* ---- decimal digits: str(total_revisions) --------------------------------- *)

(* least significant digit first; fuel = number of bits of n (n / 10 has fewer bits) *)
Fixpoint digits_rev_fuel (fuel : nat) (n : N) : list N :=
  match fuel with
  | O => []
  | S f => if n =? 0 then [] else (n mod 10) :: digits_rev_fuel f (n / 10)
  end.
Definition digits_rev (n : N) : list N := digits_rev_fuel (N.to_nat (N.size n)) n.
(* the characters of str(n), most significant first (n > 0) *)
Definition digits (n : N) : list N := rev (digits_rev n).

(* value of a least-significant-first digit list (specification side) *)
Fixpoint from_digits_rev (ds : list N) : N :=
  match ds with [] => 0 | d :: r => d + 10 * from_digits_rev r end.

Definition digit_sum (n : N) : N := sumN (digits n).

(* _max_pack_count:
     if not total_revisions: return 1
     result = 0; for digit in str(total_revisions): result += int(digit) *)
Definition max_pack_count (total : N) : N :=
  if total =? 0 then 1 else digit_sum total.

(* pack_distribution:
     if total_revisions == 0: return [0]
     digits = reversed(str(total_revisions)); result = []
     for exponent, count in enumerate(digits):
         size = 10**exponent
         for _pos in range(int(count)): result.append(size)
     return list(reversed(result)) *)
Fixpoint dist_build (exponent : N) (ds : list N) : list N :=
  match ds with
  | [] => []
  | count :: r => repeat (10 ^ exponent) (N.to_nat count) ++ dist_build (exponent + 1) r
  end.
Definition pack_distribution (total : N) : list N :=
  if total =? 0 then [0] else rev (dist_build 0 (rev (digits total))).

(* ---- plan_autopack_combinations -------------------------------------------- *)

Inductive error := IndexError | AssertionError.
Inductive outcome :=
| Nothing                                  (* return []                          *)
| Combine (n : N) (l : list pack)          (* return [[final_rev_count, final_pack_list]] *)
| Fail (e : error).                        (* an exception escapes               *)

(* existing_packs.sort(reverse=True): descending on the (count, pack) tuples *)
Definition pack_ltb (a b : pack) : bool :=
  (fst a <? fst b) || ((fst a =? fst b) && (snd a <? snd b)).
Fixpoint insert_desc (x : pack) (l : list pack) : list pack :=
  match l with
  | [] => [x]
  | y :: l' => if pack_ltb y x then x :: l else y :: insert_desc x l'
  end.
Definition sort_desc (l : list pack) : list pack := fold_right insert_desc [] l.

(* the inner loop of the "keep this pack" branch:
     while next_pack_rev_count > 0:
         next_pack_rev_count -= pack_distribution[0]        # IndexError when exhausted
         if next_pack_rev_count >= 0: del pack_distribution[0]
         else: pack_distribution[0] = -next_pack_rev_count
   None = IndexError. *)
Fixpoint consume (c : N) (D : list N) {struct D} : option (list N) :=
  if c =? 0 then Some D else
  match D with
  | [] => None
  | d :: D' => if d <=? c then consume (c - d) D' else Some ((d - c) :: D')
  end.

(* the outer loop  `while len(existing_packs)`.  pack_operations = closed ++ [cur]
   (cur is pack_operations[-1]).  Result: the final (closed, cur) or None for an
   IndexError, and the final value of the (mutated in place) pack_distribution list;
   an IndexError can only be raised by pack_distribution[0] on the empty list, so the
   list is [] then. *)
Fixpoint plan_loop (R : list pack) (D : list N) (closed : list op) (cur : op)
  : option (list op * op) * list N :=
  match R with
  | [] => (Some (closed, cur), D)
  | np :: R' =>                                     (* existing_packs.pop(0) *)
      match D with
      | [] => (None, [])                            (* pack_distribution[0] *)
      | d :: D' =>
          if d <=? fst np then                      (* next_pack_rev_count >= pack_distribution[0] *)
            match consume (fst np) D with
            | None => (None, [])
            | Some D1 => plan_loop R' D1 closed cur
            end
          else
            let cur1 := (fst cur + fst np, snd cur ++ [np]) in
            if d <=? fst cur1                       (* pack_operations[-1][0] >= pack_distribution[0] *)
            then plan_loop R' D' (closed ++ [cur1]) (0, [])
            else plan_loop R' D closed cur1
      end
  end.

Definition plan_mut (packs : list pack) (dist : list N) : outcome * list N :=
  if Nat.leb (length packs) (length dist) then (Nothing, dist)
  else
    match plan_loop (sort_desc packs) dist [] (0, []) with
    | (None, D) => (Fail IndexError, D)
    | (Some (closed, cur), D) =>
        let ops := closed ++ [cur] in
        let final_rev_count := sumN (map fst ops) in
        let final_pack_list := concat (map snd ops) in
        if Nat.eqb (length final_pack_list) 1 then (Fail AssertionError, D)
        else (Combine final_rev_count final_pack_list, D)
    end.

Definition plan (packs : list pack) (dist : list N) : outcome := fst (plan_mut packs dist).

(* ---- _do_autopack (the trigger) --------------------------------------------
     total_revisions = self.revision_index.combined_index.key_count()
     total_packs = len(self._names)
     if self._max_pack_count(total_revisions) >= total_packs: return None
     pack_distribution = self.pack_distribution(total_revisions)
     existing_packs = [(count, pack) for pack in all_packs() if count != 0]
     pack_operations = self.plan_autopack_combinations(existing_packs, pack_distribution)
   key_count belongs to bzrformats (CombinedGraphIndex): it adds up the key counts of
   the per-pack revision indices; modelled by [key_count] and exercised on real
   repositories by the correspondence run. *)
Definition do_autopack_with (total : N) (all_packs : list pack) : outcome :=
  if N.of_nat (length all_packs) <=? max_pack_count total then Nothing
  else plan (filter (fun p => negb (fst p =? 0)) all_packs) (pack_distribution total).

Definition key_count (all_packs : list pack) : N := sumc all_packs.
Definition do_autopack (all_packs : list pack) : outcome :=
  do_autopack_with (key_count all_packs) all_packs.

(* ---- observations for the correspondence run -------------------------------- *)

Definition oerror (e : error) : obs :=
  OE (match e with IndexError => "IndexError" | AssertionError => "AssertionError" end)%string.
Definition ooutcome (o : outcome) : obs :=
  match o with
  | Nothing => OL []
  | Combine n l => OL [OL [oN n; olist (fun p => oN (snd p)) l]]
  | Fail e => oerror e
  end.

(* direct call: _max_pack_count(total), pack_distribution(total),
   plan_autopack_combinations(packs, that list), the list afterwards *)
Definition run_case (total : N) (packs : list pack) : obs :=
  let dist := pack_distribution total in
  let r := plan_mut packs dist in
  OL [oN (max_pack_count total); olist oN dist; ooutcome (fst r); olist oN (snd r)].

(* direct call of the planner with an arbitrary distribution list *)
Definition run_raw (dist : list N) (packs : list pack) : obs :=
  let r := plan_mut packs dist in
  OL [ooutcome (fst r); olist oN (snd r)].

(* _do_autopack on a collection whose key_count() is [total];
   "noop" = returned None before planning *)
Definition run_auto (total : N) (all_packs : list pack) : obs :=
  if N.of_nat (length all_packs) <=? max_pack_count total then OT "noop"%string
  else ooutcome (do_autopack_with total all_packs).

(* real repository: key_count() of the combined revision index vs the per-pack counts *)
Definition run_key_count (all_packs : list pack) : obs := oN (key_count all_packs).

(* real repository receiving batches of revisions: every batch becomes one new pack,
   then autopack runs (_do_autopack, _execute_pack_operations: the combined packs are
   replaced by one new pack holding their revisions).  Observed after every batch:
   the per-pack revision counts (descending) and key_count(). *)
Definition apply_outcome (all_packs : list pack) (o : outcome) (newid : N) : list pack :=
  match o with
  | Combine n l =>
      (n, newid) :: filter (fun p => negb (existsb (fun q => snd q =? snd p) l)) all_packs
  | _ => all_packs
  end.
Fixpoint simulate (batches : list N) (st : list pack) (next : N) : list obs :=
  match batches with
  | [] => []
  | b :: r =>
      let st1 := (b, next) :: st in
      let st2 := apply_outcome st1 (do_autopack st1) (next + 1) in
      OL [olist oN (map fst (sort_desc st2)); oN (key_count st2)] :: simulate r st2 (next + 2)
  end.
Definition run_repo (batches : list N) : obs := OL (simulate batches [] 0).
