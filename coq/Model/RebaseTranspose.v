(* Model/RebaseTranspose.v -- hand model of generate_transpose_plan of
   breezy/plugins/rewrite/rebase.py (the plan that replaces some revisions by
   existing other ones and rewrites all their descendants).  Tied to the code
   by the correspondence run (kind=transpose); only a small fact is proved
   about it (Theory/RebaseTranspose.v) -- the C51 theorems are about
   generate_simple_plan.

   ancestry : the (revision, parents | None for a ghost) pairs the caller
              passes (graph.iter_ancestry(heads)); roots have no parents here
              (breezy: (b"null:",), dropped by the harness)
   renames  : dict old -> existing new revision
   g        : the repository graph, for graph.get_parent_map(renames.values())
   The worklist  while len(todo) > 0: r = todo.pop()  is structurally
   recursive on a fuel that bounds the number of pops (every push is caused by
   one (parent, child) edge or one rename). *)
From Coq Require Import String List Arith Bool.
From BV Require Import Lib.Obs Lib.Dag Lib.DagTopo Lib.PyDict Model.Rebase.
Import ListNotations.

Inductive terr := TKeyError | TValueError | TOutOfFuel.
Inductive tresult (A : Type) := TOk (a : A) | TErr (e : terr).
Arguments TOk {A}. Arguments TErr {A}.

Definition tdict := dict revid (list revid).
Definition td_get (d : tdict) (k : revid) := dict_get Nat.eqb d k.
Definition td_set (d : tdict) (k : revid) (v : list revid) := dict_set Nat.eqb d k v.
(* if k not in d: d[k] = [] *)
Definition td_touch (d : tdict) (k : revid) : tdict :=
  if dict_mem Nat.eqb d k then d else td_set d k [].
(* d[k].append(x), d[k] present *)
Definition td_append (d : tdict) (k x : revid) : tdict :=
  match td_get d k with Some l => td_set d k (l ++ [x]) | None => d end.

(* the first loop: children and parent_map *)
Fixpoint tp_scan (ancestry : list (revid * option (list revid))) (children parent_map : tdict)
  : tdict * tdict :=
  match ancestry with
  | [] => (children, parent_map)
  | (r, ops) :: rest =>
      let children := td_touch children r in
      match ops with
      | None => tp_scan rest children parent_map                   (* ghost *)
      | Some ps =>
          let parent_map := td_set parent_map r ps in
          let children := fold_left (fun ch p => td_append (td_touch ch p) p r) ps children in
          tp_scan rest children parent_map
      end
  end.

(* parent_map.update(graph.get_parent_map(v for v in renames.values() if v not in parent_map)) *)
Definition tp_update (g : dag) (renames : list (revid * revid)) (parent_map : tdict) : tdict :=
  fold_left (fun pm rv =>
               let v := snd rv in
               if dict_mem Nat.eqb pm v then pm
               else if present g v then td_set pm v (parents g v) else pm)
            renames parent_map.

(* for r, v in renames.items(): replace_map[r] = (v, parent_map[v]); todo.append(r)
   (todo: head = top of the Python list) *)
Fixpoint tp_init (renames : list (revid * revid)) (parent_map : tdict) (rm : rmap) (todo : list revid)
  : tresult (rmap * list revid) :=
  match renames with
  | [] => TOk (rm, todo)
  | (r, v) :: rest =>
      match td_get parent_map v with
      | None => TErr TKeyError
      | Some ps => tp_init rest parent_map (rm_set rm r (v, ps)) (r :: todo)
      end
  end.

Definition rm_del (m : rmap) (k : revid) : rmap := filter (fun e => negb (fst e =? k)) m.

Fixpoint replace_at (i : nat) (x : revid) (l : list revid) : list revid :=
  match l, i with
  | [], _ => []
  | _ :: t, 0 => x :: t
  | y :: t, S i' => y :: replace_at i' x t
  end.

Section Transpose.
Variable gen : revid -> list revid -> revid.
Variable renames : list (revid * revid).
Variables children parent_map : tdict.

(* for c in children[r] *)
Fixpoint tp_children (r : revid) (cs : list revid) (processed : list revid)
                     (st : rmap * list revid) : tresult (rmap * list revid) :=
  match cs with
  | [] => TOk st
  | c :: rest =>
      let '(rm, todo) := st in
      if dict_mem Nat.eqb renames c then tp_children r rest processed st else
      match (match rm_get rm c with
             | Some (_, ps) => Some ps
             | None => td_get parent_map c
             end) with
      | None => TErr TKeyError
      | Some ps =>
          match rm_get rm r with
          | None => TErr TKeyError
          | Some (rnew, _) =>
              match (if memb rnew ps then Some ps
                     else match index_of r ps with
                          | Some i => Some (replace_at i rnew ps)
                          | None => None
                          end) with
              | None => TErr TValueError
              | Some ps' =>
                  let n := gen c ps' in
                  let rm' := rm_set rm c (n, ps') in
                  if n =? c then tp_children r rest processed (rm_del rm' c, todo)
                  else if memb c processed then tp_children r rest processed (rm', todo)
                  else tp_children r rest processed (rm', c :: todo)
              end
          end
      end
  end.

Fixpoint tp_loop (fuel : nat) (processed : list revid) (st : rmap * list revid) : tresult rmap :=
  match snd st with
  | [] => TOk (fst st)
  | r :: todo =>
      match fuel with
      | 0 => TErr TOutOfFuel
      | S f =>
          let processed := r :: processed in
          match td_get children r with
          | None => TErr TKeyError
          | Some cs =>
              match tp_children r cs processed (fst st, todo) with
              | TOk st' => tp_loop f processed st'
              | TErr e => TErr e
              end
          end
      end
  end.
End Transpose.

Definition transpose_plan (g : dag) (gen : revid -> list revid -> revid)
                          (ancestry : list (revid * option (list revid)))
                          (renames : list (revid * revid)) : tresult rmap :=
  let '(children, parent_map) := tp_scan ancestry [] [] in
  let parent_map := tp_update g renames parent_map in
  match tp_init renames parent_map [] [] with
  | TErr e => TErr e
  | TOk st =>
      let fuel := S (length renames + length (flat_map (fun a => match snd a with Some ps => ps | None => [] end) ancestry)) in
      match tp_loop gen renames children parent_map fuel [] st with
      | TErr e => TErr e
      | TOk rm =>
          (* for revid in renames: replace_map.pop(revid, None) *)
          TOk (filter (fun e => negb (dict_mem Nat.eqb renames (fst e))) rm)
      end
  end.

(* ---- correspondence entry point ------------------------------------------- *)

Fixpoint insert_entry (e : revid * (revid * list revid)) (l : rmap) : rmap :=
  match l with
  | [] => [e]
  | y :: l' => if fst e <=? fst y then e :: l else y :: insert_entry e l'
  end.

(* the driver returns the dict sorted by key *)
Definition run_transpose (g : dag) (ancestry : list (revid * option (list revid)))
                         (renames : list (revid * revid)) (same : option revid) : obs :=
  match transpose_plan g (gen_canon same) ancestry renames with
  | TOk rm => olist (fun e => OL [onat (fst e); OL [onat (fst (snd e)); olist onat (snd (snd e))]])
                    (fold_right insert_entry [] rm)
  | TErr TKeyError => OE "KeyError"
  | TErr TValueError => OE "ValueError"
  | TErr TOutOfFuel => OE "MODEL-OUT-OF-FUEL"
  end%string.
