(* Model/Search.v -- hand model (tie H) of the search-recipe code of Breezy:

     client   breezy/bzr/vf_search.py   search_result_from_parent_map
                                        _find_possible_heads, _run_search,
                                        limited_search_result_from_parent_map
     wire     breezy/bzr/remote.py      RemoteRepository._serialise_search_recipe
     server   breezy/bzr/smart/repository.py
                                        SmartServerRepositoryRequest.recreate_search_from_recipe

   Revisions are nat.  Two are special:
     EMPTYKEY = 0  stands for b""      (what set(b"".split(b" ")) contains on the server)
     NULL     = 1  stands for b"null:" (revision.NULL_REVISION)
   every other n stands for b"r<n>" ([enc]).  A parent map / server graph is a
   [graph] (Lib/DagSearch.v).  The breadth-first searcher (vcsgraph, environment)
   is [bfs].  No proofs in this file. *)
From Coq Require Import String.
From Coq Require Import Arith NArith List Bool.
From BV Require Import Lib.Bytes Lib.Obs Lib.DagSearch.
Import ListNotations.
Local Open Scope list_scope.
Local Open Scope nat_scope.

Definition EMPTYKEY : nat := 0.
Definition NULL : nat := 1.

(* ------------------------------------------------------------------ *)
(* vf_search.search_result_from_parent_map(parent_map, missing_keys)    *)
Definition search_result_from_parent_map (pm : graph) (missing : list nat)
  : list nat * list nat * nat :=
  match pm with
  | [] => ([], [], 0)                                     (* if not parent_map: return [], [], 0 *)
  | _ :: _ =>
    let start_set := keys pm in                           (* set(parent_map) *)
    let result_parents := dedup (all_parents pm) in       (* set(chain.from_iterable(values())) *)
    let stop_keys := diff (diff result_parents start_set) missing in
                                                          (* .difference(start_set); .difference_update(missing_keys) *)
    let key_count := length pm +                          (* len(parent_map) *)
        (if memb NULL result_parents && memb NULL missing then 1 else 0) in
    let included_keys := inter start_set result_parents in
    (diff start_set included_keys, stop_keys, key_count)  (* start_set.difference_update(included_keys) *)
  end.

(* ------------------------------------------------------------------ *)
(* vcsgraph.invert_parent_map: child_map[p] = children of p; KeyError iff p is
   not referenced as a parent by any key *)
Definition children_of (pm : graph) (p : nat) : list nat :=
  map fst (filter (fun kv => memb p (snd kv)) pm).
Definition has_children (pm : graph) (p : nat) : bool := memb p (all_parents pm).

(* vf_search._find_possible_heads(parent_map, tip_keys, depth): the while loop;
   [cur] = current_roots, [depth] is the structural argument *)
Fixpoint find_heads_loop (depth : nat) (pm : graph) (cur walked heads : list nat) : list nat :=
  match cur with
  | [] => heads                                            (* while current_roots ... ; if current_roots: (no) *)
  | _ :: _ =>
    match depth with
    | 0 => dedup (cur ++ heads)                            (* if current_roots: heads.update(current_roots) *)
    | S d =>
      let heads' := filter (fun p => negb (has_children pm p)) cur ++ heads in   (* except KeyError: heads.add(p) *)
      let children := flat_map (children_of pm) (filter (has_children pm) cur) in
      let children' := dedup (diff children walked) in     (* children.difference(walked) *)
      find_heads_loop d pm children' (children' ++ walked) heads'
    end
  end.
Definition find_possible_heads (pm : graph) (tips : list nat) (depth : nat) : list nat :=
  dedup (find_heads_loop depth pm (dedup tips) (dedup tips) []).

(* vf_search._run_search(parent_map, heads, exclude_keys): the searcher runs on
   Graph(DictParentsProvider(parent_map)), i.e. on [pm] itself.
   Result: (seen, _stopped_keys, found_heads) *)
Definition run_search (pm : graph) (heads excl : list nat) : option (list nat * list nat * list nat) :=
  match bfs pm heads excl with
  | None => None
  | Some (seen, stopped, refs) => Some (seen, stopped, inter heads refs)
  end.

(* vf_search.limited_search_result_from_parent_map(parent_map, missing_keys, tip_keys, depth)
   (missing_keys is not used by the code).  None = searcher out of fuel (never). *)
Definition limited_search_result_from_parent_map (pm : graph) (missing tips : list nat) (depth : nat)
  : option (list nat * list nat * nat) :=
  match pm with
  | [] => Some ([], [], 0)
  | _ :: _ =>
    let heads := find_possible_heads pm tips depth in
    match run_search pm heads (dedup tips) with
    | None => None
    | Some (seen, stopped, found_heads) =>
      (* start_keys, exclude_keys, keys = s.get_state() *)
      Some (diff heads found_heads, stopped, length (included_of seen stopped))
    end
  end.

(* the keys the client's own walk included (what the limited recipe is meant to describe) *)
Definition limited_client_keys (pm : graph) (tips : list nat) (depth : nat) : list nat :=
  match run_search pm (find_possible_heads pm tips depth) (dedup tips) with
  | Some (seen, stopped, _) => included_of seen stopped
  | None => []
  end.

(* ------------------------------------------------------------------ *)
(* server: recreate_search_from_recipe(repository, lines)               *)
(* set(lines[i].split(b" ")): an empty line gives {b""} *)
Definition parse_keys (l : list nat) : list nat :=
  match l with [] => [EMPTYKEY] | _ :: _ => l end.

Inductive sres :=
| Walk (started excludes included : list nat)   (* SearchResult(started_keys, excludes, len(included), included) *)
| NoSuchRevision                                (* FailedSmartServerResponse((b"NoSuchRevision",)) *)
| OutOfFuel.                                    (* never (Theory) *)

Definition recreate_search_from_recipe (g : graph) (start stop : list nat) (count : nat) : sres :=
  let start_keys := parse_keys start in
  let exclude_keys := parse_keys stop in
  match bfs g start_keys exclude_keys with
  | None => OutOfFuel
  | Some (seen, stopped, _) =>
    let included := included_of seen stopped in
    if Nat.eqb (length included) count then Walk start_keys stopped included
    else NoSuchRevision                          (* not discard_excess and len(included_keys) != revision_count *)
  end.

(* ------------------------------------------------------------------ *)
(* wire format: RemoteRepository._serialise_search_recipe and its inverse
   (the three lines the server splits)                                  *)
Definition SP : N := 32%N.
Definition NL : N := 10%N.

(* str(n).encode("ascii") *)
Fixpoint dec_aux (fuel n : nat) (acc : bytes) : bytes :=
  match fuel with
  | 0 => acc
  | S f =>
    let acc' := N.of_nat (48 + n mod 10) :: acc in
    if Nat.eqb (n / 10) 0 then acc' else dec_aux f (n / 10) acc'
  end.
Definition dec (n : nat) : bytes := dec_aux (S n) n [].

(* int(s.decode("ascii")) for the non-negative decimal strings the client sends *)
Fixpoint undec_aux (acc : nat) (s : bytes) : option nat :=
  match s with
  | [] => Some acc
  | c :: t => if (N.leb 48 c && N.leb c 57)%bool
              then undec_aux (acc * 10 + (N.to_nat c - 48)) t else None
  end.
Definition undec (s : bytes) : option nat :=
  match s with [] => None | _ :: _ => undec_aux 0 s end.

Definition serialise_search_recipe (start stop : list bytes) (count : nat) : bytes :=
  join [NL] [join [SP] start; join [SP] stop; dec count].

(* body_bytes.split(b"\n"); lines[0].split(b" "), lines[1].split(b" "), int(lines[2]) *)
Definition parse_search_recipe (body : bytes) : option (list bytes * list bytes * nat) :=
  match split1 NL body with
  | l0 :: l1 :: l2 :: _ =>
    match undec l2 with
    | Some n => Some (split1 SP l0, split1 SP l1, n)
    | None => None
    end
  | _ => None
  end.

(* the revision ids the harness uses *)
Definition enc (n : nat) : bytes :=
  match n with
  | 0 => []
  | 1 => [110; 117; 108; 108; 58]%N
  | _ => 114%N :: dec n
  end.

(* ------------------------------------------------------------------ *)
(* executable hypotheses of the theorems (also evaluated by the harness oracle) *)
Fixpoint nodupb (l : list nat) : bool :=
  match l with [] => true | x :: t => negb (memb x t) && nodupb t end.
Definition eql (a b : list nat) : bool := if list_eq_dec Nat.eq_dec a b then true else false.

(* the cache is a dict; every cached entry is the server's entry (faithful fragment) *)
Definition submapb (pm g : graph) : bool :=
  forallb (fun kv => match lookup g (fst kv) with Some ps => eql ps (snd kv) | None => false end) pm.
(* acyclic: ids are numbered so that every parent (ghost or not) is smaller than its child *)
Definition wf_dagb (pm : graph) : bool :=
  forallb (fun kv => forallb (fun p => Nat.ltb p (fst kv)) (snd kv)) pm.
Definition cache_okb (g pm : graph) : bool :=
  nodupb (keys pm) && submapb pm g && wf_dagb pm && negb (in_dom g EMPTYKEY).
(* missing_keys: never a cached key; absent on the server (null: excepted, which the
   server always knows, with no parents) *)
Definition missing_okb (g pm : graph) (missing : list nat) : bool :=
  forallb (fun m => negb (memb m (keys pm)) && (Nat.eqb m NULL || negb (in_dom g m))) missing
  && match lookup g NULL with Some [] => true | _ => false end.

(* what search_result_from_parent_map is meant to describe: every cached key, plus
   null: when the NULL_REVISION rule fires *)
Definition intended_full (pm : graph) (missing : list nat) : list nat :=
  (if memb NULL (all_parents pm) && memb NULL missing then [NULL] else []) ++ keys pm.

Definition server_replay (g : graph) (r : list nat * list nat * nat) : sres :=
  let '(start, stop, count) := r in recreate_search_from_recipe g start stop count.

(* wire level *)
Definition key_okb (k : bytes) : bool := negb (Bytes.memb SP k) && negb (Bytes.memb NL k).
Definition keys_or_empty (l : list bytes) : list bytes := match l with [] => [[]] | _ :: _ => l end.

(* ------------------------------------------------------------------ *)
(* observations for the correspondence run                              *)
Definition oset (bound : nat) (s : list nat) : obs := olist onat (canon bound s).

Definition obs_sres (bound : nat) (r : sres) : obs :=
  match r with
  | Walk st ex inc => OL [oset bound st; oset bound ex; oset bound inc; onat (length inc)]
  | NoSuchRevision => OE "NoSuchRevision"%string
  | OutOfFuel => OE "OutOfFuel"%string
  end.

Definition obs_recipe (bound : nat) (g : graph) (r : list nat * list nat * nat) : list obs :=
  let '(start, stop, count) := r in
  [ oset bound start; oset bound stop; onat count;
    OB (serialise_search_recipe (map enc (canon bound start)) (map enc (canon bound stop)) count);
    obs_sres bound (recreate_search_from_recipe g start stop count) ].

(* the raw searcher loop on arbitrary start / exclude sets *)
Definition run_bfs (bound : nat) (g : graph) (start excl : list nat) : obs :=
  match bfs g start excl with
  | None => OE "OutOfFuel"%string
  | Some (seen, stopped, refs) =>
    OL [oset bound seen; oset bound stopped; oset bound (included_of seen stopped); oset bound refs]
  end.

(* client recipe from the whole cache, wire bytes, server replay *)
Definition run_full (bound : nat) (g pm : graph) (missing : list nat) : obs :=
  OL (obs_recipe bound g (search_result_from_parent_map pm missing)).

(* depth-limited client recipe: heads, found heads, the client's own walk, recipe,
   wire bytes, server replay *)
Definition run_limited (bound : nat) (g pm : graph) (missing tips : list nat) (depth : nat) : obs :=
  let heads := find_possible_heads pm tips depth in
  OL (oset bound heads ::
      match run_search pm heads (dedup tips) with
      | Some (_, _, fh) => oset bound fh
      | None => OE "OutOfFuel"%string
      end ::
      oset bound (limited_client_keys pm tips depth) ::
      match limited_search_result_from_parent_map pm missing tips depth with
      | None => [OE "OutOfFuel"%string]
      | Some r => obs_recipe bound g r
      end).
