(* Model/PackFS.v -- hand model (tie H, with a trace tie) of the ORDER OF FILE-SYSTEM
   EFFECTS of a pack repository write (property C04), breezy/bzr/pack_repo.py:

     RepositoryPackCollection._start_write_group   NewPack(...)  -> open upload/<tmp>
     RepositoryPackCollection._commit_write_group  -> NewPack.finish (compiled, bzrformats)
                                                   -> allocate -> autopack -> _save_pack_names
     RepositoryPackCollection._execute_pack_operations -> Packer.pack (groupcompress_repo.py /
                      knitpack_repo.py _create_pack_from_packs: open_pack, finish, allocate)
                      -> _save_pack_names(clear_obsolete_packs=True, obsolete_packs=plan)
     RepositoryPackCollection._save_pack_names     lock_names; put_file pack-names;
                                                   _clear_obsolete_packs; _unlock_names;
                                                   _obsolete_packs
     RepositoryPackCollection._obsolete_packs      move pack, then .iix .six .tix .rix (.cix)

   The state is what is on disk under .bzr/repository (plus the branch tip):
     files : the files of upload/, packs/, indices/, obsolete_packs/ with a status
             (Partial = opened by open_write_stream and not closed yet, Complete)
     names : the pack names listed by the pack-names index
     lock  : repository/lock/held exists
     tip   : branch/last-revision (revision number), None = null:
   One [op] = one transport operation (the harness records exactly these through a
   `verif+` TransportDecorator; writes into an open stream do not change the abstract
   state and are not ops).  A crash after k transport operations leaves [run (firstn k p) s].

   A pack name is a natural number (the harness numbers the NewPack objects in creation
   order; the real name is the md5 of the pack's bytes).  The temporary file
   upload/<random>.pack of NewPack number n is the file [F Upload n EPack].

   No proofs in this file. *)
From Coq Require Import List Bool Arith PeanoNat ZArith NArith String.
From BV Require Import Lib.Obs.
From BV Require Model.AutoPack.
Import ListNotations.
Open Scope nat_scope.

(* ---------- files ---------- *)
Inductive dir := Upload | Packs | Indices | Obsolete.
Inductive ext := EPack | ERix | EIix | ETix | ESix | ECix.
Definition name := nat.
Record file := F { fdir : dir; fname : name; fext : ext }.
Inductive status := Partial | Complete.

Definition dir_code (d : dir) : nat :=
  match d with Upload => 1 | Packs => 2 | Indices => 3 | Obsolete => 4 end.
Definition ext_code (e : ext) : nat :=
  match e with EPack => 0 | ERix => 1 | EIix => 2 | ETix => 3 | ESix => 4 | ECix => 5 end.
Definition dir_eqb (a b : dir) : bool := Nat.eqb (dir_code a) (dir_code b).
Definition ext_eqb (a b : ext) : bool := Nat.eqb (ext_code a) (ext_code b).
Definition file_eqb (a b : file) : bool :=
  dir_eqb (fdir a) (fdir b) && Nat.eqb (fname a) (fname b) && ext_eqb (fext a) (fext b).

(* a directory tree as an association list; [fset] keeps at most one entry per file *)
Definition fsmap := list (file * status).
Fixpoint lookup (m : fsmap) (f : file) : option status :=
  match m with
  | [] => None
  | (g, v) :: r => if file_eqb g f then Some v else lookup r f
  end.
Definition fremove (f : file) (m : fsmap) : fsmap :=
  filter (fun p => negb (file_eqb f (fst p))) m.
Definition fset (f : file) (v : status) (m : fsmap) : fsmap := (f, v) :: fremove f m.

Record st := St { files : fsmap; names : list name; lock : bool; tip : option nat }.
Definition with_files (s : st) (m : fsmap) : st := St m (names s) (lock s) (tip s).

(* ---------- transport operations ---------- *)
Inductive op :=
| OOpen (f : file)        (* open_write_stream: created / truncated, partial            *)
| OClose (f : file)       (* the stream is closed: complete                             *)
| OMove (f g : file)      (* transport.move = atomic rename, replaces g                 *)
| ODelete (f : file)      (* transport.delete                                           *)
| OLock                   (* rename lock/<tmp> -> lock/held      (lock_names)           *)
| OUnlock                 (* rename lock/held -> lock/releasing  (_unlock_names)        *)
| OPutNames (l : list name) (* transport.put_file("pack-names", ...): atomic replace    *)
| OSetTip (r : nat).      (* put_bytes branch/last-revision                             *)

Definition step (s : st) (o : op) : st :=
  match o with
  | OOpen f => with_files s (fset f Partial (files s))
  | OClose f => match lookup (files s) f with
                | Some _ => with_files s (fset f Complete (files s))
                | None => s
                end
  | OMove f g => match lookup (files s) f with
                 | Some v => with_files s (fset g v (fremove f (files s)))
                 | None => s          (* NoSuchFile: _obsolete_packs logs and goes on *)
                 end
  | ODelete f => with_files s (fremove f (files s))
  | OLock => St (files s) (names s) true (tip s)
  | OUnlock => St (files s) (names s) false (tip s)
  | OPutNames l => St (files s) l (lock s) (tip s)
  | OSetTip r => St (files s) (names s) (lock s) (Some r)
  end.

Definition run (p : list op) (s : st) : st := fold_left step p s.

(* ---------- what a reader sees ---------- *)
(* [ixs] = the index suffixes of the format (2a: rix iix tix six cix; pack-0.92: no cix) *)
Definition is_complete (s : st) (f : file) : bool :=
  match lookup (files s) f with Some Complete => true | _ => false end.
Definition complete_packb (ixs : list ext) (s : st) (n : name) : bool :=
  is_complete s (F Packs n EPack) && forallb (fun e => is_complete s (F Indices n e)) ixs.
(* every listed pack is present with all its indices *)
Definition goodb (ixs : list ext) (s : st) : bool := forallb (complete_packb ixs s) (names s).
(* the revisions a reader can list: the union of the content of the listed packs *)
Definition visible (content : name -> list nat) (s : st) : list nat := flat_map content (names s).
(* the branch tip points into the repository *)
Definition tip_okb (content : name -> list nat) (s : st) : bool :=
  match tip s with None => true | Some r => existsb (Nat.eqb r) (visible content s) end.

(* ---------- the programs: lists of transport operations in the order the code performs them ---------- *)
(* NewPack.finish (after _start_write_group / Packer.open_pack opened upload/<tmp>):
   _write_index for rix, iix, tix, six(, cix) straight into indices/<md5>.<sfx>; close the pack
   stream; move upload/<tmp> -> packs/<md5>.pack *)
Definition write_index (n : name) (e : ext) : list op :=
  [OOpen (F Indices n e); OClose (F Indices n e)].
Definition finish_pack (ixs : list ext) (n : name) : list op :=
  flat_map (write_index n) ixs ++ [OClose (F Upload n EPack); OMove (F Upload n EPack) (F Packs n EPack)].
Definition new_pack (ixs : list ext) (n : name) : list op :=
  OOpen (F Upload n EPack) :: finish_pack ixs n.
(* NewPack.abort: close the stream, delete upload/<tmp> (empty write group; "already optimally packed") *)
Definition abort_pack (n : name) : list op :=
  [OOpen (F Upload n EPack); OClose (F Upload n EPack); ODelete (F Upload n EPack)].

(* _save_pack_names: lock_names, put pack-names, [_clear_obsolete_packs], _unlock_names *)
Definition save_names (l : list name) (clear : list file) : list op :=
  [OLock; OPutNames l] ++ map ODelete clear ++ [OUnlock].
(* _obsolete_packs: the pack file, then .iix .six .tix .rix (.cix) *)
Definition obsolete_pack (oixs : list ext) (p : name) : list op :=
  OMove (F Packs p EPack) (F Obsolete p EPack)
  :: map (fun e => OMove (F Indices p e) (F Obsolete p e)) oixs.

Definition remove_all (plan l : list name) : list name :=
  filter (fun n => negb (existsb (Nat.eqb n) plan)) l.
Definition tip_ops (t : option nat) : list op := match t with Some r => [OSetTip r] | None => [] end.

(* commit / fetch without autopack: _commit_write_group -> finish, allocate, _save_pack_names();
   afterwards (a working-tree commit) the branch tip is set *)
Definition commit_prog (ixs : list ext) (x : name) (listed : list name) (t : option nat) : list op :=
  new_pack ixs x ++ save_names (listed ++ [x]) [] ++ tip_ops t.
(* commit / fetch with autopack: the write group's pack x, then the combined pack y, ONE pack-names
   write that lists y instead of the plan (x is never listed), then the plan is moved away *)
Definition autopack_prog (ixs oixs : list ext) (x y : name) (listed plan : list name)
           (clear : list file) (t : option nat) : list op :=
  new_pack ixs x ++ new_pack ixs y
  ++ save_names (remove_all plan (listed ++ [x; y])) clear
  ++ flat_map (obsolete_pack oixs) plan ++ tip_ops t.
(* Repository.pack(): _try_pack_operations -> _execute_pack_operations *)
Definition pack_prog (ixs oixs : list ext) (y : name) (listed plan : list name) (clear : list file) : list op :=
  new_pack ixs y ++ save_names (remove_all plan (listed ++ [y])) clear
  ++ flat_map (obsolete_pack oixs) plan.

(* the order the code must NOT use (sanity theorem C04_reorder_breaks) *)
Definition bad_pack_prog (ixs oixs : list ext) (y : name) (listed plan : list name) : list op :=
  new_pack ixs y ++ flat_map (obsolete_pack oixs) plan
  ++ save_names (remove_all plan (listed ++ [y])) [].

(* a NON-atomic write of pack-names (put_file_non_atomic = open(O_TRUNC) + write): the file is empty
   in between (on disk even unreadable; "lists nothing" is the most favourable reading).  The code must
   not do this (sanity theorem C04_nonatomic_names_write_breaks); the harness splits every non-atomic put
   into truncate / partial write / write crash points so that the oracle sees it. *)
Definition nonatomic_save_names (l : list name) : list op :=
  [OLock; OPutNames []; OPutNames l; OUnlock].

(* ---------- the discipline that makes every crash prefix good (executable form) ---------- *)
Definition op_files (o : op) : list file :=
  match o with
  | OOpen f | OClose f | ODelete f => [f]
  | OMove f g => [f; g]
  | _ => []
  end.
(* the files a reader of the listed packs needs *)
Definition protectedb (s : st) (f : file) : bool :=
  (dir_eqb (fdir f) Packs || dir_eqb (fdir f) Indices) && existsb (Nat.eqb (fname f)) (names s).
Definition step_okb (ixs : list ext) (s : st) (o : op) : bool :=
  match o with
  | OPutNames l => forallb (complete_packb ixs s) l
  | _ => forallb (fun f => negb (protectedb s f)) (op_files o)
  end.
Fixpoint ok_runb (ixs : list ext) (s : st) (p : list op) : bool :=
  match p with
  | [] => true
  | o :: r => step_okb ixs s o && ok_runb ixs (step s o) r
  end.

(* ====================================================================================
   Scenario layer for the correspondence run: which program does an operation run?
   ==================================================================================== *)
Record pinfo := PI { prevs : list nat; popt : bool }.   (* revisions; made by a Packer *)
Record world := W { wst : st; wtab : list (name * pinfo); wnext : name }.

Inductive sop :=
| SCommit (revs : list nat) (hint : list name) (t : option nat)
    (* a write group adding [revs] (commit, fetch); [hint] = the packs the real autopack combined
       (which of several equally large packs are taken depends on the ordering of Pack objects) *)
| SPack (aborted : bool)
    (* Repository.pack(); [aborted] = the packer found "single pack was already optimally packed"
       (the md5 of the repacked bytes equals the old name: outside the model, taken from the run;
       accepted only where the code can take that branch: 2a, exactly one pack) *)
| SEmpty.                                (* a write group without data *)

Definition ixs_of (chk : bool) : list ext := [ERix; EIix; ETix; ESix] ++ (if chk then [ECix] else []).
Definition oixs_of (chk : bool) : list ext := [EIix; ESix; ETix; ERix] ++ (if chk then [ECix] else []).

Fixpoint tab_get (t : list (name * pinfo)) (n : name) : pinfo :=
  match t with
  | [] => PI [] false
  | (m, i) :: r => if Nat.eqb m n then i else tab_get r n
  end.
Definition content_of (t : list (name * pinfo)) (n : name) : list nat := prevs (tab_get t n).

Fixpoint ins_nat (x : nat) (l : list nat) : list nat :=
  match l with
  | [] => [x]
  | y :: r => if x <? y then x :: l else if x =? y then l else y :: ins_nat x r
  end.
Definition sort_nat (l : list nat) : list nat := fold_right ins_nat [] l.
(* sort keeping duplicates (multisets of revision counts) *)
Fixpoint insd (x : nat) (l : list nat) : list nat :=
  match l with
  | [] => [x]
  | y :: r => if x <=? y then x :: l else y :: insd x r
  end.
Definition sortd (l : list nat) : list nat := fold_right insd [] l.

Definition file_code (f : file) : N :=
  (N.of_nat (dir_code (fdir f)) * 100000 + N.of_nat (fname f) * 10 + N.of_nat (ext_code (fext f)))%N.
(* _clear_obsolete_packs(preserve): everything in obsolete_packs/ whose name is not preserved;
   os.listdir order is arbitrary -- canonical order = by file code (the harness sorts the same way) *)
Fixpoint ins_file (x : file) (l : list file) : list file :=
  match l with
  | [] => [x]
  | y :: r => if (file_code x <? file_code y)%N then x :: l
              else if (file_code x =? file_code y)%N then l else y :: ins_file x r
  end.
Definition clear_list (s : st) (preserve : list name) : list file :=
  fold_right ins_file []
    (filter (fun f => dir_eqb (fdir f) Obsolete && negb (existsb (Nat.eqb (fname f)) preserve))
            (map fst (files s))).

Definition subsetb (a b : list nat) : bool := forallb (fun x => existsb (Nat.eqb x) b) a.
Fixpoint nodupb (l : list nat) : bool :=
  match l with [] => true | x :: r => negb (existsb (Nat.eqb x) r) && nodupb r end.

(* [None] = the model cannot explain the hint (reported as a disagreement) *)
Definition plan_op (chk : bool) (w : world) (o : sop) : option (list op * world) :=
  let s := wst w in
  let ixs := ixs_of chk in
  let oixs := oixs_of chk in
  match o with
  | SEmpty => Some (abort_pack (wnext w), W s (wtab w) (S (wnext w)))
  | SCommit revs hint t =>
      let x := wnext w in
      let tab1 := (x, PI (sort_nat revs) false) :: wtab w in
      let all := names s ++ [x] in
      let cnt1 n := List.length (content_of tab1 n) in
      (* _do_autopack on the packs of _names after allocate(x) *)
      match AutoPack.do_autopack (map (fun n => (N.of_nat (cnt1 n), N.of_nat n)) all) with
      | AutoPack.Nothing =>
          match hint with
          | [] => Some (commit_prog ixs x (names s) t, W s tab1 (S x))
          | _ => None
          end
      | AutoPack.Combine _ l =>
          if subsetb hint all && nodupb hint
             && list_eqb Nat.eqb (sortd (map cnt1 hint)) (sortd (map (fun p => N.to_nat (fst p)) l))
          then
            let y := S x in
            let plan := sort_nat hint in
            let tab2 := (y, PI (sort_nat (flat_map (content_of tab1) plan)) true) :: tab1 in
            Some (autopack_prog ixs oixs x y (names s) plan (clear_list s plan) t, W s tab2 (S y))
          else None
      | AutoPack.Fail _ => None
      end
  | SPack aborted =>
      let listed := names s in
      (* pack(): _already_packed() = not (format.pack_compresses or len(_names) > 1) *)
      if negb chk && (List.length listed <=? 1) then (if aborted then None else Some ([], w))
      else match listed with
      | [] => if aborted then None
              else Some (save_names [] (clear_list s []), w)   (* no packer runs; pack-names is rewritten *)
      | _ =>
        let y := wnext w in
        let plan := sort_nat listed in
        if aborted then
          (* GCCHKPacker._create_pack_from_packs: len(self.packs) == 1 and old name == new hash -> new_pack.abort() *)
          if chk && (List.length listed =? 1) then Some (abort_pack y, W s (wtab w) (S y)) else None
        else
          let tab1 := (y, PI (sort_nat (flat_map (content_of (wtab w)) plan)) true) :: wtab w in
          Some (pack_prog ixs oixs y listed plan (clear_list s plan), W s tab1 (S y))
      end
  end.

(* ---------- observations ---------- *)
Definition ofile (f : file) : obs := oN (file_code f).
Definition oop (o : op) : obs :=
  match o with
  | OOpen f => OL [OT "open"; ofile f]
  | OClose f => OL [OT "close"; ofile f]
  | OMove f g => OL [OT "move"; ofile f; ofile g]
  | ODelete f => OL [OT "delete"; ofile f]
  | OLock => OL [OT "lock"]
  | OUnlock => OL [OT "unlock"]
  | OPutNames _ => OL [OT "names"]
  | OSetTip r => OL [OT "tip"; onat r]
  end%string.

Fixpoint ins_N (x : N) (l : list N) : list N :=
  match l with
  | [] => [x]
  | y :: r => if (x <? y)%N then x :: l else if (x =? y)%N then l else y :: ins_N x r
  end.
Definition codes (s : st) : list N := fold_right ins_N [] (map (fun p => file_code (fst p)) (files s)).
Definition minus (a b : list N) : list N := filter (fun x => negb (existsb (N.eqb x) b)) a.
Definition otip (s : st) : obs := match tip s with None => ON | Some r => onat r end.

(* what is compared for the directory state after one operation: files added / removed,
   listed names, lock held, revisions a reader lists, "every listed pack is complete",
   the branch tip *)
Definition ostate (chk : bool) (tab : list (name * pinfo)) (before after : st) : list obs :=
  [ olist oN (minus (codes after) (codes before));
    olist oN (minus (codes before) (codes after));
    olist onat (sort_nat (names after));
    obool (lock after);
    olist onat (sort_nat (visible (content_of tab) after));
    obool (goodb (ixs_of chk) after && tip_okb (content_of tab) after);
    otip after ].

Fixpoint osteps (chk : bool) (tab : list (name * pinfo)) (s : st) (p : list op) : list obs :=
  match p with
  | [] => []
  | o :: r => let s' := step s o in OL (oop o :: ostate chk tab s s') :: osteps chk tab s' r
  end.

Definition empty_st : st := St [] [] false None.

(* the base operations are run without observation; every traced operation yields
   [initial state; steps; the program satisfies the proof's discipline] *)
Fixpoint run_base (chk : bool) (w : world) (ops : list sop) : option world :=
  match ops with
  | [] => Some w
  | o :: r => match plan_op chk w o with
              | None => None
              | Some (p, w') => run_base chk (W (run p (wst w)) (wtab w') (wnext w')) r
              end
  end.
Fixpoint run_traced (chk : bool) (w : world) (ops : list sop) : list obs :=
  match ops with
  | [] => []
  | o :: r => match plan_op chk w o with
              | None => [OE "model-cannot-explain-plan"%string]
              | Some (p, w') =>
                  let s := wst w in
                  OL [ OL (olist oN (codes s) :: ostate chk (wtab w') s s);
                       OL (osteps chk (wtab w') s p);
                       obool (ok_runb (ixs_of chk) s p) ]
                  :: run_traced chk (W (run p s) (wtab w') (wnext w')) r
              end
  end.

Definition run_case (chk : bool) (base traced : list sop) : obs :=
  match run_base chk (W empty_st [] 0) base with
  | None => OE "model-cannot-explain-base"%string
  | Some w => OL (run_traced chk w traced)
  end.
