(* Model/Uncommit.v -- hand model of breezy/uncommit.py:uncommit and
   src/uncommit.rs:remove_tags (C16), on the revision graphs of Lib/Dag.v.

     uncommit()  left-hand walk + pending-merge reconstruction   -> walk, plan
                 master handling (bound branch, local=True)       -> uncommit
                 branch/master set_last_revision_info, tree.set_parent_ids
     remove_tags (Rust)                                           -> remove_tags
     WorkingTree.set_parent_ids / WorkingTree4.set_parent_trees
                 (filtering of the parent list by graph.heads)    -> filter_parents
     BasicTags.delete_tag (also deletes the tag in the master)    -> delete_names
     commit (only what the round trip needs: new revision whose parents are
             the tree's parents, revno + 1, tree parents = [new])  -> commit
   Environment (vcsgraph; compared by the correspondence run): Graph.heads,
   iter_lefthand_ancestry, find_unique_ancestors = Lib/Dag.  No proofs here. *)
From Coq Require Import String List Arith Bool ZArith.
From BV Require Import Lib.Obs Lib.Dag.
Import ListNotations.

(* a tag dictionary: (tag name, revision), sorted by name; names are numbers *)
Definition tagdict := list (nat * revid).

(* last_revision_info() and tags of a branch *)
Record bstate := mkS { tip : option revid; revno : nat; tagd : tagdict }.

(* a working tree: get_parent_ids() and an abstraction of the files on disk *)
Record tstate := mkT { tparents : list revid; tfiles : list (nat * nat) }.

Inductive error :=
| BoundBranchOutOfDate | LocalRequiresBoundBranch | RevisionNotPresent | GhostRevisionUnusableHere.
Inductive result (A : Type) := Ok (a : A) | Err (e : error).
Arguments Ok {A} a.
Arguments Err {A} e.

Definition opt_eqb (a b : option revid) : bool :=
  match a, b with
  | None, None => true
  | Some x, Some y => x =? y
  | _, _ => false
  end.
Definition opt_list (o : option revid) : list revid := match o with Some r => [r] | None => [] end.

(* the merged (non-left-hand) parents of a mainline revision *)
Definition merged (g : dag) (r : revid) : list revid := tl (parents g r).

(* for rev_id in graph.iter_lefthand_ancestry(old_tip):
       if cur_revno == new_revno: new_revision_id = rev_id; break
       cur_revno -= 1
       pending_merges.extend(reversed(parents[1:]))
   else: new_revision_id = NULL_REVISION
   ([lh] is the left-hand history; the iterator raises RevisionNotPresent
   instead of yielding a ghost.  [cur - 1] on nat: see notes/C16.md, the
   truncation at 0 is never observable.) *)
Fixpoint walk (g : dag) (lh : list revid) (cur new_revno : nat) (pm : list revid)
  : result (option revid * list revid) :=
  match lh with
  | [] => Ok (None, pm)
  | r :: rest =>
      if ghost g r then Err RevisionNotPresent
      else if cur =? new_revno then Ok (Some r, pm)
      else walk g rest (cur - 1) new_revno (pm ++ rev (merged g r))
  end.

(* new tip and the (unfiltered) new parent list:
     parents = [new_revision_id] (or [] for null:)
     if tree is not None: parents.extend(reversed(pending_merges))
   [tp] = tree.get_parent_ids() when a tree is given *)
Definition plan (g : dag) (b : bstate) (tp : option (list revid)) (new_revno : nat)
  : result (option revid * list revid) :=
  match walk g (lefthand_opt g (tip b)) (revno b) new_revno
             (match tp with Some ps => tl ps | None => [] end) with
  | Err e => Err e
  | Ok (new_tip, pm) =>
      Ok (new_tip, match tp with
                   | Some _ => opt_list new_tip ++ rev pm
                   | None => opt_list new_tip
                   end)
  end.

(* src/uncommit.rs remove_tags: delete every tag whose revision is in
   graph.find_unique_ancestors(old_tip, parents) *)
Definition removed_tag (g : dag) (old : option revid) (ps : list revid) (nr : nat * revid) : bool :=
  match old with
  | None => false
  | Some o => memb (snd nr) (find_unique_ancestors g o ps)
  end.
Definition remove_tags (g : dag) (tags : tagdict) (old : option revid) (ps : list revid) : tagdict :=
  filter (fun nr => negb (removed_tag g old ps nr)) tags.

(* BasicTags.delete_tag also deletes the same tag name in the master branch *)
Definition delete_names (names : list nat) (tags : tagdict) : tagdict :=
  filter (fun nr => negb (memb (fst nr) names)) tags.

(* WorkingTree.set_parent_ids: the first parent is always kept, a later one
   only if it is in graph.heads(all) and was not accepted before *)
Fixpoint filter_rest (hs acc rest : list revid) : list revid :=
  match rest with
  | [] => []
  | r :: rest' => if memb r hs && negb (memb r acc)
                  then r :: filter_rest hs (r :: acc) rest'
                  else filter_rest hs acc rest'
  end.
Definition filter_parents (g : dag) (ps : list revid) : list revid :=
  match ps with
  | [] => []
  | p :: rest => p :: filter_rest (heads g ps) [p] rest
  end.
Definition set_parent_ids (g : dag) (t : tstate) (ps : list revid) : result tstate :=
  match ps with
  | p :: _ => if ghost g p then Err GhostRevisionUnusableHere
              else Ok (mkT (filter_parents g ps) (tfiles t))
  | [] => Ok (mkT [] (tfiles t))
  end.

(* remove_tags runs last; for a bound branch uncommit() first releases its own
   lock on the master (commit 495a382), so that BasicTags.delete_tag can lock the
   master and delete the tag there too *)
(* uncommit(branch, revno=new_revno+1, tree=, local=, keep_tags=) *)
Definition uncommit (g : dag) (b : bstate) (t : option tstate) (master : option bstate)
                    (new_revno : nat) (keep_tags local : bool)
  : result (bstate * option tstate * option bstate) :=
  match (if local
         then match master with None => Err LocalRequiresBoundBranch | Some _ => Ok None end
         else Ok master) with
  | Err e => Err e
  | Ok m =>
      if match m with Some mb => negb (opt_eqb (tip b) (tip mb)) | None => false end
      then Err BoundBranchOutOfDate
      else
        match plan g b (option_map tparents t) new_revno with
        | Err e => Err e
        | Ok (new_tip, ps) =>
            let tags' := if keep_tags then tagd b else remove_tags g (tagd b) (tip b) ps in
            let gone := map fst (filter (fun nr => removed_tag g (tip b) ps nr) (tagd b)) in
            let mtags (mb : bstate) := if keep_tags then tagd mb else delete_names gone (tagd mb) in
            let master' :=
              match master with
              | None => None
              | Some mb => Some (if local then mkS (tip mb) (revno mb) (mtags mb)
                                 else mkS new_tip new_revno (mtags mb))
              end in
            match t with
            | None => Ok (mkS new_tip new_revno tags', None, master')
            | Some ts =>
                match set_parent_ids g ts ps with
                | Err e => Err e
                | Ok ts' => Ok (mkS new_tip new_revno tags', Some ts', master')
                end
            end
        end
  end.

(* commit of tree t on branch b: the new revision is number [length g], its
   parents are the tree's parents *)
Definition commit_graph (g : dag) (t : tstate) : dag := g ++ [tparents t].
Definition commit_branch (g : dag) (b : bstate) : bstate :=
  mkS (Some (length g)) (S (revno b)) (tagd b).
Definition commit_tree (g : dag) (t : tstate) : tstate := mkT [length g] (tfiles t).

(* ---- observations --------------------------------------------------------- *)

Definition error_name (e : error) : string :=
  match e with
  | BoundBranchOutOfDate => "BoundBranchOutOfDate"
  | LocalRequiresBoundBranch => "LocalRequiresBoundBranch"
  | RevisionNotPresent => "RevisionNotPresent"
  | GhostRevisionUnusableHere => "GhostRevisionUnusableHere"
  end.
Definition otip (t : option revid) : obs := oopt onat t.
Definition otags (d : tagdict) : obs := olist (opair onat onat) d.
Definition obstate (b : bstate) : obs := OL [onat (revno b); otip (tip b); otags (tagd b)].

(* [status; branch; tree parents or None; master or None] *)
Definition oresult (r : result (bstate * option tstate * option bstate)) : obs :=
  match r with
  | Err e => OL [OE (error_name e)]
  | Ok (b, t, m) => OL [OT "ok"; obstate b; oopt (fun ts => olist onat (tparents ts)) t; oopt obstate m]
  end.

Definition run_uncommit (g : dag) (b : bstate) (tp : option (list revid)) (master : option bstate)
                        (new_revno : nat) (keep_tags local : bool) : obs :=
  oresult (uncommit g b (option_map (fun ps => mkT ps []) tp) master new_revno keep_tags local).

(* commit the tree (parents tp) and uncommit that revision again *)
Definition run_roundtrip (g : dag) (b : bstate) (tp : list revid) (keep_tags : bool) : obs :=
  let t := mkT tp [] in
  oresult (uncommit (commit_graph g t) (commit_branch g b) (Some (commit_tree g t)) None
                    (revno b) keep_tags false).

(* WorkingTree.set_parent_ids alone *)
Definition run_filter (g : dag) (ps : list revid) : obs := olist onat (filter_parents g ps).

(* the same in a bound branch (heavyweight checkout): commit(local=True) does not
   touch the master [mb] (which may be at or behind the branch), then
   uncommit(local=loc) *)
Definition run_roundtrip_bound (g : dag) (b : bstate) (tp : list revid) (keep_tags : bool)
                               (mb : bstate) (loc : bool) : obs :=
  let t := mkT tp [] in
  oresult (uncommit (commit_graph g t) (commit_branch g b) (Some (commit_tree g t)) (Some mb)
                    (revno b) keep_tags loc).
