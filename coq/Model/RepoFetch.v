(* Model/RepoFetch.v -- hand model (tie H) of repository-content transfer, shared
   by C03 (fetch / push / pull copy history completely) and C08 (stacked
   repositories stay readable).  No proofs here (Theory/RepoFetch.v).

   What is modelled, and from which code:

   * the history that exists ("universe" = the source repository): a Lib/Dag
     graph [ug] (entry r = parents of revision r; ids >= length are ghosts of the
     source) and, per revision, its inventory as the list of text keys
     (file id, revision that last changed the file) it references: [uinv].
     The harness reads this table back from the real source repository.
   * a repository = which revision records, which inventory records and which
     text records it holds itself (fallbacks excluded): [revs], [invs], [texts].
     A stacked repository sees [revs T ++ revs F] through its graph
     (PackRepository._make_parents_provider, VersionedFiles fallbacks).
   * breezy/bzr/vf_repository.py InterVersionedFileRepository
       search_missing_revision_ids, find_ghosts=True:
         _present_source_revisions_for(ancestry of r) - target.all_revision_ids()  = [missing_full]
       find_ghosts=False: _walk_to_common_revisions: breadth first from r in the
         source; the revisions the target has AND ALL THEIR SEEN ANCESTORS
         (searcher.find_seen_ancestors(have_revs); stop_searching_any) are
         excluded                                                               = [missing_walk]
         (exact when the search is exhausted in one batch of
          _walk_to_common_revisions_batch_size = 50 revisions, or when the
          target is closed under parents: then both searches coincide -- theorem).
       NoSuchRevision when r is absent from the source (find_ghosts=False: only
       if the target does not have it either).
   * breezy/bzr/fetch.py RepoFetcher.__fetch/_fetch_everything_for_search: empty
     search -> nothing happens; rich-root source into a non-rich-root target ->
     IncompatibleRepositories (nothing written).
   * the stream sources: GroupCHKStreamSource (2a->2a: get_stream,
     _get_filtered_chk_streams with the inventories of the parents of the sent
     revisions that are not sent themselves as "uninteresting") and
     KnitPackStreamSource._get_filtered_inv_stream (pack->pack: content_text_keys
     - parent_text_keys): texts sent = referenced by a sent inventory and by no
     boundary-parent inventory the source has                                   = [texts_diff];
     generic StreamSource.get_stream (different formats, item_keys_introduced_by /
     fileids_altered_by_revision_ids = _find_file_ids_from_xml_inventory_lines: text keys seen
     in the sent inventories minus those seen in the boundary-parent inventories, +
     _generate_root_texts which adds the root keys a non-rich-root inventory table already
     names): the same selection                                                  = [texts_diff].
     A text may be named after a revision the source does not hold (a ghost that introduced
     it): it is selected like any other, by inventory difference, never by its revision.
   * StreamSink.insert_stream / insert_stream_without_locking /
     VersionedFileRepository.get_missing_parent_inventories (formats with
     supports_external_lookups, i.e. 2a, stacked or not): the parents of the new
     revisions that are not new and whose inventory is not held locally are
     reported missing; the source (get_stream_for_missing_keys) sends those it
     has, inventory and chk pages only                                          = [refill].
     The second round (check_for_missing_texts) and
     GCRepositoryPackCollection._check_new_inventories accept (the stream is
     sufficient -- theorem [fetch_keeps_complete]).
   * VersionedFileCommitBuilder.commit/_ensure_fallback_inventories: a commit
     into a repository with fallbacks copies the parent inventories it lacks
     from the fallback and fails with BzrError when one cannot be found (a ghost
     parent); without fallbacks nothing is copied                               = [commit]. *)
From Coq Require Import List Arith Bool ZArith String.
From BV Require Import Lib.Obs Lib.Dag.
Import ListNotations.

Definition tkey := (nat * nat)%type.   (* file id, revision that last changed it *)
Definition tk_eqb (a b : tkey) : bool := (fst a =? fst b) && (snd a =? snd b).
Definition tmemb (t : tkey) (l : list tkey) : bool := existsb (tk_eqb t) l.
Definition tadd (t : tkey) (l : list tkey) : list tkey := if tmemb t l then l else t :: l.
Definition tunion (a b : list tkey) : list tkey := fold_right tadd b a.

Record univ := Univ { ug : dag; uinv : list (list tkey) }.
Definition inv_of (U : univ) (r : revid) : list tkey := nth r (uinv U) [].
Definition srcp (U : univ) (r : revid) : bool := present (ug U) r.

Record repo := Repo { revs : list revid; invs : list revid; texts : list tkey }.
Definition empty_repo : repo := Repo [] [] [].

(* texts referenced by the inventories of a list of revisions *)
Definition inv_texts (U : univ) (R : list revid) : list tkey := flat_map (inv_of U) R.

(* a repository holding exactly the revisions Z, each with its inventory and every
   text it references (what fetching into an empty unstacked repository gives) *)
Definition seed (U : univ) (Z : list revid) : repo := Repo Z Z (inv_texts U Z).

(* ---- well-formedness of the universe (executable; the harness asserts it) ---- *)
Definition wf_univ (U : univ) : bool :=
  wf_dag (ug U) && (List.length (uinv U) =? List.length (ug U)) &&
  forallb (fun r => forallb (fun t => (snd t =? r) ||
                      existsb (fun p => srcp U p && tmemb t (inv_of U p)) (parents (ug U) r))
                    (inv_of U r))
          (seq 0 (List.length (ug U))).

(* the shape only: a sparse source may hold a revision without the parent that introduced some of
   its texts (the text key then names a revision the source lacks) *)
Definition wf_shape (U : univ) : bool :=
  wf_dag (ug U) && (List.length (uinv U) =? List.length (ug U)).

(* the visible revisions are closed under the parents the source has *)
Definition closedb (U : univ) (vis : list revid) : bool :=
  forallb (fun r => negb (srcp U r) ||
             forallb (fun p => negb (srcp U p) || memb p vis) (parents (ug U) r)) vis.

(* ---- what is requested ---- *)
Definition anc (U : univ) (r : revid) : list revid := ancestors (ug U) [r].

Definition missing_full (U : univ) (vis : list revid) (r : revid) : list revid :=
  filter (fun a => srcp U a && negb (memb a vis)) (anc U r).

(* find_ghosts=False, _walk_to_common_revisions after /repo be5f5d4: breadth first from r in the
   source; after each batch the search stops at the seen ancestors of the revisions the target has
   EXCEPT those the walk itself found missing in the target -- i.e. it stops only at revisions the
   target has.  Every seen revision is checked against the target, and within one batch
   (_walk_to_common_revisions_batch_size = 50) the searcher keeps walking past revisions the target
   has, so a search that is exhausted in its first batch requests every ancestor the target lacks:
   the same set as find_ghosts=True.  With several batches the result lies between "reachable from r
   without passing through a revision the target has" and that set (Theory: walk_ok); on a target
   closed under parents all of them coincide. *)
Definition missing_walk (U : univ) (vis : list revid) (r : revid) : list revid :=
  filter (fun a => srcp U a && negb (memb a vis)) (anc U r).

(* find_ghosts=False from a source reached through the smart server (RemoteRepository): the client
   sends the walk's result as a search RECIPE (start keys = the requested tip, exclude keys = the
   revisions where the walk stopped, i.e. revisions the target has) and the server replays it
   (SmartServerRepositoryGetStream, recreate_search): it walks from the tip and never passes an
   excluded revision.  Missing revisions that are only reachable through a revision the target has
   (a ghost of the target below one of its own revisions) are therefore not sent, although the
   client-side walk found them.  One downward sweep (parents have smaller indices): *)
Fixpoint sweep_avoid (g : dag) (vis : list revid) (n : nat) (s : list revid) : list revid :=
  match n with
  | 0 => s
  | S i => sweep_avoid g vis i (if memb i s && negb (memb i vis) then union (parents g i) s else s)
  end.
Definition missing_replay (U : univ) (vis : list revid) (r : revid) : list revid :=
  filter (fun a => srcp U a && negb (memb a vis)) (sweep_avoid (ug U) vis (List.length (ug U)) [r]).

(* the search BEFORE be5f5d4 (kept for the regression statement C03_old_walk_unclosed_refuted): the
   revisions the target has and ALL their seen ancestors were excluded, also ancestors the target lacks *)
Definition haves (U : univ) (vis : list revid) (r : revid) : list revid :=
  filter (fun a => srcp U a && memb a vis) (anc U r).
Definition missing_walk_old (U : univ) (vis : list revid) (r : revid) : list revid :=
  let stop := ancestors (ug U) (haves U vis r) in
  filter (fun a => srcp U a && negb (memb a stop)) (anc U r).


(* ---- what is sent ---- *)
(* parents of the sent revisions that are not sent and that the source has *)
Definition boundary (U : univ) (M : list revid) : list revid :=
  filter (fun p => srcp U p && negb (memb p M)) (dedup (flat_map (parents (ug U)) M)).

Definition texts_diff (U : univ) (M : list revid) : list tkey :=
  filter (fun t => negb (tmemb t (inv_texts U (boundary U M)))) (inv_texts U M).

Record cfg := Cfg {
  ext : bool;        (* target format supports_external_lookups (2a): parent inventories are refilled *)
  incompat : bool;   (* rich-root source, non-rich-root target *)
  stacked : bool;    (* the target has a fallback repository *)
  remote_src : bool  (* the source is reached through the smart server *) }.

Definition missing (U : univ) (c : cfg) (fg : bool) (vis : list revid) (r : revid) : list revid :=
  if fg then missing_full U vis r
  else if remote_src c then missing_replay U vis r else missing_walk U vis r.

Definition sent_texts (U : univ) (c : cfg) (M : list revid) : list tkey := texts_diff U M.

Definition refill (U : univ) (c : cfg) (T : repo) (M : list revid) : list revid :=
  if ext c then filter (fun p => negb (memb p (invs T))) (boundary U M) else [].

Inductive outcome := FOk | FNoSuchRevision | FIncompatible | FBzrError | FBzrCheckError.

Definition vis_of (F T : repo) : list revid := revs T ++ revs F.

Definition insert (U : univ) (c : cfg) (T : repo) (M : list revid) : repo :=
  Repo (union M (revs T))
       (union (refill U c T M) (union M (invs T)))
       (tunion (sent_texts U c M) (texts T)).

(* RepoFetcher._fetch_everything_for_search for the revisions M: nothing to do when the search is
   empty; otherwise refuse an incompatible pair, else insert the stream *)
Definition transfer (U : univ) (c : cfg) (T : repo) (M : list revid) : outcome * nat * repo :=
  match M with
  | [] => (FOk, 0, T)
  | _ => if incompat c then (FIncompatible, 0, T)
         else (FOk, List.length M, insert U c T M)
  end.

(* With a smart-server source the decisions "is there anything to fetch" / "are the formats
   compatible" are taken on the key set the CLIENT computed (K), while the server sends what the
   replayed recipe yields (M, a subset of K): K non-empty and M empty transfers nothing. *)
Definition client_keys (U : univ) (fg : bool) (vis : list revid) (r : revid) : list revid :=
  if fg then missing_full U vis r else missing_walk U vis r.
Definition transfer2 (U : univ) (c : cfg) (T : repo) (K M : list revid) : outcome * nat * repo :=
  match K with
  | [] => (FOk, 0, T)
  | _ => if incompat c then (FIncompatible, 0, T)
         else match M with
              | [] => (FOk, 0, T)
              | _ => (FOk, List.length M, insert U c T M)
              end
  end.

(* Repository.fetch(source, revision_id=r, find_ghosts=fg) / Branch.pull / Branch.push
   (the branch entry points always use find_ghosts=False); ControlDir.sprout into a new
   repository is the same with an empty target.  Returns the outcome, the number of revisions
   copied, the new target. *)
Definition fetch (U : univ) (c : cfg) (F T : repo) (fg : bool) (r : revid) : outcome * nat * repo :=
  let vis := vis_of F T in
  if negb (srcp U r) && (fg || negb (memb r vis)) then (FNoSuchRevision, 0, T)
  else transfer2 U c T (client_keys U fg vis r) (missing U c fg vis r).

(* A fetch whose sender cannot supply the parent inventories the sink asks for -- real instance:
   pull over the smart server from a STACKED source branch whose revisions live in its own fallback
   (the Repository.get_stream_for_missing_keys request is answered by the stacked source repository
   alone).  When no parent inventory is needed it is an ordinary fetch.  Otherwise the sink resumes
   the write group without them (StreamSink.insert_stream: get_missing_parent_inventories with
   check_for_missing_texts finds the texts present) and commit_write_group runs
   GCRepositoryPackCollection._check_new_inventories [check_ok]: every text a new inventory references
   must be held locally unless a parent inventory that IS held locally references it too; the texts
   shared with the absent boundary parent were not sent, so the group is normally refused
   (BzrCheckError, nothing written). *)
Definition no_ext (c : cfg) : cfg := Cfg false (incompat c) (stacked c) (remote_src c).
Definition check_ok (U : univ) (T : repo) (M : list revid) : bool :=
  forallb (fun m => forallb (fun t => tmemb t (texts T) ||
                       existsb (fun p => memb p (invs T) && tmemb t (inv_of U p)) (parents (ug U) m))
                    (inv_of U m)) M.
Definition fetch_nr (U : univ) (c : cfg) (F T : repo) (fg : bool) (r : revid) : outcome * nat * repo :=
  let M := missing U c fg (vis_of F T) r in
  match refill U c T M with
  | [] => fetch U c F T fg r
  | _ => if negb (srcp U r) && (fg || negb (memb r (vis_of F T))) then (FNoSuchRevision, 0, T)
         else let T1 := insert U (no_ext c) T M in
              if check_ok U T1 M then (FOk, List.length M, T1) else (FBzrCheckError, 0, T)
  end.

(* Repository.fetch(source) without a revision (EverythingNotInOther: all_revision_ids of the
   source minus those the target sees) *)
Definition missing_all (U : univ) (vis : list revid) : list revid :=
  filter (fun a => negb (memb a vis)) (seq 0 (List.length (ug U))).
Definition fetch_all (U : univ) (c : cfg) (F T : repo) : outcome * nat * repo :=
  transfer U c T (missing_all U (vis_of F T)).

(* commit of the universe's revision c into the target (its parents that exist are
   visible: precondition checked by the harness) *)
Definition commit_fill (F T : repo) (ps : list revid) : list revid :=
  filter (fun p => negb (memb p (invs T)) && memb p (invs F)) ps.
Definition commit_unfillable (F T : repo) (ps : list revid) : list revid :=
  filter (fun p => negb (memb p (invs T)) && negb (memb p (invs F))) ps.

Definition commit (U : univ) (c : cfg) (F T : repo) (r : revid) : outcome * nat * repo :=
  let ps := parents (ug U) r in
  let own := filter (fun t => snd t =? r) (inv_of U r) in
  if stacked c then
    match commit_unfillable F T ps with
    | [] => (FOk, 1, Repo (add r (revs T)) (add r (union (commit_fill F T ps) (invs T))) (tunion own (texts T)))
    | _ => (FBzrError, 0, T)
    end
  else (FOk, 1, Repo (add r (revs T)) (add r (invs T)) (tunion own (texts T))).

Inductive op := OFetch (fg : bool) (r : revid) | OFetchAll | OCommit (r : revid) | OFetchNR (fg : bool) (r : revid).

Definition step (U : univ) (c : cfg) (F T : repo) (o : op) : outcome * nat * repo :=
  match o with
  | OFetch fg r => fetch U c F T fg r
  | OFetchAll => fetch_all U c F T
  | OFetchNR fg r => fetch_nr U c F T fg r
  | OCommit r => commit U c F T r
  end.

(* ---- the properties' vocabulary ---- *)

(* unstacked completeness: every revision has its inventory and all texts it references *)
Definition full (U : univ) (R : repo) : Prop :=
  forall r, In r (revs R) -> srcp U r = true ->
    In r (invs R) /\ forall t, In t (inv_of U r) -> In t (texts R).

(* the stacking invariant: own inventory, the inventories of the parents that exist,
   and the texts that differ from every parent are held locally *)
Definition local_complete (U : univ) (T : repo) : Prop :=
  forall r, In r (revs T) -> srcp U r = true ->
    In r (invs T) /\
    (forall p, In p (parents (ug U) r) -> srcp U p = true -> In p (invs T)) /\
    (forall t, In t (inv_of U r) ->
       (forall p, In p (parents (ug U) r) -> ~ In t (inv_of U p)) -> In t (texts T)).

(* r can be read from the repository together with its fallback *)
Definition readable (U : univ) (F T : repo) (r : revid) : Prop :=
  In r (invs T ++ invs F) /\ forall t, In t (inv_of U r) -> In t (texts T ++ texts F).

Definition full_b (U : univ) (R : repo) : bool :=
  forallb (fun r => negb (srcp U r) ||
     (memb r (invs R) && forallb (fun t => tmemb t (texts R)) (inv_of U r))) (revs R).

(* ---- observation ---- *)
Definition canon_revs (l : list revid) : list revid :=
  filter (fun x => memb x l) (seq 0 (S (list_max l))).
Definition canon_texts (l : list tkey) : list tkey :=
  let mf := list_max (map fst l) in
  let mr := list_max (map snd l) in
  flat_map (fun f => map (fun r => (f, r)) (filter (fun r => tmemb (f, r) l) (seq 0 (S mr)))) (seq 0 (S mf)).

Definition o_outcome (o : outcome) : obs :=
  match o with
  | FOk => OT "ok"
  | FNoSuchRevision => OE "NoSuchRevision"
  | FIncompatible => OE "IncompatibleRepositories"
  | FBzrError => OE "BzrError"
  | FBzrCheckError => OE "BzrCheckError"
  end.

(* [DAll rootless]: all three record sets; rootless = the target format stores no text for the
   tree root (file id 0).  [DRevs]: only the revisions -- used for knit (pack-0.92) targets that may
   hold a fillable ghost: there the knit delta-compression parents of the copied records are copied
   as well (get_missing_compression_parent_keys, modelled by C06's Model/WriteGroup.v, not here). *)
Inductive detail := DAll (rootless : bool) | DRevs.
Definition o_repo (d : detail) (R : repo) : obs :=
  match d with
  | DRevs => OL [olist onat (canon_revs (revs R))]
  | DAll rootless =>
    OL [olist onat (canon_revs (revs R));
        olist onat (canon_revs (invs R));
        olist (opair onat onat)
          (canon_texts (filter (fun t => negb (rootless && (fst t =? 0))) (texts R)))]
  end.

Fixpoint run_ops (U : univ) (c : cfg) (rootless : detail) (F T : repo) (ops : list op) : list obs :=
  match ops with
  | [] => []
  | o :: ops' =>
      let '(out, n, T') := step U c F T o in
      OL [o_outcome out; onat n; o_repo rootless T'] :: run_ops U c rootless F T' ops'
  end.

(* A case: the universe, the configuration, the revisions seeded into the fallback
   (complete, unstacked) and into the target, extra revisions the target holds that
   the source does not know, with the texts they brought ([xtexts]), the operations.
   [strict]: the history is an ordinary one (wf_univ); otherwise only its shape is checked. *)
Definition run_case (g : dag) (iv : list (list tkey)) (c : cfg) (rootless : detail) (strict : bool)
                    (Zf Zt extra : list revid) (xtexts : list tkey) (ops : list op) : obs :=
  let U := Univ g iv in
  let F := seed U Zf in
  let T0 := seed U Zt in
  let T := Repo (extra ++ revs T0) (extra ++ invs T0) (tunion xtexts (texts T0)) in
  OL [obool (if strict then wf_univ U else wf_shape U); o_repo rootless T; OL (run_ops U c rootless F T ops)].
