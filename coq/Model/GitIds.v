(* Model/GitIds.v -- hand model of the git identifier mappings (C36).

   breezy/git/mapping.py : escape_file_id, unescape_file_id, encode_git_path,
                           decode_git_path, generate_file_id, parse_file_id,
                           BzrGitMapping.revision_id_foreign_to_bzr / _bzr_to_foreign,
                           GitMappingRegistry.revision_id_bzr_to_foreign
   breezy/git/refs.py    : branch_name_to_ref, ref_to_branch_name, tag_name_to_ref, ref_to_tag_name
   breezy/git/urls.py    : git_url_to_bzr_url
   crates/git/src/lib.rs : bzr_url_to_git_url, percent_decode
   breezy/git/branch.py  : GitBranch.set_parent, _get_parent_location (_get_related_merge_branch)

   Environment (code outside /repo) modelled as Gallina functions that the
   correspondence run validates: CPython's UTF-8 codec (strict / surrogateescape),
   urllib.parse.quote / quote_from_bytes, dromedary.urlutils (escape, unescape,
   strip_trailing_slash, split/join_segment_parameters, URL.scheme, str(URL) of a
   freshly built URL), dulwich.client.parse_rsync_url.  Two environment functions stay
   abstract (arguments of the model): [ssh_reser] = str(URL.from_string(l)) after the
   scheme was replaced by git+ssh, and [rel] = urlutils.relative_url.

   A Python [str] is a list of code points, [bytes] a list of bytes.  No proofs here. *)
From Coq Require Import ZArith NArith List Bool String Ascii.
From BV Require Import Lib.Bytes Lib.Obs.
Import ListNotations.
Open Scope N_scope.

Definition str := list N.

Inductive res (A : Type) : Type := Ok (a : A) | Err (e : string).
Arguments Ok {A}. Arguments Err {A}.

(* ASCII literal -> code points / bytes *)
Definition asc (s : string) : list N := map N_of_ascii (list_ascii_of_string s).

(* ------------------------------------------------------------------ *)
(* mapping.py: escape_file_id / unescape_file_id                      *)
(* ------------------------------------------------------------------ *)

(* file_id.replace(b"_", b"__").replace(b" ", b"_s").replace(b"\x0c", b"_c") *)
Definition escape_file_id (file_id : bytes) : bytes :=
  let file_id := replace [95] [95; 95] file_id in
  let file_id := replace [32] [95; 115] file_id in
  let file_id := replace [12] [95; 99] file_id in
  file_id.

(* the while loop; None = ValueError("unknown escape character") -- also raised
   when "_" is the last byte (file_id[i+1:i+2] == b"") *)
Fixpoint unescape_file_id (file_id : bytes) : option bytes :=
  match file_id with
  | [] => Some []
  | c :: r =>
      if negb (c =? 95) then option_map (cons c) (unescape_file_id r)
      else match r with
           | d :: r' =>
               if d =? 95 then option_map (cons 95) (unescape_file_id r')
               else if d =? 115 then option_map (cons 32) (unescape_file_id r')
               else if d =? 99 then option_map (cons 12) (unescape_file_id r')
               else None
           | [] => None
           end
  end.

(* ------------------------------------------------------------------ *)
(* CPython UTF-8 codec, errors="strict" (se=false) / "surrogateescape" *)
(* ------------------------------------------------------------------ *)

Definition is_cont (c : N) : bool := (128 <=? c) && (c <? 192).

(* a well-formed UTF-8 sequence at the head of [s]: (code point, number of
   continuation bytes).  Shortest form only, no surrogates, <= U+10FFFF. *)
Definition utf8_head (s : bytes) : option (N * nat) :=
  match s with
  | [] => None
  | c :: r =>
    if c <? 128 then Some (c, 0%nat)
    else if c <? 194 then None
    else if c <? 224 then
      match r with
      | c2 :: _ => if is_cont c2 then Some ((c - 192) * 64 + (c2 - 128), 1%nat) else None
      | _ => None
      end
    else if c <? 240 then
      match r with
      | c2 :: c3 :: _ =>
        if is_cont c2 && is_cont c3 && negb ((c =? 224) && (c2 <? 160))
           && negb ((c =? 237) && (160 <=? c2))
        then Some ((c - 224) * 4096 + (c2 - 128) * 64 + (c3 - 128), 2%nat) else None
      | _ => None
      end
    else if c <? 245 then
      match r with
      | c2 :: c3 :: c4 :: _ =>
        if is_cont c2 && is_cont c3 && is_cont c4 && negb ((c =? 240) && (c2 <? 144))
           && negb ((c =? 244) && (144 <=? c2))
        then Some ((c - 240) * 262144 + (c2 - 128) * 4096 + (c3 - 128) * 64 + (c4 - 128), 3%nat)
        else None
      | _ => None
      end
    else None
  end.

(* bytes.decode("utf-8", errors): an undecodable byte b >= 0x80 becomes the lone
   surrogate U+DC00+b under surrogateescape, and is UnicodeDecodeError (None) under
   strict.  [skip] = continuation bytes of the sequence just decoded. *)
Fixpoint utf8_decode_aux (se : bool) (skip : nat) (s : bytes) : option str :=
  match s with
  | [] => Some []
  | c :: r =>
    match skip with
    | S k => utf8_decode_aux se k r
    | O =>
      match utf8_head s with
      | Some (cp, k) => option_map (cons cp) (utf8_decode_aux se k r)
      | None => if se && (128 <=? c)
                then option_map (cons (56320 + c)) (utf8_decode_aux se 0 r)
                else None
      end
    end
  end.
Definition utf8_decode (se : bool) (s : bytes) : option str := utf8_decode_aux se 0 s.

(* str.encode("utf-8", errors) of one code point; None = UnicodeEncodeError *)
Definition enc_cp (se : bool) (cp : N) : option bytes :=
  if cp <? 128 then Some [cp]
  else if cp <? 2048 then Some [192 + cp / 64; 128 + cp mod 64]
  else if (55296 <=? cp) && (cp <? 57344) then
    if se && (56448 <=? cp) && (cp <? 56576) then Some [cp - 56320] else None
  else if cp <? 65536 then Some [224 + cp / 4096; 128 + (cp / 64) mod 64; 128 + cp mod 64]
  else if cp <? 1114112 then
    Some [240 + cp / 262144; 128 + (cp / 4096) mod 64; 128 + (cp / 64) mod 64; 128 + cp mod 64]
  else None.

Fixpoint utf8_encode (se : bool) (s : str) : option bytes :=
  match s with
  | [] => Some []
  | cp :: r => match enc_cp se cp, utf8_encode se r with
               | Some a, Some b => Some (a ++ b)
               | _, _ => None
               end
  end.

(* mapping.py: decode_git_path / encode_git_path *)
Definition decode_git_path (path : bytes) : option str := utf8_decode true path.
Definition encode_git_path (path : str) : option bytes := utf8_encode true path.

(* ------------------------------------------------------------------ *)
(* mapping.py: generate_file_id / parse_file_id                       *)
(* ------------------------------------------------------------------ *)

Definition FILE_ID_PREFIX : bytes := asc "git:".
Definition ROOT_ID : bytes := asc "TREE_ROOT".

Definition generate_file_id_bytes (path : bytes) : bytes :=
  match path with
  | [] => ROOT_ID
  | _ => FILE_ID_PREFIX ++ escape_file_id path
  end.
(* str argument: encode_git_path first (None = UnicodeEncodeError) *)
Definition generate_file_id_str (path : str) : option bytes :=
  option_map generate_file_id_bytes (encode_git_path path).

Definition parse_file_id (file_id : bytes) : res str :=
  if bytes_eqb file_id ROOT_ID then Ok []
  else if negb (prefixb FILE_ID_PREFIX file_id) then Err "ValueError"
  else match unescape_file_id (skipn (List.length FILE_ID_PREFIX) file_id) with
       | None => Err "ValueError"
       | Some p => match decode_git_path p with
                   | Some s => Ok s
                   | None => Err "UnicodeDecodeError"   (* unreachable: see decode_git_path_total *)
                   end
       end.

(* ------------------------------------------------------------------ *)
(* mapping.py: revision ids                                           *)
(* ------------------------------------------------------------------ *)

Definition ZERO_SHA : bytes := repeat 48 40.
Definition NULL_REVISION : bytes := asc "null:".
Definition PREFIX_V1 : bytes := asc "git-v1".
Definition PREFIX_EXP : bytes := asc "git-experimental".

(* BzrGitMapping.revision_id_foreign_to_bzr (cls.revid_prefix = prefix) *)
Definition revision_id_foreign_to_bzr (prefix git_rev_id : bytes) : bytes :=
  if bytes_eqb git_rev_id ZERO_SHA then NULL_REVISION
  else prefix ++ [58] ++ git_rev_id.

(* BzrGitMapping.revision_id_bzr_to_foreign; None = InvalidRevisionId *)
Definition revision_id_bzr_to_foreign (prefix bzr_rev_id : bytes) : option bytes :=
  if negb (prefixb (prefix ++ [58]) bzr_rev_id) then None
  else Some (skipn (List.length prefix + 1) bzr_rev_id).

(* GitMappingRegistry.revision_id_bzr_to_foreign: (sha, Some prefix-of-mapping | None) *)
Definition registry_get (version : bytes) : option bytes :=
  if bytes_eqb version PREFIX_V1 then Some PREFIX_V1
  else if bytes_eqb version PREFIX_EXP then Some PREFIX_EXP
  else None.

Definition registry_bzr_to_foreign (bzr_revid : bytes) : res (bytes * option bytes) :=
  if bytes_eqb bzr_revid NULL_REVISION then Ok (ZERO_SHA, None)
  else if negb (prefixb (asc "git-") bzr_revid) then Err "InvalidRevisionId"
  else match split1 58 bzr_revid with
       | mapping_version :: _ :: _ =>
           match registry_get mapping_version with
           | None => Err "KeyError"
           | Some prefix =>
               match revision_id_bzr_to_foreign prefix bzr_revid with
               | Some sha => Ok (sha, Some prefix)
               | None => Err "InvalidRevisionId"
               end
           end
       | _ => Err "ValueError"      (* split(b":", 1) gave one field: unpack fails *)
       end.

(* ------------------------------------------------------------------ *)
(* refs.py                                                            *)
(* ------------------------------------------------------------------ *)

Definition LOCAL_BRANCH_PREFIX : bytes := asc "refs/heads/".
Definition LOCAL_TAG_PREFIX : bytes := asc "refs/tags/".
Definition HEAD : bytes := asc "HEAD".

(* None = UnicodeEncodeError (name contains a surrogate) *)
Definition branch_name_to_ref (name : str) : option bytes :=
  match name with
  | [] => Some HEAD
  | _ => if negb (prefixb (asc "refs/") name)
         then option_map (app LOCAL_BRANCH_PREFIX) (utf8_encode false name)
         else utf8_encode false name
  end.

Definition tag_name_to_ref (name : str) : option bytes :=
  option_map (app LOCAL_TAG_PREFIX) (utf8_encode false name).

Definition ref_to_branch_name (ref : bytes) : res str :=
  if bytes_eqb ref HEAD then Ok []
  else if prefixb LOCAL_BRANCH_PREFIX ref then
    match utf8_decode false (skipn (List.length LOCAL_BRANCH_PREFIX) ref) with
    | Some s => Ok s
    | None => Err "UnicodeDecodeError"
    end
  else Err "ValueError".

Definition ref_to_tag_name (ref : bytes) : res str :=
  if prefixb LOCAL_TAG_PREFIX ref then
    match utf8_decode false (skipn (List.length LOCAL_TAG_PREFIX) ref) with
    | Some s => Ok s
    | None => Err "UnicodeDecodeError"
    end
  else Err "ValueError".

(* ------------------------------------------------------------------ *)
(* percent-encoding                                                   *)
(* ------------------------------------------------------------------ *)

Definition is_alnum (c : N) : bool :=
  ((48 <=? c) && (c <? 58)) || ((65 <=? c) && (c <? 91)) || ((97 <=? c) && (c <? 123)).
(* urllib _ALWAYS_SAFE == dromedary char_is_safe: alnum and "-" "." "_" "~" *)
Definition always_safe (c : N) : bool :=
  is_alnum c || (c =? 45) || (c =? 46) || (c =? 95) || (c =? 126).

Definition hexdig (n : N) : N := if n <? 10 then 48 + n else 55 + n.   (* upper case *)

(* urllib.parse.quote_from_bytes(bs, safe) / dromedary escape(bs, safe): "%%%02X" *)
Definition quote_byte (safe : bytes) (b : N) : str :=
  if always_safe b || memb b safe then [b] else [37; hexdig (b / 16); hexdig (b mod 16)].
Definition quote_from_bytes (safe : bytes) (bs : bytes) : str := flat_map (quote_byte safe) bs.

(* urllib.parse.quote(s, safe) / urlutils.escape(s, safe) for a str: UTF-8 first
   (None = UnicodeEncodeError resp. TypeError) *)
Definition quote_str (safe : bytes) (s : str) : option str :=
  option_map (quote_from_bytes safe) (utf8_encode false s).

(* char::to_digit(16) *)
Definition hexval (c : N) : option N :=
  if (48 <=? c) && (c <? 58) then Some (c - 48)
  else if (65 <=? c) && (c <? 71) then Some (c - 55)
  else if (97 <=? c) && (c <? 103) then Some (c - 87)
  else None.

(* lib.rs percent_decode (the while loop; "%XY" needs i + 2 < len) -- also the
   behaviour of percent_encoding::percent_decode_str used by dromedary unescape *)
Fixpoint percent_decode_aux (skip : nat) (b : bytes) : bytes :=
  match b with
  | [] => []
  | c :: r =>
    match skip with
    | S k => percent_decode_aux k r
    | O =>
      match (if c =? 37 then
               match r with
               | h :: l :: _ => match hexval h, hexval l with
                                | Some x, Some y => Some (x * 16 + y)
                                | _, _ => None
                                end
               | _ => None
               end
             else None) with
      | Some v => v :: percent_decode_aux 2 r
      | None => c :: percent_decode_aux 0 r
      end
    end
  end.
Definition percent_decode (b : bytes) : bytes := percent_decode_aux 0 b.

Definition is_ascii (s : str) : bool := forallb (fun c => c <? 128) s.

(* dromedary::urlutils::unescape: None = Error::UrlNotAscii; undecodable UTF-8
   falls back to the input *)
Definition unescape (url : str) : option str :=
  if negb (is_ascii url) then None
  else match utf8_decode false (percent_decode url) with
       | Some s => Some s
       | None => Some url
       end.

(* ------------------------------------------------------------------ *)
(* dromedary::urlutils segment parameters                             *)
(* ------------------------------------------------------------------ *)

(* URL_SCHEME_RE = ^(?P<scheme>[^:/]{2,}):(//)?(?P<path>. * )$  where '.' excludes
   the newline: Some (scheme, path) *)
Fixpoint take_scheme (u : str) : str :=
  match u with
  | [] => []
  | c :: r => if (c =? 58) || (c =? 47) then [] else c :: take_scheme r
  end.

Definition scheme_re (u : str) : option (str * str) :=
  let sch := take_scheme u in
  if (List.length sch <? 2)%nat then None
  else match skipn (List.length sch) u with
       | 58 :: r =>
           let p := if prefixb [47; 47] r then skipn 2 r else r in
           if memb 10 p then None else Some (sch, p)
       | _ => None
       end.

Fixpoint index_of (c : N) (s : str) : option nat :=
  match s with
  | [] => None
  | x :: r => if x =? c then Some 0%nat else option_map S (index_of c r)
  end.

Definition ends_with_slash (u : str) : bool :=
  match rev u with 47 :: _ => true | _ => false end.

Definition strip_trailing_slash (url : str) : str :=
  if negb (ends_with_slash url) then url
  else match scheme_re url with
       | None => removelast url
       | Some (_, path) =>
           match index_of 47 path with
           | None => url
           | Some i => if Nat.eqb (S i) (List.length path) then url else removelast url
           end
       end.

(* (everything up to and including the last '/', the last segment) *)
Fixpoint split_last_slash (u : str) : str * str :=
  match u with
  | [] => ([], [])
  | c :: r => if memb 47 u
              then let (p, s) := split_last_slash r in (c :: p, s)
              else ([], u)
  end.

(* char::is_whitespace *)
Definition is_ws (c : N) : bool :=
  ((9 <=? c) && (c <=? 13)) || (c =? 32) || (c =? 133) || (c =? 160) || (c =? 5760)
  || ((8192 <=? c) && (c <=? 8202)) || (c =? 8232) || (c =? 8233) || (c =? 8239)
  || (c =? 8287) || (c =? 12288).

Fixpoint drop_ws (s : str) : str :=
  match s with
  | [] => []
  | c :: r => if is_ws c then drop_ws r else s
  end.
Definition trim (s : str) : str := rev (drop_ws (rev (drop_ws s))).

Definition split_segment_parameters_raw (url : str) : str * list str :=
  let lurl := strip_trailing_slash url in
  let (pre, seg) := split_last_slash lurl in
  if negb (memb 44 seg) then (url, [])
  else match split1 44 seg with
       | first :: rest => (pre ++ first, map trim rest)
       | [] => (url, [])        (* unreachable: split1 returns >= 1 field *)
       end.

Fixpoint split_once (c : N) (s : str) : option (str * str) :=
  match s with
  | [] => None
  | x :: r => if x =? c then Some ([], r)
              else match split_once c r with
                   | Some (a, b) => Some (x :: a, b)
                   | None => None
                   end
  end.

(* HashMap<&str,&str> as an association list with unique keys *)
Definition params := list (str * str).
Fixpoint pinsert (k v : str) (m : params) : params :=
  match m with
  | [] => [(k, v)]
  | (k', v') :: m' => if bytes_eqb k k' then (k, v) :: m' else (k', v') :: pinsert k v m'
  end.
Fixpoint pget (k : str) (m : params) : option str :=
  match m with
  | [] => None
  | (k', v') :: m' => if bytes_eqb k k' then Some v' else pget k m'
  end.

(* None = Error::SubsegmentMissesEquals *)
Fixpoint collect_params (subs : list str) (acc : params) : option params :=
  match subs with
  | [] => Some acc
  | s :: subs' =>
      match split_once 61 s with
      | None => None
      | Some (k, v) => collect_params subs' (pinsert (trim k) (trim v) acc)
      end
  end.

Definition split_segment_parameters (url : str) : option (str * params) :=
  let (base, subs) := split_segment_parameters_raw url in
  match collect_params subs [] with
  | None => None
  | Some ps => Some (base, ps)
  end.

(* str ordering (== byte order of the UTF-8 encodings) *)
Fixpoint str_ltb (a b : str) : bool :=
  match a, b with
  | [], [] => false
  | [], _ :: _ => true
  | _ :: _, [] => false
  | x :: a', y :: b' => (x <? y) || ((x =? y) && str_ltb a' b')
  end.
Fixpoint sort_insert (kv : str * str) (l : params) : params :=
  match l with
  | [] => [kv]
  | kv' :: l' => if str_ltb (fst kv') (fst kv) then kv' :: sort_insert kv l' else kv :: l
  end.
Definition sort_params (l : params) : params := fold_right sort_insert [] l.

(* join_segment_parameters (+ _raw); errors: Python InvalidURL *)
Definition join_segment_parameters (url : str) (new : params) : res str :=
  match split_segment_parameters url with
  | None => Err "InvalidURL"
  | Some (base, existing) =>
      if existsb (fun kv => memb 61 (fst kv)) new then Err "InvalidURL"
      else
        let all := fold_left (fun m kv => pinsert (fst kv) (snd kv) m) new existing in
        let subs := map (fun kv => fst kv ++ [61] ++ snd kv) (sort_params all) in
        match subs with
        | [] => Ok base
        | _ => if existsb (memb 44) subs then Err "InvalidURL"
               else Ok (base ++ [44] ++ join [44] subs)
        end
  end.

(* ------------------------------------------------------------------ *)
(* crates/git/src/lib.rs: bzr_url_to_git_url                          *)
(* ------------------------------------------------------------------ *)

Definition K_BRANCH : str := asc "branch".
Definition K_REF : str := asc "ref".

(* the PyO3 argument conversion str -> &str fails on surrogates (UnicodeEncodeError);
   every dromedary Error becomes ValueError("Invalid URL").
   percent_decode works on the UTF-8 bytes of the value. *)
Definition bzr_url_to_git_url (location : str) : res (str * option str * option bytes) :=
  match utf8_encode false location with
  | None => Err "UnicodeEncodeError"
  | Some _ =>
    match split_segment_parameters location with
    | None => Err "ValueError"
    | Some (target_url, target_params) =>
        let branch := match pget K_BRANCH target_params with
                      | Some s => match unescape s with
                                  | Some b => Ok (Some b)
                                  | None => Err "ValueError"
                                  end
                      | None => Ok None
                      end in
        match branch with
        | Err e => Err e
        | Ok branch =>
            let ref_ := match pget K_REF target_params with
                        | Some s => match utf8_encode false s with
                                    | Some bs => Some (percent_decode bs)
                                    | None => None   (* unreachable: location is encodable *)
                                    end
                        | None => None
                        end in
            Ok (target_url, branch, ref_)
        end
    end
  end.

(* ------------------------------------------------------------------ *)
(* urls.py: git_url_to_bzr_url                                        *)
(* ------------------------------------------------------------------ *)

(* URL.from_string(location).scheme (split_scheme_netloc_path): text before the
   first ':' when "//" follows, else "" *)
Definition url_scheme (location : str) : str :=
  match split_once 58 location with
  | Some (s, rest) => if prefixb [47; 47] rest then s else []
  | None => []
  end.

Definition KNOWN_GIT_SCHEMES : list str :=
  [asc "git+ssh"; asc "git"; asc "http"; asc "https"; asc "ftp"; asc "ssh"].

(* a.rsplit("@", 1) when "@" in a *)
Fixpoint rsplit_at (s : str) : option (str * str) :=
  match s with
  | [] => None
  | x :: r => match rsplit_at r with
              | Some (a, b) => Some (x :: a, b)
              | None => if x =? 64 then Some ([], r) else None
              end
  end.

(* dulwich.client.parse_rsync_url: None = ValueError *)
Definition parse_rsync_url (location : str) : option (option str * str * str) :=
  match split_once 58 location with
  | None => None
  | Some (user_host, path) =>
      if negb (memb 64 location) then Some (None, user_host, path)
      else match rsplit_at user_host with
           | Some (user, host) => Some (Some user, host, path)
           | None => Some (None, user_host, path)
           end
  end.

(* the first part of git_url_to_bzr_url: how the location is normalised *)
Inductive head_result := HReturn (l : str) | HCont (l : str) | HErr (e : string).

Definition url_head (ssh_reser : str -> str) (location : str) : head_result :=
  let scheme := url_scheme location in
  if negb (existsb (bytes_eqb scheme) KNOWN_GIT_SCHEMES) && negb (prefixb (asc "chroot-") scheme)
  then
    match parse_rsync_url location with
    | None => HReturn location
    | Some (username, host, path) =>
        match quote_str (asc "/~") path with
        | None => HErr "UnicodeEncodeError"
        | Some quoted_path =>
            let quoted_path := if negb (prefixb [47] quoted_path) then 47 :: quoted_path
                               else quoted_path in
            let quoted_user :=
              match username with
              | Some (c :: u) => option_map Some (quote_str [47] (c :: u))
              | _ => Some None
              end in
            match quoted_user, quote_str [47] host with
            | Some quoted_user, Some quoted_host =>
                (* str(URL(scheme="git+ssh", quoted_user, None, quoted_host, None, quoted_path)) *)
                HCont (asc "git+ssh://"
                       ++ match quoted_user with Some u => u ++ [64] | None => [] end
                       ++ quoted_host ++ quoted_path)
            | _, _ => HErr "UnicodeEncodeError"
            end
        end
    end
  else if bytes_eqb scheme (asc "ssh") then HCont (ssh_reser location)
  else HCont location.

Definition nonempty {A} (o : option (list A)) : bool :=
  match o with Some (_ :: _) => true | _ => false end.

(* from "if ref == b'HEAD'" to the end *)
Definition attach_params (location : str) (branch : option str) (ref : option bytes) : res str :=
  let '(ref, branch) :=
    match ref with
    | Some r => if bytes_eqb r HEAD then (None, None) else (ref, branch)
    | None => (ref, branch)
    end in
  let '(ref, branch) :=
    if nonempty ref then
      match ref with
      | Some r => match ref_to_branch_name r with
                  | Ok b =>
                      (* only a name that maps back to this ref replaces it *)
                      match branch_name_to_ref b with
                      | Some r' => if bytes_eqb r' r then (None, Some b) else (ref, None)
                      | None => (ref, None)   (* unreachable: b was decoded from bytes *)
                      end
                  | Err _ => (ref, None)      (* UnicodeDecodeError is a ValueError *)
                  end
      | None => (ref, branch)
      end
    else (ref, branch) in
  if nonempty ref || nonempty branch then
    let p_ref := match ref with
                 | Some (c :: r) => Ok [(K_REF, quote_from_bytes [] (c :: r))]
                 | _ => Ok []
                 end in
    let p_branch := match branch with
                    | Some (c :: b) => match quote_str [] (c :: b) with
                                       | Some q => Ok [(K_BRANCH, q)]
                                       | None => Err "TypeError"
                                       end
                    | _ => Ok []
                    end in
    match p_ref, p_branch with
    | Ok a, Ok b => join_segment_parameters location (a ++ b)
    | Err e, _ => Err e
    | _, Err e => Err e
    end
  else Ok location.

(* location.replace(",", "%2C"): a comma of the git URL must not be read as the start of
   the segment parameters *)
Definition quote_commas (location : str) : str := replace [44] [37; 50; 67] location.

Definition git_url_to_bzr_url (ssh_reser : str -> str) (location : str)
           (branch : option str) (ref : option bytes) : res str :=
  match branch, ref with
  | Some _, Some _ => Err "ValueError"
  | _, _ =>
      match url_head ssh_reser location with
      | HReturn l => Ok l
      | HErr e => Err e
      | HCont l => attach_params (quote_commas l) branch ref
      end
  end.

(* ------------------------------------------------------------------ *)
(* branch.py: GitBranch.set_parent / _get_parent_location             *)
(* ------------------------------------------------------------------ *)

(* the part of .git/config that the two functions touch:
   remote.<remote>.url and the branch.<section>.merge entries *)
Record gitcfg := { cfg_url : option str; cfg_merge : list (bytes * bytes) }.

Fixpoint merge_get (sec : bytes) (m : list (bytes * bytes)) : option bytes :=
  match m with
  | [] => None
  | (k, v) :: m' => if bytes_eqb sec k then Some v else merge_get sec m'
  end.
Fixpoint merge_set (sec v : bytes) (m : list (bytes * bytes)) : list (bytes * bytes) :=
  match m with
  | [] => [(sec, v)]
  | (k, v') :: m' => if bytes_eqb sec k then (sec, v) :: m' else (k, v') :: merge_set sec v m'
  end.

(* set_parent for a branch called [name] (self.name.encode(), may be empty) whose
   remote is [remote] (= _get_origin); [rel] = urlutils.relative_url(this_url, .) *)
Definition set_parent (rel : str -> str) (name : bytes) (location : str) (cfg : gitcfg)
  : res gitcfg :=
  match bzr_url_to_git_url location with
  | Err e => Err e
  | Ok (target_url, branch, ref) =>
      let url := rel target_url in
      let merge :=
        match name with
        | [] => Ok (cfg_merge cfg)
        | _ =>
            if nonempty branch then
              match branch with
              | Some b => match branch_name_to_ref b with
                          | Some r => Ok (merge_set name r (cfg_merge cfg))
                          | None => Err "UnicodeEncodeError"
                          end
              | None => Ok (cfg_merge cfg)
              end
            else if nonempty ref then
              match ref with
              | Some r => Ok (merge_set name r (cfg_merge cfg))
              | None => Ok (cfg_merge cfg)
              end
            else Ok (merge_set name HEAD (cfg_merge cfg))
        end in
      match merge with
      | Ok m => Ok {| cfg_url := Some url; cfg_merge := m |}
      | Err e => Err e
      end
  end.

(* _get_related_merge_branch for the branch called [name] (self.name.encode("utf-8")):
   remote.<origin>.url and branch.<name>.merge (HEAD when unset) *)
Definition get_parent_location (ssh_reser : str -> str) (name : bytes) (cfg : gitcfg)
  : res (option str) :=
  match cfg_url cfg with
  | None => Ok None
  | Some location =>
      let ref := match merge_get name (cfg_merge cfg) with
                 | Some r => r
                 | None => HEAD
                 end in
      match git_url_to_bzr_url ssh_reser location None (Some ref) with
      | Ok l => Ok (Some l)
      | Err e => Err e
      end
  end.

(* ------------------------------------------------------------------ *)
(* observations for the correspondence run                            *)
(* ------------------------------------------------------------------ *)

Definition ostr (s : str) : obs := OL (map oN s).
Definition ores {A} (f : A -> obs) (r : res A) : obs :=
  match r with Ok a => f a | Err e => OE e end.
Definition oerr {A} (e : string) (f : A -> obs) (o : option A) : obs :=
  match o with Some a => f a | None => OE e end.

(* escape, unescape(escape), unescape(raw) *)
Definition run_escape (x : bytes) : obs :=
  OL [OB (escape_file_id x);
      oerr "ValueError" OB (unescape_file_id (escape_file_id x));
      oerr "ValueError" OB (unescape_file_id x)].

(* decode_git_path(x), encode_git_path(decode_git_path(x)), x.decode("utf-8") strict *)
Definition run_utf8 (x : bytes) : obs :=
  OL [oerr "UnicodeDecodeError" ostr (decode_git_path x);
      match decode_git_path x with
      | Some s => oerr "UnicodeEncodeError" OB (encode_git_path s)
      | None => OE "UnicodeDecodeError"
      end;
      oerr "UnicodeDecodeError" ostr (utf8_decode false x)].

(* s.encode(surrogateescape), s.encode(strict), decode_git_path(encode_git_path(s)) *)
Definition run_utf8enc (s : str) : obs :=
  OL [oerr "UnicodeEncodeError" OB (encode_git_path s);
      oerr "UnicodeEncodeError" OB (utf8_encode false s);
      match encode_git_path s with
      | Some b => oerr "UnicodeDecodeError" ostr (decode_git_path b)
      | None => OE "UnicodeEncodeError"
      end].

(* generate_file_id(bytes path), parse_file_id of it, parse_file_id(raw x) *)
Definition run_fileid (x : bytes) : obs :=
  OL [OB (generate_file_id_bytes x);
      ores ostr (parse_file_id (generate_file_id_bytes x));
      ores ostr (parse_file_id x)].

(* generate_file_id(str path), parse_file_id of it *)
Definition run_fileid_str (s : str) : obs :=
  match generate_file_id_str s with
  | None => OE "UnicodeEncodeError"
  | Some f => OL [OB f; ores ostr (parse_file_id f)]
  end.

Definition oreg (r : res (bytes * option bytes)) : obs :=
  ores (fun p => OL [OB (fst p); oopt OB (snd p)]) r.

(* exp selects the mapping class; x is a sha (first three) and a revid (last two) *)
Definition run_revid (exp : bool) (x : bytes) : obs :=
  let prefix := if exp then PREFIX_EXP else PREFIX_V1 in
  let r := revision_id_foreign_to_bzr prefix x in
  OL [OB r;
      oerr "InvalidRevisionId" OB (revision_id_bzr_to_foreign prefix r);
      oreg (registry_bzr_to_foreign r);
      oerr "InvalidRevisionId" OB (revision_id_bzr_to_foreign prefix x);
      oreg (registry_bzr_to_foreign x)].

Definition run_refname (name : str) : obs :=
  OL [oerr "UnicodeEncodeError" OB (branch_name_to_ref name);
      match branch_name_to_ref name with
      | Some r => ores ostr (ref_to_branch_name r)
      | None => OE "UnicodeEncodeError"
      end;
      oerr "UnicodeEncodeError" OB (tag_name_to_ref name);
      match tag_name_to_ref name with
      | Some r => ores ostr (ref_to_tag_name r)
      | None => OE "UnicodeEncodeError"
      end].

Definition run_ref (ref : bytes) : obs :=
  OL [ores ostr (ref_to_branch_name ref);
      match ref_to_branch_name ref with
      | Ok n => oerr "UnicodeEncodeError" OB (branch_name_to_ref n)
      | Err e => OE e
      end;
      ores ostr (ref_to_tag_name ref);
      match ref_to_tag_name ref with
      | Ok n => oerr "UnicodeEncodeError" OB (tag_name_to_ref n)
      | Err e => OE e
      end].

Definition oback (r : res (str * option str * option bytes)) : obs :=
  ores (fun t => OL [ostr (fst (fst t)); oopt ostr (snd (fst t)); oopt OB (snd t)]) r.

(* bzr_url_to_git_url alone *)
Definition run_back (location : str) : obs := oback (bzr_url_to_git_url location).

(* git_url_to_bzr_url and the way back; [reser] = observed str(URL) for ssh:// *)
Definition run_url (reser location : str) (branch : option str) (ref : option bytes) : obs :=
  match git_url_to_bzr_url (fun _ => reser) location branch ref with
  | Err e => OE e
  | Ok u => OL [ostr u; oback (bzr_url_to_git_url u)]
  end.

(* set_parent(location) on a fresh config then _get_parent_location ([remote] is unused);
   [relv] = observed relative_url(this_url, target_url) *)
Definition run_parent (reser relv : str) (name remote : bytes) (location : str) : obs :=
  match set_parent (fun _ => relv) name location {| cfg_url := None; cfg_merge := [] |} with
  | Err e => OE e
  | Ok cfg =>
      OL [oopt ostr (cfg_url cfg);
          oopt OB (merge_get name (cfg_merge cfg));
          ores (oopt ostr) (get_parent_location (fun _ => reser) name cfg)]
  end.
