(* Model/TextMerge.v -- hand model for C19.
   breezy/merge.py : Merge3Merger._merge_contents (the three-way shortcut on (kind, sha1)),
     Merge3Merger.text_merge (sentinel start marker, startswith test, replace),
     _dump_conflicts / _conflict_file (helper files), the "text conflict" record;
   breezy/bzr/conflicts.py : TextConflict._resolve (take_this / take_other) followed by
     breezy/conflicts.py : resolve() -> Conflict.cleanup + set_conflicts.
   Environment (site-packages, not in /repo): merge3.  Its region list (merge_regions(), after
   reprocess_merge_regions() when reprocess is set) is an INPUT of the model ([iregion], index
   ranges into BASE / THIS / OTHER exactly as merge3 yields them); merge3.merge_lines' rendering
   of a region list is modelled by [merge_lines] and validated by the correspondence run.
   Lines are byte lists; a text is the concatenation of its lines. *)
From Coq Require Import NArith List Bool String Ascii.
From BV Require Import Lib.Bytes Lib.Obs.
Import ListNotations.
Open Scope N_scope.

Definition b_ (s : string) : bytes := map N_of_ascii (list_ascii_of_string s).
Definition line := bytes.

(* start_marker = b"!START OF MERGE CONFLICT!" + b"I HOPE THIS IS UNIQUE" *)
Definition START : bytes := b_ "!START OF MERGE CONFLICT!I HOPE THIS IS UNIQUE".
Definition LT7 : bytes := b_ "<<<<<<<".
Definition MID : bytes := b_ "=======".
Definition END_ : bytes := b_ ">>>>>>>".
Definition BASEM : bytes := b_ "|||||||".
Definition SP : bytes := [32].

(* ---- merge3 regions, as merge_regions() / reprocess_merge_regions() yield them ---- *)
Inductive iregion :=
| IUnchanged (s e : nat)                       (* ("unchanged", s, e): base[s:e] *)
| ISame (s e : nat)                            (* ("same", s, e): a[s:e] *)
| IA (s e : nat)                               (* ("a", s, e): a[s:e] *)
| IB (s e : nat)                               (* ("b", s, e): b[s:e] *)
| IConflict (zs ze as_ ae bs be : nat).        (* ("conflict", zs, ze, as, ae, bs, be); zs ze = 0 0
                                                  stands for None (after reprocess) *)

Definition is_conflict (r : iregion) : bool := match r with IConflict _ _ _ _ _ _ => true | _ => false end.
Definition has_conflict (rs : list iregion) : bool := existsb is_conflict rs.

(* for i in range(s, e): yield l[i] *)
Definition slice {A} (s e : nat) (l : list A) : list A := firstn (e - s) (skipn s l).

(* merge3.Merge3.merge_lines: newline from the first line of a (= THIS) *)
Definition newline_of (a : list line) : bytes :=
  match a with
  | [] => [10]
  | l :: _ => if suffixb [13; 10] l then [13; 10] else if suffixb [13] l then [13] else [10]
  end.

Section Render.
Variable sm : bytes.          (* the start marker handed to merge_lines *)
Variable show_base : bool.    (* base_marker is not None *)
Variable nl : bytes.
Variables base a b : list line.   (* Merge3(base_lines, this_lines, other_lines) *)

Definition render (r : iregion) : list line :=
  match r with
  | IUnchanged s e => slice s e base
  | ISame s e | IA s e => slice s e a
  | IB s e => slice s e b
  | IConflict zs ze as_ ae bs be =>
      (sm ++ SP ++ b_ "TREE" ++ nl)
        :: slice as_ ae a
        ++ (if show_base then (BASEM ++ SP ++ b_ "BASE-REVISION" ++ nl) :: slice zs ze base else [])
        ++ (MID ++ nl)
        :: slice bs be b
        ++ [END_ ++ SP ++ b_ "MERGE-SOURCE" ++ nl]
  end.
Definition merge_lines (rs : list iregion) : list line := flat_map render rs.
End Render.

(* ---- Merge3Merger.text_merge: iter_merge3 ---- *)
(* if line.startswith(start_marker): yield line.replace(start_marker, b"<" * 7) else: yield line *)
Definition post_line (l : line) : line :=
  if prefixb START l then replace START LT7 l else l.

Record opts := { o_reprocess : bool; o_show_base : bool }.

(* None = CantReprocessAndShowBase; otherwise (lines written to the file, retval["text_conflicts"]) *)
Definition text_merge (o : opts) (base this other : list line) (rs : list iregion)
  : option (list line * bool) :=
  if o_show_base o && o_reprocess o then None
  else
    let ls := merge_lines START (o_show_base o) (newline_of this) base this other rs in
    Some (map post_line ls, existsb (prefixb START) ls).

(* ---- the working tree as far as the property looks at it ---- *)
Record wt := {
  f_main : option bytes;          (* the file itself *)
  f_base : option bytes;          (* <name>.BASE *)
  f_this : option bytes;          (* <name>.THIS *)
  f_other : option bytes;         (* <name>.OTHER *)
  f_alike : option bytes;         (* <name>.BASE.orig: an unrelated look-alike, never touched *)
  conflicted : bool               (* TextConflict(<name>) in wt.conflicts() *)
}.

Definition text (ls : list line) : bytes := List.concat ls.
Definition wt0 (this : list line) : wt :=
  {| f_main := Some (text this); f_base := None; f_this := None; f_other := None; f_alike := None;
     conflicted := false |}.

(* _merge_contents for a file present in all three trees + text_merge + _dump_conflicts.
   contents_pair = (kind, sha1): modelled by equality of the texts. *)
Definition merge_file (o : opts) (base this other : list line) (rs : list iregion) (w : wt) : option wt :=
  let bt := text base in let tt := text this in let ot := text other in
  if bytes_eqb bt ot then Some w                         (* base_pair == other_pair: "unmodified" *)
  else if bytes_eqb tt ot then Some w                    (* _three_way: this == other -> "this" *)
  else if bytes_eqb bt tt then                           (* this == base -> "other": create_from_tree(OTHER) *)
    Some {| f_main := Some ot; f_base := f_base w; f_this := f_this w; f_other := f_other w;
            f_alike := f_alike w; conflicted := conflicted w |}
  else
    match text_merge o base this other rs with
    | None => None
    | Some (ls, true) =>                                  (* _raw_conflicts + _dump_conflicts(lines=...) *)
        Some {| f_main := Some (text ls); f_base := Some bt; f_this := Some tt; f_other := Some ot;
                f_alike := f_alike w; conflicted := true |}
    | Some (ls, false) =>
        Some {| f_main := Some (text ls); f_base := f_base w; f_this := f_this w; f_other := f_other w;
                f_alike := f_alike w; conflicted := conflicted w |}
    end.

(* ---- between merge and resolve: the user removes some helper files by hand and/or creates
   an unrelated file whose name merely starts like a helper (<name>.BASE.orig) ---- *)
Definition user_edit (rm_base rm_this rm_other : bool) (alike : option bytes) (w : wt) : wt :=
  {| f_main := f_main w;
     f_base := if rm_base then None else f_base w;
     f_this := if rm_this then None else f_this w;
     f_other := if rm_other then None else f_other w;
     f_alike := match alike with Some x => Some x | None => f_alike w end;
     conflicted := conflicted w |}.

(* ---- resolve(tree, [name], action=done|take_this|take_other) ---- *)
Inductive action := ANone | ADone | TakeThis | TakeOther.
Inductive helper := HThis | HBase | HOther.

(* osutils.delete_any(tree.abspath(fname)): None = FileNotFoundError *)
Definition delete_helper (h : helper) (w : wt) : option wt :=
  match h with
  | HThis => match f_this w with
             | Some _ => Some {| f_main := f_main w; f_base := f_base w; f_this := None; f_other := f_other w;
                                 f_alike := f_alike w; conflicted := conflicted w |}
             | None => None end
  | HBase => match f_base w with
             | Some _ => Some {| f_main := f_main w; f_base := None; f_this := f_this w; f_other := f_other w;
                                 f_alike := f_alike w; conflicted := conflicted w |}
             | None => None end
  | HOther => match f_other w with
              | Some _ => Some {| f_main := f_main w; f_base := f_base w; f_this := f_this w; f_other := None;
                                  f_alike := f_alike w; conflicted := conflicted w |}
              | None => None end
  end.

(* Conflict.cleanup: for fname in associated_filenames(): with suppress(FileNotFoundError): delete_any(fname)
   -- a missing helper is skipped, the loop goes on.  associated_filenames = .THIS .BASE .OTHER
   (bzr; the git TextConflict lists .BASE .OTHER .THIS: the result is the same) *)
Definition cleanup_step (w : wt) (h : helper) : wt :=
  match delete_helper h w with Some w' => w' | None => w end.
Definition cleanup (w : wt) : wt := fold_left cleanup_step [HThis; HBase; HOther] w.

(* set_conflicts(the rest) *)
Definition unrecord (w : wt) : wt :=
  {| f_main := f_main w; f_base := f_base w; f_this := f_this w; f_other := f_other w;
     f_alike := f_alike w; conflicted := false |}.

(* TextConflict._resolve(tt, SUFFIX): swap <name> and <name>.<SUFFIX>.
   None = the winner helper does not exist: MalformedTransform, nothing is changed *)
Definition swap_winner (act : action) (w : wt) : option wt :=
  match act with
  | TakeThis =>
      match f_this w with
      | Some m => Some {| f_main := Some m; f_base := f_base w; f_this := f_main w; f_other := f_other w;
                          f_alike := f_alike w; conflicted := conflicted w |}
      | None => None end
  | TakeOther =>
      match f_other w with
      | Some m => Some {| f_main := Some m; f_base := f_base w; f_this := f_this w; f_other := f_main w;
                          f_alike := f_alike w; conflicted := conflicted w |}
      | None => None end
  | _ => Some w                                           (* action_done: pass *)
  end.

(* breezy.conflicts.resolve: conflict.do(action); conflict.cleanup(); set_conflicts(new_conflicts).
   None = MalformedTransform raised by do(); the tree is left as it was *)
Definition resolve (act : action) (w : wt) : option wt :=
  if negb (conflicted w) then Some w                      (* nothing selected: no-op *)
  else match act with
       | ANone => Some w                                  (* resolve not called *)
       | _ => match swap_winner act w with
              | Some w1 => Some (unrecord (cleanup w1))
              | None => None
              end
       end.

(* ---- the specification side: what the file should hold ---- *)
(* the merged text with ordinary markers = merge_lines with "<<<<<<<" as start marker *)
Definition marked_lines (o : opts) (base this other : list line) (rs : list iregion) : list line :=
  merge_lines LT7 (o_show_base o) (newline_of this) base this other rs.
(* the cleanly merged text: every region is unchanged / same / a / b *)
Definition clean_region (base a b : list line) (r : iregion) : list line :=
  match r with
  | IUnchanged s e => slice s e base
  | ISame s e | IA s e => slice s e a
  | IB s e => slice s e b
  | IConflict _ _ _ _ _ _ => []
  end.
Definition clean_lines (base this other : list line) (rs : list iregion) : list line :=
  flat_map (clean_region base this other) rs.

(* the executable guard: no line of BASE, THIS or OTHER starts with the sentinel *)
Definition no_sentinel (ls : list line) : bool := forallb (fun l => negb (prefixb START l)) ls.
Definition guard (base this other : list line) : bool := no_sentinel (base ++ this ++ other).

(* ---- where the file lives (renames / moves between the three trees) ---- *)
(* BASE has the file at src/f; a tree may have moved it to dst/ and/or renamed it to g *)
Record place := { in_dst : bool; renamed : bool }.
Definition path_of (p : place) : bytes :=
  (if in_dst p then b_ "dst/" else b_ "src/") ++ (if renamed p then b_ "g" else b_ "f").

(* Merge3Merger._three_way(base, other, this) followed by picking the winner's value:
   base == other -> this;  this == other -> this;  otherwise (this == base) -> other.
   (with two possible values per comparator there is no "conflict" outcome) *)
Definition three_way_pick (b o t : bool) : bool :=
  if Bool.eqb b o then t else if Bool.eqb t o then t else o.

(* Merge3Merger._merge_names: parent directory and name are resolved separately *)
Definition final_place (pb po pt : place) : place :=
  {| in_dst := three_way_pick (in_dst pb) (in_dst po) (in_dst pt);
     renamed := three_way_pick (renamed pb) (renamed po) (renamed pt) |}.

(* Merger.make_merger: kwargs["cherrypick"] = not base_is_ancestor or not base_is_other_ancestor
   (the flag merge3 is run with; the harness computes the region list with it) *)
Definition cherrypick_flag (base_is_ancestor base_is_other_ancestor : bool) : bool :=
  negb base_is_ancestor || negb base_is_other_ancestor.

(* the tree state together with the path everything hangs on: text_merge dumps the helpers under
   tt.final_parent / tt.final_name, cook_conflicts records the conflict at the final path, so the
   file, its helpers (<path>.BASE ...) and the conflict record all sit at [p_at] *)
Record placed := { p_wt : wt; p_at : place }.

Definition merge_placed (o : opts) (pb po pt : place) (base this other : list line) (rs : list iregion)
  : option placed :=
  match merge_file o base this other rs (wt0 this) with
  | Some w => Some {| p_wt := w; p_at := final_place pb po pt |}
  | None => None                                     (* the transform is never applied *)
  end.

(* ---- observations ---- *)
Definition obs_wt (w : wt) : obs :=
  OL [oopt OB (f_main w); oopt OB (f_base w); oopt OB (f_this w); oopt OB (f_other w); oopt OB (f_alike w);
      obool (conflicted w)].
(* path of the file; file, <path>.BASE/.THIS/.OTHER, <path>.BASE.orig; the conflict record; the path
   of the recorded conflict; helper-like files anywhere else in the tree (never any) *)
Definition obs_placed (w : wt) (p : place) : obs :=
  OL [OB (path_of p); obs_wt w; (if conflicted w then OB (path_of p) else ON); OL []].

(* merge; the user removes helpers / adds a look-alike; resolve *)
Definition run_case (o : opts) (pb po pt : place) (base this other : list line) (rs : list iregion)
           (rm_base rm_this rm_other : bool) (alike : option bytes) (act : action) : obs :=
  match merge_placed o pb po pt base this other rs with
  | None => OL [OE "CantReprocessAndShowBase"; obs_placed (wt0 this) pt]
  | Some pl =>
      let w := p_wt pl in let p := p_at pl in
      let w1 := user_edit rm_base rm_this rm_other alike w in
      OL [obs_placed w p;
          match resolve act w1 with
          | Some w' => obs_placed w' p
          | None => OL [OE "MalformedTransform"; obs_placed w1 p]
          end]
  end.

(* merge3.merge_lines itself (environment model), for the rendering-only correspondence cases *)
Definition run_render (sm : bytes) (show_base : bool) (base this other : list line) (rs : list iregion) : obs :=
  olist OB (merge_lines sm show_base (newline_of this) base this other rs).
