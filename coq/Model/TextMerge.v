(* Model/TextMerge.v -- hand model for C19.
   breezy/merge.py : Merge3Merger._merge_contents (the three-way shortcut on (kind, sha1)),
     Merge3Merger.text_merge (sentinel start marker, startswith test, replace),
     _dump_conflicts / _conflict_file (helper files), the "text conflict" record;
   breezy/bzr/conflicts.py : TextConflict._resolve (take_this / take_other) followed by
     breezy/conflicts.py : resolve() -> Conflict.cleanup + set_conflicts.
   Environment (site-packages, not in /repo): merge3.  Its region list (merge_regions(), after
   reprocess_merge_regions() when reprocess is set) is an INPUT of the model ([iregion], index
   ranges into BASE / THIS / OTHER exactly as merge3 yields them); merge3.merge_lines' rendering
   of a region list is modelled by [merge_lines] and validated by the correspondence run.
   Lines are byte lists; a text is the concatenation of its lines. *)
From Coq Require Import NArith List Bool String Ascii.
From BV Require Import Lib.Bytes Lib.Obs.
Import ListNotations.
Open Scope N_scope.

Definition b_ (s : string) : bytes := map N_of_ascii (list_ascii_of_string s).
Definition line := bytes.

(* start_marker = b"!START OF MERGE CONFLICT!" + b"I HOPE THIS IS UNIQUE" *)
Definition START : bytes := b_ "!START OF MERGE CONFLICT!I HOPE THIS IS UNIQUE".
Definition LT7 : bytes := b_ "<<<<<<<".
Definition MID : bytes := b_ "=======".
Definition END_ : bytes := b_ ">>>>>>>".
Definition BASEM : bytes := b_ "|||||||".
Definition SP : bytes := [32].

(* ---- merge3 regions, as merge_regions() / reprocess_merge_regions() yield them ---- *)
Inductive iregion :=
| IUnchanged (s e : nat)                       (* ("unchanged", s, e): base[s:e] *)
| ISame (s e : nat)                            (* ("same", s, e): a[s:e] *)
| IA (s e : nat)                               (* ("a", s, e): a[s:e] *)
| IB (s e : nat)                               (* ("b", s, e): b[s:e] *)
| IConflict (zs ze as_ ae bs be : nat).        (* ("conflict", zs, ze, as, ae, bs, be); zs ze = 0 0
                                                  stands for None (after reprocess) *)

Definition is_conflict (r : iregion) : bool := match r with IConflict _ _ _ _ _ _ => true | _ => false end.
Definition has_conflict (rs : list iregion) : bool := existsb is_conflict rs.

(* for i in range(s, e): yield l[i] *)
Definition slice {A} (s e : nat) (l : list A) : list A := firstn (e - s) (skipn s l).

(* merge3.Merge3.merge_lines: newline from the first line of a (= THIS) *)
Definition newline_of (a : list line) : bytes :=
  match a with
  | [] => [10]
  | l :: _ => if suffixb [13; 10] l then [13; 10] else if suffixb [13] l then [13] else [10]
  end.

Section Render.
Variable sm : bytes.          (* the start marker handed to merge_lines *)
Variable show_base : bool.    (* base_marker is not None *)
Variable nl : bytes.
Variables base a b : list line.   (* Merge3(base_lines, this_lines, other_lines) *)

Definition render (r : iregion) : list line :=
  match r with
  | IUnchanged s e => slice s e base
  | ISame s e | IA s e => slice s e a
  | IB s e => slice s e b
  | IConflict zs ze as_ ae bs be =>
      (sm ++ SP ++ b_ "TREE" ++ nl)
        :: slice as_ ae a
        ++ (if show_base then (BASEM ++ SP ++ b_ "BASE-REVISION" ++ nl) :: slice zs ze base else [])
        ++ (MID ++ nl)
        :: slice bs be b
        ++ [END_ ++ SP ++ b_ "MERGE-SOURCE" ++ nl]
  end.
Definition merge_lines (rs : list iregion) : list line := flat_map render rs.
End Render.

(* ---- Merge3Merger.text_merge: iter_merge3 ---- *)
(* if line.startswith(start_marker): yield line.replace(start_marker, b"<" * 7) else: yield line *)
Definition post_line (l : line) : line :=
  if prefixb START l then replace START LT7 l else l.

Record opts := { o_reprocess : bool; o_show_base : bool }.

(* None = CantReprocessAndShowBase; otherwise (lines written to the file, retval["text_conflicts"]) *)
Definition text_merge (o : opts) (base this other : list line) (rs : list iregion)
  : option (list line * bool) :=
  if o_show_base o && o_reprocess o then None
  else
    let ls := merge_lines START (o_show_base o) (newline_of this) base this other rs in
    Some (map post_line ls, existsb (prefixb START) ls).

(* ---- the working tree as far as the property looks at it ---- *)
Record wt := {
  f_main : option bytes;          (* the file itself *)
  f_base : option bytes;          (* <name>.BASE *)
  f_this : option bytes;          (* <name>.THIS *)
  f_other : option bytes;         (* <name>.OTHER *)
  conflicted : bool               (* TextConflict(<name>) in wt.conflicts() *)
}.

Definition text (ls : list line) : bytes := List.concat ls.
Definition wt0 (this : list line) : wt :=
  {| f_main := Some (text this); f_base := None; f_this := None; f_other := None; conflicted := false |}.

(* _merge_contents for a file present in all three trees + text_merge + _dump_conflicts.
   contents_pair = (kind, sha1): modelled by equality of the texts. *)
Definition merge_file (o : opts) (base this other : list line) (rs : list iregion) (w : wt) : option wt :=
  let bt := text base in let tt := text this in let ot := text other in
  if bytes_eqb bt ot then Some w                         (* base_pair == other_pair: "unmodified" *)
  else if bytes_eqb tt ot then Some w                    (* _three_way: this == other -> "this" *)
  else if bytes_eqb bt tt then                           (* this == base -> "other": create_from_tree(OTHER) *)
    Some {| f_main := Some ot; f_base := f_base w; f_this := f_this w; f_other := f_other w;
            conflicted := conflicted w |}
  else
    match text_merge o base this other rs with
    | None => None
    | Some (ls, true) =>                                  (* _raw_conflicts + _dump_conflicts(lines=...) *)
        Some {| f_main := Some (text ls); f_base := Some bt; f_this := Some tt; f_other := Some ot;
                conflicted := true |}
    | Some (ls, false) =>
        Some {| f_main := Some (text ls); f_base := f_base w; f_this := f_this w; f_other := f_other w;
                conflicted := conflicted w |}
    end.

(* ---- resolve(tree, [name], action=take_this|take_other) ---- *)
Inductive action := ANone | TakeThis | TakeOther.

(* TextConflict._resolve swaps <name> and <name>.<SUFFIX>; cleanup() deletes .THIS .BASE .OTHER;
   set_conflicts(the rest).  None = the winner helper is missing (the real code fails; not exercised) *)
Definition resolve (act : action) (w : wt) : option wt :=
  if negb (conflicted w) then Some w                      (* nothing selected: no-op *)
  else
    let done m := Some {| f_main := Some m; f_base := None; f_this := None; f_other := None;
                          conflicted := false |} in
    match act with
    | ANone => Some w
    | TakeThis => match f_this w with Some m => done m | None => None end
    | TakeOther => match f_other w with Some m => done m | None => None end
    end.

(* ---- the specification side: what the file should hold ---- *)
(* the merged text with ordinary markers = merge_lines with "<<<<<<<" as start marker *)
Definition marked_lines (o : opts) (base this other : list line) (rs : list iregion) : list line :=
  merge_lines LT7 (o_show_base o) (newline_of this) base this other rs.
(* the cleanly merged text: every region is unchanged / same / a / b *)
Definition clean_region (base a b : list line) (r : iregion) : list line :=
  match r with
  | IUnchanged s e => slice s e base
  | ISame s e | IA s e => slice s e a
  | IB s e => slice s e b
  | IConflict _ _ _ _ _ _ => []
  end.
Definition clean_lines (base this other : list line) (rs : list iregion) : list line :=
  flat_map (clean_region base this other) rs.

(* the executable guard: no line of BASE, THIS or OTHER starts with the sentinel *)
Definition no_sentinel (ls : list line) : bool := forallb (fun l => negb (prefixb START l)) ls.
Definition guard (base this other : list line) : bool := no_sentinel (base ++ this ++ other).

(* ---- observations ---- *)
Definition obs_wt (w : wt) : obs :=
  OL [oopt OB (f_main w); oopt OB (f_base w); oopt OB (f_this w); oopt OB (f_other w); obool (conflicted w)].

Definition run_case (o : opts) (base this other : list line) (rs : list iregion) (act : action) : obs :=
  match merge_file o base this other rs (wt0 this) with
  | None => OL [OE "CantReprocessAndShowBase"; obs_wt (wt0 this)]
  | Some w => OL [obs_wt w; match resolve act w with Some w' => obs_wt w' | None => OE "resolve" end]
  end.

(* merge3.merge_lines itself (environment model), for the rendering-only correspondence cases *)
Definition run_render (sm : bytes) (show_base : bool) (base this other : list line) (rs : list iregion) : obs :=
  olist OB (merge_lines sm show_base (newline_of this) base this other rs).
