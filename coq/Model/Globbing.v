(* Model/Globbing.v -- hand model of breezy/globbing.py (tie H, textual).

   What is modelled, and from where:
   - [normalize_pattern]  bzrformats globbing.normalize_pattern (environment; validated by the run)
   - [tokF], [tokB]       the Replacer programs _sub_fullpath / _sub_basename read as scanners:
                          at every position the FIRST rule (in the order they were add()ed) that
                          matches wins, text between matches is copied.  The scan yields glob tokens.
   - [scan_group]         the "char group" rule  \[\^?\]?(?:[^\]\[]|\[:[^\]]+:\])+\]  (with the
                          regex engine's backtracking made explicit) followed by _sub_group
   - [re_of_tok], [translate], [print]   what the rules emit; [print (translate k toks)] must be
                          TEXTUALLY the string the real _sub_* returns (checked by the run)
   - [M]                  denotational semantics of the regex AST (relation between the input
                          suffix before and after the match; '.' excludes \n except inside (?s:...),
                          \Z matches only at the very end)
   - [run]                executable backtracking matcher (all continuations, in priority order)
   - [gm], [glob_match]   REFERENCE semantics of glob patterns, written from `brz help patterns`
   - [identify], [chunk], [batches], [globster], [exc_match], [ordered_globster]
                          Globster.identify / _add_patterns / __init__ / match,
                          ExceptionGlobster, _OrderedGlobster; parameterised by the batch size k
                          (99 in the code) and by the regex engine.
   Characters are code points (N); strings are [list N].
   No Coq semantics is given to RE: patterns and to patterns containing "[:" (POSIX named
   classes): [opaque] is true for them. *)
From Coq Require Import String.
From Coq Require Import NArith List Bool Arith Relations.
From BV Require Import Lib.Obs.
Import ListNotations.
Open Scope N_scope.

Definition str := list N.

Definition cNL := 10.  Definition cBang := 33. Definition cStar := 42. Definition cDash := 45.
Definition cDot := 46. Definition cSlash := 47. Definition cColon := 58. Definition cQuest := 63.
Definition cLB := 91.  Definition cBs := 92.   Definition cRB := 93.   Definition cCaret := 94.

Fixpoint str_eqb (a b : str) : bool :=
  match a, b with
  | [], [] => true
  | x :: a', y :: b' => (x =? y) && str_eqb a' b'
  | _, _ => false
  end.

Fixpoint startswith (p s : str) : bool :=
  match p, s with
  | [], _ => true
  | x :: p', y :: s' => (x =? y) && startswith p' s'
  | _ :: _, [] => false
  end.

Fixpoint contains (p s : str) : bool :=
  startswith p s || match s with [] => false | _ :: s' => contains p s' end.

Definition mem (c : N) (s : str) : bool := existsb (N.eqb c) s.

(* ------------------------------------------------------------------ *)
(* normalize_pattern (bzrformats; environment):
     if not (p.startswith('RE:') or p.startswith('!RE:')): p = re.sub(r'[\\/]+', '/', p)
     if len(p) > 1: p = p.rstrip('/')                                                     *)

Definition is_sl (c : N) : bool := (c =? cSlash) || (c =? cBs).

Fixpoint collapse (prev_sl : bool) (s : str) : str :=
  match s with
  | [] => []
  | c :: r => if is_sl c then (if prev_sl then collapse true r else cSlash :: collapse true r)
              else c :: collapse false r
  end.

Fixpoint rstrip_slash_rev (r : str) : str :=
  match r with c :: r' => if c =? cSlash then rstrip_slash_rev r' else r | [] => [] end.
Definition rstrip_slash (s : str) : str := rev (rstrip_slash_rev (rev s)).

Definition sRE : str := [82; 69; 58].          (* "RE:" *)
Definition sBangRE : str := [33; 82; 69; 58].  (* "!RE:" *)

Definition normalize_pattern (p : str) : str :=
  let p1 := if startswith sRE p || startswith sBangRE p then p else collapse false p in
  match p1 with
  | _ :: _ :: _ => rstrip_slash p1
  | _ => p1
  end.

(* ------------------------------------------------------------------ *)
(* glob tokens *)

Inductive tok :=
| TLit (c : N)                     (* a character standing for itself *)
| TEsc (c : N)                     (* backslash c, kept as such by the rule  \\. -> \& *)
| TStar                            (* a run of '*' *)
| TQuest                           (* '?' *)
| TDirs                            (* a run of >= 2 '*' followed by '/', at the start or after '/' *)
| TClass (neg : bool) (body : str) (* [body] / [!body] / [^body] *).

(* "[(){}|^$+.]" : escaped by the rule  [(){}|^$+.] -> \\& *)
Definition special (c : N) : bool :=
  (c =? 40) || (c =? 41) || (c =? 123) || (c =? 125) || (c =? 124) || (c =? 94) || (c =? 36)
  || (c =? 43) || (c =? 46).

(* the longest run of non-bracket characters, if it is non-empty and followed by ']';
   result: the run and the number of characters consumed including the ']' *)
Fixpoint run_close (s : str) : option (str * nat) :=
  match s with
  | [] => None
  | c :: r =>
      if c =? cRB then None
      else if c =? cLB then None
      else match r with
           | d :: _ =>
               if d =? cRB then Some ([c], 2%nat)
               else match run_close r with
                    | Some (b, n) => Some (c :: b, S n)
                    | None => None
                    end
           | [] => None
           end
  end.

(* The char-group rule applied to the text after '[' (no "[:" in the pattern), followed by
   _sub_group.  The regex is  \[ \^? \]? body+ \]  ; the engine tries, in this order,
   (a) '^' and ']' taken, (b) '^' taken, (c) ']' taken, (d) neither.  _sub_group then looks at
   the character after '[' : '!' or '^' => negated, body = m[2:-1]; else body = m[1:-1].
   Result: (negated, body, number of characters consumed after the '['). *)
Definition scan_group (s : str) : option (bool * str * nat) :=
  let try_d :=
    match run_close s with
    | Some (c :: r', n) => if (c =? cBang) || (c =? cCaret) then Some (true, r', n) else Some (false, c :: r', n)
    | _ => None
    end in
  match s with
  | 94 :: 93 :: s2 =>
      match run_close s2 with
      | Some (r, n) => Some (true, cRB :: r, S (S n))
      | None => try_d
      end
  | 94 :: s1 =>
      match run_close s1 with
      | Some (r, n) => Some (true, r, S n)
      | None => try_d
      end
  | 93 :: s1 =>
      match run_close s1 with
      | Some (r, n) => Some (false, cRB :: r, S n)
      | None => try_d
      end
  | _ => try_d
  end.

(* number of leading '*' *)
Fixpoint count_stars (s : str) : nat :=
  match s with c :: r => if c =? cStar then S (count_stars r) else O | [] => O end.

(* length of the longest prefix matching (?:\.?/)+  (0 if none) *)
Fixpoint canon_len (s : str) : nat :=
  match s with
  | 46 :: 47 :: r => S (S (canon_len r))
  | 47 :: r => S (canon_len r)
  | _ => O
  end.

(* _sub_basename as a scanner.  [skip] = characters still belonging to the previous match. *)
Fixpoint tokB (skip : nat) (s : str) : list tok :=
  match s with
  | [] => []
  | c :: r =>
      match skip with
      | S n => tokB n r
      | O =>
          if c =? cLB then
            match scan_group r with
            | Some (neg, body, n) => TClass neg body :: tokB n r       (* char group *)
            | None => TLit c :: tokB O r                               (* '[' copied *)
            end
          else if c =? cBs then
            match r with
            | d :: _ => if d =? cNL then TLit c :: tokB O r else TEsc d :: tokB 1 r   (* \\. *)
            | [] => [TLit c]
            end
          else if special c then TLit c :: tokB O r                    (* escaped special *)
          else if c =? cStar then TStar :: tokB (count_stars r) r      (* \*+ *)
          else if c =? cQuest then TQuest :: tokB O r                  (* \? *)
          else TLit c :: tokB O r
      end
  end.

(* _sub_fullpath as a scanner (the RE: rule is handled by [opaque]).  [prev] = the previous
   character of the ORIGINAL text (for the lookbehind (?<=/) and ^). *)
Fixpoint tokF (prev : option N) (skip : nat) (s : str) : list tok :=
  match s with
  | [] => []
  | c :: r =>
      match skip with
      | S n => tokF (Some c) n r
      | O =>
          let boundary := match prev with None => true | Some p => p =? cSlash end in
          if c =? cLB then
            match scan_group r with
            | Some (neg, body, n) => TClass neg body :: tokF (Some c) n r
            | None => TLit c :: tokF (Some c) O r
            end
          else if boundary && negb (Nat.eqb (canon_len s) 0) then
            tokF (Some c) (pred (canon_len s)) r                       (* canonicalize path: dropped *)
          else if c =? cBs then
            match r with
            | d :: _ => if d =? cNL then TLit c :: tokF (Some c) O r else TEsc d :: tokF (Some c) 1 r
            | [] => [TLit c]
            end
          else if special c then TLit c :: tokF (Some c) O r
          else if c =? cStar then
            let n := count_stars r in
            if boundary && negb (Nat.eqb n 0) && startswith [cSlash] (skipn n r)
            then TDirs :: tokF (Some c) (S n) r                        (* **/ after ^ or / *)
            else TStar :: tokF (Some c) n r                            (* * elsewhere *)
          else if c =? cQuest then TQuest :: tokF (Some c) O r
          else TLit c :: tokF (Some c) O r
      end
  end.

Inductive kind := KExt | KBase | KFull.

Definition kind_eqb (a b : kind) : bool :=
  match a, b with KExt, KExt | KBase, KBase | KFull, KFull => true | _, _ => false end.

(* Globster.identify *)
Definition identify (p : str) : kind :=
  if startswith sRE p || mem cSlash p then KFull
  else if startswith [cStar; cDot] p then KExt
  else KBase.

(* pattern_info[k]["translator"] up to the token level; _sub_extension drops pattern[:2] *)
Definition tokenize (k : kind) (p : str) : list tok :=
  match k with
  | KFull => tokF None 0 p
  | KBase => tokB 0 p
  | KExt => tokB 0 (skipn 2 p)
  end.

(* patterns without Coq semantics *)
Definition opaque (p : str) : bool :=
  startswith sRE p || startswith sBangRE p || contains [cLB; cColon] p.

(* ------------------------------------------------------------------ *)
(* regex AST, printing, semantics *)

Inductive re :=
| REps
| RChr (esc : bool) (c : N)        (* c  or  \c *)
| RAny                             (* .  (not \n, unless inside (?s:...)) *)
| RSet (neg : bool) (body : str)   (* [body] / [^body] *)
| RCat (a b : re)
| RStar (a : re)                   (* a*  (a atomic) *)
| ROpt (a : re)                    (* a?  (a a group) *)
| RNLook (a : re)                  (* (?!a) *)
| RGrp (a : re)                    (* (?:a) *)
| RS (a : re)                      (* (?s:a)  : '.' matches every character inside *)
| REol.                            (* \Z *)

Fixpoint print (r : re) : str :=
  match r with
  | REps => []
  | RChr false c => [c]
  | RChr true c => [cBs; c]
  | RAny => [cDot]
  | RSet neg body => cLB :: (if neg then [cCaret] else []) ++ body ++ [cRB]
  | RCat a b => print a ++ print b
  | RStar a => print a ++ [cStar]
  | ROpt a => print a ++ [63]
  | RNLook a => [40; 63; 33] ++ print a ++ [41]
  | RGrp a => [40; 63; 58] ++ print a ++ [41]
  | RS a => [40; 63; 115; 58] ++ print a ++ [41]
  | REol => [92; 90]
  end.

(* Python's parse of the inside of a character set (no backslash, no '[' inside):
   items are single characters or ranges lo-hi; a ']' can only be the first character;
   "x-" at the very end is the two literals x and '-';  hi < lo is "bad character range". *)
Fixpoint class_items (s : str) : option (list (N * N)) :=
  match s with
  | [] => Some []
  | c :: rest =>
      match rest with
      | 45 :: d :: rest' =>
          if d <? c then None
          else match class_items rest' with Some l => Some ((c, d) :: l) | None => None end
      | _ => match class_items rest with Some l => Some ((c, c) :: l) | None => None end
      end
  end.

Definition in_items (c : N) (l : list (N * N)) : bool :=
  existsb (fun p => (fst p <=? c) && (c <=? snd p)) l.

Definition set_mem (neg : bool) (body : str) (c : N) : bool :=
  match class_items body with
  | Some l => xorb neg (in_items c l)
  | None => false
  end.

(* M r s w w' : starting at input suffix w, r can match leaving suffix w';
   s = "inside a (?s:...) group" (DOTALL) *)
Fixpoint M (r : re) (s : bool) (w w' : str) {struct r} : Prop :=
  match r with
  | REps => w' = w
  | RChr _ c => w = c :: w'
  | RAny => exists c, w = c :: w' /\ (s || negb (c =? cNL)) = true
  | RSet neg body => exists c, w = c :: w' /\ set_mem neg body c = true
  | RCat a b => exists w1, M a s w w1 /\ M b s w1 w'
  | RStar a => clos_refl_trans_1n str (M a s) w w'
  | ROpt a => M a s w w' \/ w' = w
  | RNLook a => w' = w /\ ~ (exists w2, M a s w w2)
  | RGrp a => M a s w w'
  | RS a => M a true w w'
  | REol => w' = w /\ w = []
  end.

(* '\Z' : only at the very end *)
Definition eol_ok (w : str) : bool :=
  match w with [] => true | _ :: _ => false end.

(* the executable matcher: every possible remaining suffix, in the order a backtracking
   engine explores them (greedy star, optional tried first) *)
Fixpoint star_run (f : str -> list str) (fuel : nat) (w : str) : list str :=
  match fuel with
  | O => [w]
  | S n => flat_map (fun w1 => if Nat.ltb (length w1) (length w) then star_run f n w1 else []) (f w)
           ++ [w]
  end.

Fixpoint run (r : re) (s : bool) (w : str) {struct r} : list str :=
  match r with
  | REps => [w]
  | RChr _ c => match w with x :: w' => if x =? c then [w'] else [] | [] => [] end
  | RAny => match w with x :: w' => if s || negb (x =? cNL) then [w'] else [] | [] => [] end
  | RSet neg body => match w with x :: w' => if set_mem neg body x then [w'] else [] | [] => [] end
  | RCat a b => flat_map (run b s) (run a s w)
  | RStar a => star_run (run a s) (length w) w
  | ROpt a => run a s w ++ [w]
  | RNLook a => match run a s w with [] => [w] | _ :: _ => [] end
  | RGrp a => run a s w
  | RS a => run a true w
  | REol => if eol_ok w then [w] else []
  end.

(* what the rules emit for one token *)
Definition re_of_tok (k : kind) (t : tok) : re :=
  match t with
  | TLit c => RChr (special c) c
  | TEsc c => RChr true c
  | TStar => match k with KFull => RStar (RSet true [cSlash]) | _ => RS (RStar RAny) end
  | TQuest => match k with KFull => RSet true [cSlash] | _ => RS RAny end
  | TDirs => ROpt (RS (RCat (RStar RAny) (RChr false cSlash)))
  | TClass neg body => RSet neg body
  end.

Fixpoint translate (k : kind) (toks : list tok) : re :=
  match toks with
  | [] => REps
  | t :: ts => RCat (re_of_tok k t) (translate k ts)
  end.

(* pattern_info[k]["prefix"] *)
Definition dirs_re : re := RCat (RStar RAny) (RChr false cSlash).      (* .*/ *)
Definition prefix_re (k : kind) : re :=
  match k with
  | KExt => RS (RCat (ROpt (RGrp dirs_re)) (RCat (RNLook dirs_re) (RGrp (RCat (RStar RAny) (RChr true cDot)))))
  | KBase => RS (RCat (ROpt (RGrp dirs_re)) (RNLook dirs_re))
  | KFull => REps
  end.

(* the translator of a kind applied to a (normalized) pattern *)
Definition compile (k : kind) (p : str) : re := translate k (tokenize k p).

(* f"{prefix}(?:{'|'.join(f'({translator(pat)})' for pat in patterns)})$" *)
Fixpoint join_bar (l : list str) : str :=
  match l with
  | [] => []
  | [x] => x
  | x :: r => x ++ [124] ++ join_bar r
  end.
Definition joined_rule (k : kind) (pats : list str) : str :=
  print (prefix_re k) ++ [40; 63; 58]
  ++ join_bar (map (fun p => [40] ++ print (compile k p) ++ [41]) pats) ++ [41; 92; 90].

(* ------------------------------------------------------------------ *)
(* well-formed tokens: those whose printed form Python's re parses back to [re_of_tok].
   Everything the scanners produce from a pattern without backslash is well formed except:
   a '[' that opens no group (invalid regex), a group whose body is empty after the negation
   mark ("[!]", "[^]") and a group with a descending range ("[z-a]"). *)

Definition alnum (c : N) : bool :=
  ((48 <=? c) && (c <=? 57)) || ((65 <=? c) && (c <=? 90)) || ((97 <=? c) && (c <=? 122)).

Definition plain_body_char (c : N) : bool := negb ((c =? cLB) || (c =? cBs) || (c =? cRB)).

Definition wf_tok (k : kind) (t : tok) : bool :=
  match t with
  | TLit c => negb ((c =? cStar) || (c =? cQuest) || (c =? cLB) || (c =? cBs))
  | TEsc c => negb (alnum c)
  | TStar | TQuest => true
  | TDirs => kind_eqb k KFull
  | TClass neg body =>
      match body with
      | [] => false
      | c :: r =>
          negb ((c =? cLB) || (c =? cBs)) && (neg || negb (c =? cCaret))
          && forallb plain_body_char r
          && match class_items body with Some _ => true | None => false end
      end
  end.

Definition wf_pat (p : str) : bool :=
  negb (opaque p) && forallb (wf_tok (identify p)) (tokenize (identify p) p).

(* ------------------------------------------------------------------ *)
(* REFERENCE semantics, from `brz help patterns`:
     ?      matches any single character except '/'
     *      matches 0 or more characters except '/'
     /**/   matches 0 or more directories in a path     (token TDirs: nothing, or anything
                                                          up to and including a '/')
     [a-z]  matches a single character from within a group of characters ([!..]/[^..] negate)
   "If the pattern contains a slash [...] it is compared to the whole path from the branch
    root.  Otherwise, it is compared to only the last component of the path."             *)

Fixpoint star_of (g : str -> bool) (s : str) : bool :=
  g s || match s with x :: s' => negb (x =? cSlash) && star_of g s' | [] => false end.

Fixpoint dirs_of (g : str -> bool) (s : str) : bool :=
  match s with x :: s' => ((x =? cSlash) && g s') || dirs_of g s' | [] => false end.

Fixpoint gm (toks : list tok) (s : str) {struct toks} : bool :=
  match toks with
  | [] => match s with [] => true | _ :: _ => false end
  | TLit c :: t => match s with x :: s' => (x =? c) && gm t s' | [] => false end
  | TEsc c :: t => match s with x :: s' => (x =? c) && gm t s' | [] => false end
  | TQuest :: t => match s with x :: s' => negb (x =? cSlash) && gm t s' | [] => false end
  | TClass neg body :: t => match s with x :: s' => set_mem neg body x && gm t s' | [] => false end
  | TStar :: t => star_of (gm t) s                 (* some slash-free prefix, then the rest *)
  | TDirs :: t => gm t s || dirs_of (gm t) s       (* nothing, or anything up to and including a '/' *)
  end.

(* last component of a path *)
Fixpoint basename (s : str) : str :=
  match s with
  | [] => []
  | c :: r => if mem cSlash r then basename r else if c =? cSlash then r else s
  end.

Definition glob_match (p : str) (name : str) : bool :=
  if mem cSlash p then gm (tokenize KFull p) name
  else gm (tokenize KBase p) (basename name).

(* ------------------------------------------------------------------ *)
(* the regex engine on  prefix(?:(A1)|...|(An))$  : Python's re explores the ways to match
   the prefix in priority order, then the alternatives left to right; match.lastindex is the
   (1-based) number of the alternative of the first complete match. *)

(* the single-pattern regex  pre(?:(a))$  matches (re.match: anchored at the start only) *)
Definition hit (pre a : re) (w : str) : Prop :=
  exists w', M (RCat pre (RCat (RGrp a) REol)) false w w'.


Fixpoint first_alt (alts : list re) (i : nat) (w1 : str) : option nat :=
  match alts with
  | [] => None
  | a :: t => if existsb eol_ok (run a false w1) then Some (S i) else first_alt t (S i) w1
  end.

Fixpoint first_some {A B} (f : A -> option B) (l : list A) : option B :=
  match l with
  | [] => None
  | x :: r => match f x with Some y => Some y | None => first_some f r end
  end.

Definition bt_lastindex (pre : re) (alts : list re) (w : str) : option nat :=
  first_some (first_alt alts 0) (run pre false w).

Definition bt_engine (k : kind) (pats : list str) (name : str) : option nat :=
  bt_lastindex (prefix_re k) (map (compile k) pats) name.

(* ------------------------------------------------------------------ *)
(* Globster / ExceptionGlobster / _OrderedGlobster *)

Section Globster.
  Variable normalize : str -> str.
  (* regex.match(name).lastindex of the joined rule built from these patterns of kind k *)
  Variable engine : kind -> list str -> str -> option nat.

  (* while patterns: ... patterns[:k] ...; patterns = patterns[k:] *)
  Fixpoint chunk (k fuel : nat) (l : list str) : list (list str) :=
    match fuel with
    | O => []
    | S f => match l with
             | [] => []
             | _ :: _ => firstn k l :: chunk k f (skipn k l)
             end
    end.

  (* Globster._add_patterns *)
  Definition add_patterns (k : nat) (kd : kind) (pats : list str) : list (kind * list str) :=
    map (pair kd) (chunk k (length pats) pats).

  (* Globster.__init__ *)
  Definition build (k : nat) (ps : list str) : list (kind * list str) :=
    let nps := map normalize ps in
    flat_map (fun kd => add_patterns k kd (filter (fun p => kind_eqb (identify p) kd) nps))
             [KExt; KBase; KFull].

  (* the body of the loop of Globster.match *)
  Definition match_batch (name : str) (b : kind * list str) : option str :=
    match engine (fst b) (snd b) name with
    | Some li => nth_error (snd b) (li - 1)
    | None => None
    end.

  Definition globster_match (bs : list (kind * list str)) (name : str) : option str :=
    first_some (match_batch name) bs.

  Definition globster (k : nat) (ps : list str) (name : str) : option str :=
    globster_match (build k ps) name.

  (* _OrderedGlobster.__init__ : one batch per pattern, in the given order *)
  Definition ordered_build (ps : list str) : list (kind * list str) :=
    map (fun p => (identify p, [p])) (map normalize ps).
  Definition ordered_globster (ps : list str) (name : str) : option str :=
    globster_match (ordered_build ps) name.

  (* ExceptionGlobster.__init__ *)
  Fixpoint split_exc (ps : list str) : list str * list str * list str :=
    match ps with
    | [] => ([], [], [])
    | p :: r =>
        let '(i0, i1, i2) := split_exc r in
        match p with
        | 33 :: 33 :: q => (i0, i1, q :: i2)
        | 33 :: q => (i0, q :: i1, i2)
        | _ => (p :: i0, i1, i2)
        end
    end.

  (* Python truthiness of the str|None returned by Globster.match *)
  Definition truthy (o : option str) : bool :=
    match o with Some (_ :: _) => true | _ => false end.

  (* ExceptionGlobster.match *)
  Definition exc_match (k : nat) (ps : list str) (name : str) : option str :=
    let '(i0, i1, i2) := split_exc ps in
    let double_neg := globster k i2 name in
    if truthy double_neg then
      match double_neg with Some p => Some ([cBang; cBang] ++ p) | None => None end
    else if truthy (globster k i1 name) then None
    else globster k i0 name.
End Globster.

(* ------------------------------------------------------------------ *)
(* correspondence entry points *)

Definition okind (k : kind) : obs :=
  OT (match k with KExt => "extension" | KBase => "basename" | KFull => "fullpath" end)%string.

(* normalize_pattern, Globster.identify and the translator text of the normalized pattern *)
Definition run_translate (p : str) : obs :=
  let n := normalize_pattern p in
  if opaque n then OL [OB n; okind (identify n); OT "opaque"%string]
  else OL [OB n; okind (identify n); OB (print (compile (identify n) n))].

(* a translator called directly on an un-normalized string *)
Definition run_sub (k : kind) (p : str) : obs :=
  if opaque p then OT "opaque"%string else OB (print (compile k p)).

Definition run_prefix (k : kind) : obs := OB (print (prefix_re k)).

Definition run_joined (k : kind) (pats : list str) : obs := OB (joined_rule k pats).

Definition ores (o : option str) : obs := oopt OB o.

(* Globster(pats).match(name) for each name, batch size 99 *)
Definition run_match (ps : list str) (names : list str) : obs :=
  if forallb wf_pat (map normalize_pattern ps)
  then OL [obool true; OL (map (fun n => ores (globster normalize_pattern bt_engine 99 ps n)) names)]
  else OL [obool false; OL []].

Definition run_ordered (ps : list str) (names : list str) : obs :=
  if forallb wf_pat (map normalize_pattern ps)
  then OL [obool true; OL (map (fun n => ores (ordered_globster normalize_pattern bt_engine ps n)) names)]
  else OL [obool false; OL []].

Definition exc_wf (ps : list str) : bool :=
  let '(i0, i1, i2) := split_exc ps in
  forallb wf_pat (map normalize_pattern (i0 ++ i1 ++ i2)).

Definition run_exc (ps : list str) (names : list str) : obs :=
  if exc_wf ps
  then OL [obool true; OL (map (fun n => ores (exc_match normalize_pattern bt_engine 99 ps n)) names)]
  else OL [obool false; OL []].

(* g = Globster([]); g._add_patterns([p], translator_k, prefix_k); g.match(name)
   (an un-normalized pattern forced into kind k: exercises the backslash rule) *)
Definition run_raw (k : kind) (p : str) (names : list str) : obs :=
  if negb (opaque p) && forallb (wf_tok k) (tokenize k p)
  then OL [obool true;
           OL (map (fun n => ores (globster_match bt_engine [(k, [p])] n)) names)]
  else OL [obool false; OL []].

(* the reference matcher itself (used to cross-check the Python copy in the harness) *)
Definition run_ref (p : str) (names : list str) : obs :=
  let n := normalize_pattern p in
  if wf_pat n then OL [obool true; OL (map (fun x => obool (glob_match n x)) names)]
  else OL [obool false; OL []].

(* breezy/ignores.py parse_ignore_file on the decoded lines (text.split("\n")):
   uline.rstrip("\r\n"); skip empty lines and comments; normalize_pattern(uline).
   The tree then builds ExceptionGlobster(set of these); only ignored-ness is observed,
   since a set has no order. *)
Fixpoint lstrip_crlf (r : str) : str :=
  match r with c :: r' => if (c =? 13) || (c =? 10) then lstrip_crlf r' else r | [] => [] end.
Definition rstrip_crlf (s : str) : str := rev (lstrip_crlf (rev s)).

Definition parse_ignore_lines (lines : list str) : list str :=
  map normalize_pattern
      (filter (fun l => match l with [] => false | c :: _ => negb (c =? 35) end)
              (map rstrip_crlf lines)).

Definition run_ignorefile (lines : list str) (names : list str) : obs :=
  let ps := parse_ignore_lines lines in
  if exc_wf ps
  then OL [obool true;
           OL (map (fun n => obool (match exc_match normalize_pattern bt_engine 99 ps n with
                                    | Some _ => true | None => false end)) names)]
  else OL [obool false; OL []].
