(* Model/RebaseCodec.v -- hand model of marshall_rebase_plan /
   unmarshall_rebase_plan of breezy/plugins/rewrite/rebase.py (the
   .bzr/checkout/rebase-plan file).  Definitions only (Theory/RebaseCodec.v).

   Revision ids are byte strings here (the file format does not care what they
   are); a replace map is a Python dict = association list in insertion order.
   The revno is a natural number ("%d" / int(); negative revnos do not occur:
   it is Branch.last_revision_info()[0]). *)
From Coq Require Import String NArith List Bool.
From BV Require Import Lib.Obs Lib.Bytes Lib.DecBytes Lib.PyDict.
Import ListNotations.
Open Scope N_scope.

Definition SP : N := 32.
Definition NL : N := 10.
Definition REBASE_PLAN_VERSION : N := 1.
(* b"# Bazaar rebase plan %d" % REBASE_PLAN_VERSION *)
Definition HEADER : bytes :=
  [35; 32; 66; 97; 122; 97; 97; 114; 32; 114; 101; 98; 97; 115; 101; 32; 112; 108; 97; 110; 32]
  ++ print_dec REBASE_PLAN_VERSION.

Definition bplan := dict bytes (bytes * list bytes).

(* b"%s %s" % (oldrev, newrev) + b"".join([b" %s" % p for p in newparents]) + b"\n" *)
Definition plan_line (e : bytes * (bytes * list bytes)) : bytes :=
  fst e ++ [SP] ++ fst (snd e) ++ concat (map (fun p => SP :: p) (snd (snd e))) ++ [NL].

(* marshall_rebase_plan(last_rev_info, replace_map) *)
Definition marshall (revno : N) (revid : bytes) (m : bplan) : bytes :=
  (HEADER ++ [NL]) ++ (print_dec revno ++ [SP] ++ revid ++ [NL]) ++ concat (map plan_line m).

Inductive cerr := UnknownFormatError | IndexError | ValueError.
Inductive cresult (A : Type) := COk (a : A) | CErr (e : cerr).
Arguments COk {A}. Arguments CErr {A}.

(* for l in lines[2:] *)
Fixpoint unmarshall_lines (ls : list bytes) (m : bplan) : cresult bplan :=
  match ls with
  | [] => COk m
  | l :: ls' =>
      match l with
      | [] => unmarshall_lines ls' m                           (* skip empty lines *)
      | _ => match split1 SP l with
             | k :: n :: ps => unmarshall_lines ls' (dict_set bytes_eqb m k (n, ps))
             | _ => CErr IndexError                            (* pts[1] *)
             end
      end
  end.

(* unmarshall_rebase_plan(text).  int() is modelled on digit strings only
   (parse_dec); the correspondence run does not feed signs/underscores/blanks. *)
Definition unmarshall (text : bytes) : cresult ((N * bytes) * bplan) :=
  match split1 NL text with
  | [] => CErr IndexError                                      (* cannot happen *)
  | l0 :: rest =>
      if negb (bytes_eqb l0 HEADER) then CErr UnknownFormatError else
      match rest with
      | [] => CErr IndexError                                  (* lines[1] *)
      | l1 :: body =>
          (* pts = lines[1].split(b" ", 1); (int(pts[0]), pts[1]) *)
          match find_byte SP l1 with
          | Some (a, b) =>
              match parse_dec a with
              | None => CErr ValueError
              | Some n => match unmarshall_lines body [] with
                          | COk m => COk ((n, b), m)
                          | CErr e => CErr e
                          end
              end
          | None => match parse_dec l1 with None => CErr ValueError | Some _ => CErr IndexError end
          end
      end
  end.

(* ---- correspondence entry points ---------------------------------------- *)

Definition ocerr (e : cerr) : obs :=
  OE (match e with
      | UnknownFormatError => "UnknownFormatError" | IndexError => "IndexError"
      | ValueError => "ValueError"
      end)%string.
Definition obentry (e : bytes * (bytes * list bytes)) : obs :=
  OL [OB (fst e); OB (fst (snd e)); olist OB (snd (snd e))].
Definition ounmarshall (r : cresult ((N * bytes) * bplan)) : obs :=
  match r with
  | COk (i, m) => OL [OL [oN (fst i); OB (snd i)]; olist obentry m]
  | CErr e => ocerr e
  end.

(* marshall, then unmarshall what was written *)
Definition run_marshall (revno : N) (revid : bytes) (m : bplan) : obs :=
  OL [OB (marshall revno revid m); ounmarshall (unmarshall (marshall revno revid m))].
Definition run_unmarshall (text : bytes) : obs := ounmarshall (unmarshall text).
