(* Model/BundleSet.v -- bundle contents as revision sets (C40, P-spec).

   breezy/bzr/bundle/serializer/v4.py   BundleWriteOperation.__init__ (revision selection:
                                        graph.find_unique_ancestors(target, [base]) minus ghosts),
                                        RevisionInstaller._install_revision (skips present revisions)
   breezy/bzr/bundle/serializer/v08.py  BundleSerializerV08.write_bundle (same selection)
   breezy/bzr/bundle/apply_bundle.py    install_bundle (skips present revisions)

   A repository is a finite map revision -> payload.  The payload (parents, inventory, file
   texts, metadata: what the testament attests) is abstract: the source repository determines
   it ([pay]).  A bundle is the list of (revision, payload) for the present revisions of
   ancestors(target) \ ancestors(base); installing adds the entries that are not present;
   fetching adds the missing present ancestors of the target.  History graphs are Lib/Dag.v. *)
From Coq Require Import List Bool Arith ZArith.
From BV Require Import Lib.Obs Lib.Dag.
Import ListNotations.

Section Bundle.
  Variable P : Type.
  Variable pay : revid -> P.

  Definition store := list (revid * P).
  Definition has (s : store) (r : revid) : bool := existsb (fun e => fst e =? r) s.
  Fixpoint lookup (s : store) (r : revid) : option P :=
    match s with
    | [] => None
    | (k, v) :: s' => if k =? r then Some v else lookup s' r
    end.

  Definition commons (base : option revid) : list revid :=
    match base with Some b => [b] | None => [] end.       (* None = null: *)

  (* the revision ids written by write_bundle *)
  Definition bundle_ids (g : dag) (base : option revid) (tgt : revid) : list revid :=
    filter (present g) (find_unique_ancestors g tgt (commons base)).
  Definition bundle (g : dag) (base : option revid) (tgt : revid) : store :=
    map (fun r => (r, pay r)) (bundle_ids g base tgt).

  (* RevisionInstaller / install_bundle: entries already present are skipped *)
  Definition install (b : store) (s : store) : store :=
    fold_left (fun acc e => if has acc (fst e) then acc else acc ++ [e]) b s.

  (* Repository.fetch(source, target): the missing present ancestors of the target *)
  Definition fetch_ids (g : dag) (s : store) (tgt : revid) : list revid :=
    filter (fun r => present g r && negb (has s r)) (ancestors g [tgt]).
  Definition fetch (g : dag) (s : store) (tgt : revid) : store :=
    install (map (fun r => (r, pay r)) (fetch_ids g s tgt)) s.

  (* the repository the receiver is assumed to have: the present ancestry of the base *)
  Definition base_closed (g : dag) (base : option revid) (s : store) : Prop :=
    forall a, In a (ancestors g (commons base)) -> present g a = true -> has s a = true.
  Definition base_closedb (g : dag) (base : option revid) (s : store) : bool :=
    forallb (fun a => negb (present g a) || has s a) (ancestors g (commons base)).
End Bundle.

Arguments has {P} s r.
Arguments lookup {P} s r.
Arguments install {P} b s.
Arguments base_closed {P} g base s.
Arguments base_closedb {P} g base s.

(* ---- observation for the correspondence run ------------------------------------------ *)
Fixpoint insert_sorted (x : nat) (l : list nat) : list nat :=
  match l with
  | [] => [x]
  | y :: l' => if x <=? y then x :: l else y :: insert_sorted x l'
  end.
Definition sort_ids (l : list nat) : list nat := fold_right insert_sorted [] l.

(* payload = the revision id itself (the run compares revision sets; payload equality is
   the oracle's testament / text comparison) *)
Definition store_of (l : list revid) : store nat := map (fun r => (r, r)) l.
Definition run_bundle (g : dag) (base : option revid) (tgt : revid) (extra : list revid) : obs :=
  let s := store_of (dedup (filter (present g) (ancestors g (commons base ++ extra)))) in
  OL [olist onat (sort_ids (bundle_ids g base tgt));
      olist onat (sort_ids (map fst (install (bundle nat (fun r => r) g base tgt) s)));
      olist onat (sort_ids (map fst (fetch nat (fun r => r) g s tgt)))].

(* the revisions a repository holds after it received everything below the seeds *)
Definition run_closure (g : dag) (seeds : list revid) : obs :=
  olist onat (sort_ids (dedup (filter (present g) (ancestors g seeds)))).
