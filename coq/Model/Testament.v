(* Model/Testament.v -- hand model of breezy/bzr/testament.py (C41).

   Strings are modelled as lists of Unicode code points ([str] = [list N]);
   the result of [as_text()] is the UTF-8 encoding of the concatenated lines
   (b"".join(l.encode("utf-8") for l in r) = "".join(r).encode("utf-8")).
   Byte-string ids (revision ids, file ids, sha1s) enter decoded (the code
   does .decode("utf-8")/.decode("ascii") before formatting them).

   Modelled functions: Testament.__init__ (the two checks), as_text_lines,
   _get_entries (include_root), _escape_path (both versions), _entry_to_line
   (Testament and StrictTestament), _revprops_to_lines, as_text.
   Environment functions modelled here and validated by the correspondence
   run: str.splitlines, sorted() on bytes / (str,str) tuples, "%d" % number,
   str.encode("utf-8"), osutils.contains_whitespace / contains_linebreaks
   (crates/osutils/src/lib.rs).  No proofs in this file. *)
From Coq Require Import ZArith NArith List Bool String Ascii DecimalString DecimalZ Decimal.
From BV Require Import Lib.Bytes Lib.Obs.
Import ListNotations.
Open Scope N_scope.

Definition str := list N.

Definition s2l (s : string) : str := map N_of_ascii (list_ascii_of_string s).

Definition SP : N := 32.
Definition LF : N := 10.
Definition BSL : N := 92.   (* backslash *)
Definition SL : N := 47.    (* slash *)

Definition str_eqb (a b : str) : bool := list_eqb N.eqb a b.
Definition is_nil {A} (l : list A) : bool := match l with [] => true | _ => false end.

(* ---- environment: Python / osutils primitives ------------------------- *)

(* osutils.contains_whitespace: any of " \t\n\r\v\f" *)
Definition is_ws (c : N) : bool :=
  (c =? 32) || (c =? 9) || (c =? 10) || (c =? 13) || (c =? 11) || (c =? 12).
Definition contains_whitespace (s : str) : bool := existsb is_ws s.
(* osutils.contains_linebreaks: any of "\n\r\f" *)
Definition is_lb (c : N) : bool := (c =? 10) || (c =? 13) || (c =? 12).
Definition contains_linebreaks (s : str) : bool := existsb is_lb s.

(* str.splitlines() boundaries: \n \r \v \f \x1c \x1d \x1e \x85
   (and \r\n counted once) *)
Definition is_break (c : N) : bool :=
  (c =? 10) || (c =? 13) || (c =? 11) || (c =? 12) || (c =? 28) || (c =? 29) ||
  (c =? 30) || (c =? 133) || (c =? 8232) || (c =? 8233).

Fixpoint splitlines (s : str) : list str :=
  match s with
  | [] => []
  | c :: s' =>
      if is_break c then
        [] :: match s' with
              | d :: s'' => if (c =? 13) && (d =? 10) then splitlines s'' else splitlines s'
              | [] => splitlines s'
              end
      else match splitlines s' with
           | [] => [[c]]
           | l :: ls => (c :: l) :: ls
           end
  end.

(* lexicographic comparison of code-point lists (Python str / bytes order;
   UTF-8 preserves code-point order) *)
Fixpoint str_leb (a b : str) : bool :=
  match a, b with
  | [], _ => true
  | _ :: _, [] => false
  | x :: a', y :: b' => if x <? y then true else if y <? x then false else str_leb a' b'
  end.
(* Python tuple comparison of (name, value) *)
Definition pair_leb (p q : str * str) : bool :=
  if str_eqb (fst p) (fst q) then str_leb (snd p) (snd q) else str_leb (fst p) (fst q).

Section Sort.
  Context {A : Type} (leb : A -> A -> bool).
  Fixpoint insert (x : A) (l : list A) : list A :=
    match l with
    | [] => [x]
    | y :: l' => if leb x y then x :: l else y :: insert x l'
    end.
  Definition sort (l : list A) : list A := fold_right insert [] l.
End Sort.

(* "%d" % z *)
Definition dec (z : Z) : str := s2l (NilEmpty.string_of_int (Z.to_int z)).

(* str.encode("utf-8") (no surrogates) *)
Definition utf8_char (c : N) : bytes :=
  if c <? 128 then [c]
  else if c <? 2048 then [192 + c / 64; 128 + c mod 64]
  else if c <? 65536 then [224 + c / 4096; 128 + (c / 64) mod 64; 128 + c mod 64]
  else [240 + c / 262144; 128 + (c / 4096) mod 64; 128 + (c / 64) mod 64; 128 + c mod 64].
Definition utf8 (s : str) : bytes := flat_map utf8_char s.

(* ---- data ------------------------------------------------------------- *)

Inductive variant := Plain | Strict | Strict3.   (* Testament, StrictTestament, StrictTestament3 *)
Inductive kind := KFile | KDir | KSymlink | KTreeRef.

Record entry := {
  e_kind : kind;
  e_path : str;
  e_file_id : str;
  e_sha1 : str;        (* ie.text_sha1; [] = None / empty *)
  e_target : str;      (* ie.symlink_target; [] = None / empty *)
  e_revision : str;    (* ie.revision *)
  e_exec : bool        (* ie.executable *)
}.

Record rev := {
  r_id : str;
  r_committer : str;
  r_ts_m : Z;           (* timestamp (a float) = r_ts_m / 2^r_ts_e *)
  r_ts_e : N;
  r_tz : option Z;      (* rev.timezone; None -> 0 *)
  r_message : str;
  r_parents : list str;
  r_props : list (str * str)   (* items of the properties dict *)
}.

(* a tree as list_files sees it: the root entry and the other entries in the
   order inv.iter_entries yields them *)
Record tree := { t_root : entry; t_rest : list entry }.

Inductive res (A : Type) := Ok (a : A) | ValueError | AssertionError.
Arguments Ok {A}. Arguments ValueError {A}. Arguments AssertionError {A}.

Definition bind {A B} (x : res A) (f : A -> res B) : res B :=
  match x with Ok a => f a | ValueError => ValueError | AssertionError => AssertionError end.

Fixpoint mapM {A B} (f : A -> res B) (l : list A) : res (list B) :=
  match l with
  | [] => Ok []
  | x :: l' => bind (f x) (fun y => bind (mapM f l') (fun ys => Ok (y :: ys)))
  end.

(* ---- the code --------------------------------------------------------- *)

Definition long_header (v : variant) : str :=
  match v with
  | Plain => s2l "bazaar-ng testament version 1"
  | Strict => s2l "bazaar-ng testament version 2.1"
  | Strict3 => s2l "bazaar testament version 3 strict"
  end.
Definition include_root (v : variant) : bool :=
  match v with Strict3 => true | _ => false end.

Definition kind_name (k : kind) : str :=
  match k with
  | KFile => s2l "file" | KDir => s2l "directory"
  | KSymlink => s2l "symlink" | KTreeRef => s2l "tree-reference"
  end.

(* int(timestamp): truncation toward zero *)
Definition ts_int (r : rev) : Z := Z.quot (r_ts_m r) (2 ^ Z.of_N (r_ts_e r)).
Definition tz_or_0 (r : rev) : Z := match r_tz r with Some z => z | None => 0%Z end.

(* Testament._escape_path / StrictTestament3._escape_path *)
Definition escape_path (v : variant) (p : str) : res str :=
  if contains_linebreaks p then ValueError else
  let p := match v with Strict3 => if is_nil p then [46] else p | _ => p end in
  Ok (replace [SP] [BSL; SP] (replace [BSL] [SL] p)).

(* Testament._entry_to_line without the final "\n" *)
Definition entry_base (v : variant) (e : entry) : res str :=
  if contains_whitespace (e_file_id e) then ValueError else
  bind (match e_kind e with
        | KFile => if is_nil (e_sha1 e) then AssertionError else Ok (SP :: e_sha1 e)
        | KSymlink => if is_nil (e_target e) then AssertionError
                      else bind (escape_path v (e_target e)) (fun t => Ok (SP :: t))
        | _ => Ok []
        end) (fun content =>
  bind (escape_path v (e_path e)) (fun p =>
  Ok (SP :: SP :: kind_name (e_kind e) ++ SP :: p ++ SP :: e_file_id e ++ content))).

(* StrictTestament._entry_to_line *)
Definition yes_no (b : bool) : str := if b then s2l " yes" else s2l " no".
Definition entry_line (v : variant) (e : entry) : res str :=
  bind (entry_base v e) (fun l =>
  match v with
  | Plain => Ok l
  | _ => Ok (l ++ SP :: e_revision e ++ yes_no (e_exec e))
  end).

Definition ind2 (s : str) : str := SP :: SP :: s.
Definition ind4 (s : str) : str := SP :: SP :: SP :: SP :: s.

Definition parent_line (p : str) : res str :=
  if contains_whitespace p then ValueError else Ok (ind2 p).

(* Testament._revprops_to_lines *)
Definition prop_lines (nv : str * str) : res (list str) :=
  if contains_whitespace (fst nv) then ValueError
  else Ok (ind2 (fst nv ++ [58]) :: map ind4 (splitlines (snd nv))).
Definition revprops_to_lines (ps : list (str * str)) : res (list str) :=
  match ps with
  | [] => Ok []
  | _ => bind (mapM prop_lines (sort pair_leb ps)) (fun ls => Ok (s2l "properties:" :: List.concat ls))
  end.

(* Testament.__init__ checks + as_text_lines (lines without their "\n") *)
Definition text_lines (v : variant) (r : rev) (es : list entry) : res (list str) :=
  if contains_whitespace (r_id r) then ValueError else
  if contains_linebreaks (r_committer r) then ValueError else
  bind (mapM parent_line (sort str_leb (r_parents r))) (fun pls =>
  bind (mapM (entry_line v) es) (fun els =>
  bind (revprops_to_lines (r_props r)) (fun rls =>
  Ok (long_header v
      :: (s2l "revision-id: " ++ r_id r)
      :: (s2l "committer: " ++ r_committer r)
      :: (s2l "timestamp: " ++ dec (ts_int r))
      :: (s2l "timezone: " ++ dec (tz_or_0 r))
      :: s2l "parents:"
      :: pls ++ s2l "message:"
      :: map ind2 (splitlines (r_message r)) ++ s2l "inventory:"
      :: els ++ rls)))).

Definition unlines (ls : list str) : str := flat_map (fun l => l ++ [LF]) ls.

(* the text as a str, and Testament.as_text() *)
Definition text_str (v : variant) (r : rev) (es : list entry) : res str :=
  bind (text_lines v r es) (fun ls => Ok (unlines ls)).
Definition testament (v : variant) (r : rev) (es : list entry) : res bytes :=
  bind (text_str v r es) (fun s => Ok (utf8 s)).

(* Testament._get_entries *)
Definition get_entries (v : variant) (t : tree) : list entry :=
  if include_root v then t_root t :: t_rest t else t_rest t.
Definition testament_of_tree (v : variant) (r : rev) (t : tree) : res bytes :=
  testament v r (get_entries v t).

(* ---- what a testament attests ---------------------------------------- *)

Definition content_view (e : entry) : str :=
  match e_kind e with KFile => e_sha1 e | KSymlink => e_target e | _ => [] end.
(* the strict variants also attest last-changed revision and executable bit *)
Definition entry_view (v : variant) (e : entry) :=
  (e_kind e, e_path e, e_file_id e, content_view e,
   match v with Plain => None | _ => Some (e_revision e, e_exec e) end).

Definition ts_eq (r1 r2 : rev) : Prop :=
  (r_ts_m r1 * 2 ^ Z.of_N (r_ts_e r2) = r_ts_m r2 * 2 ^ Z.of_N (r_ts_e r1))%Z.

(* ---- the executable guard of the injectivity theorem ------------------ *)

(* text whose only line breaks are single "\n" between lines *)
Definition canonical_text (m : str) : bool := str_eqb (join [LF] (splitlines m)) m.
Definition ts_integral (r : rev) : bool :=
  (Z.rem (r_ts_m r) (2 ^ Z.of_N (r_ts_e r)) =? 0)%Z.
Definition no_bsl (p : str) : bool := negb (memb BSL p).
Definition token (s : str) : bool := negb (memb SP s) && negb (memb LF s).
Definition path_ok (v : variant) (p : str) : bool :=
  no_bsl p && match v with Strict3 => negb (str_eqb p [46]) | _ => true end.
Definition entry_guard (v : variant) (e : entry) : bool :=
  path_ok v (e_path e)
  && match e_kind e with
     | KFile => token (e_sha1 e)
     | KSymlink => no_bsl (e_target e)
     | _ => true
     end
  && match v with Plain => true | _ => token (e_revision e) end.
Definition guard (v : variant) (r : rev) (es : list entry) : bool :=
  canonical_text (r_message r) && ts_integral r
  && forallb (fun nv => canonical_text (snd nv)) (r_props r)
  && forallb (entry_guard v) es.

(* ---- correspondence run ----------------------------------------------- *)

Definition ores (x : res bytes) : obs :=
  match x with
  | Ok b => OB b
  | ValueError => OE "ValueError"
  | AssertionError => OE "AssertionError"
  end.

Definition mk_entry (k : kind) (path fid sha1 target revision : str) (x : bool) : entry :=
  {| e_kind := k; e_path := path; e_file_id := fid; e_sha1 := sha1; e_target := target;
     e_revision := revision; e_exec := x |}.
Definition mk_rev (id committer : str) (m : Z) (e : N) (tz : option Z) (msg : str)
           (parents : list str) (props : list (str * str)) : rev :=
  {| r_id := id; r_committer := committer; r_ts_m := m; r_ts_e := e; r_tz := tz;
     r_message := msg; r_parents := parents; r_props := props |}.

(* observation: as_text() of the variant, or the exception class *)
Definition run_case (v : variant) (r : rev) (root : entry) (rest : list entry) : obs :=
  ores (testament_of_tree v r {| t_root := root; t_rest := rest |}).
(* environment primitives on their own *)
Definition run_splitlines (s : str) : obs := OL (map (fun l => OB (utf8 l)) (splitlines s)).
Definition run_guard (v : variant) (r : rev) (root : entry) (rest : list entry) : obs :=
  obool (guard v r (get_entries v {| t_root := root; t_rest := rest |})).

(* compact literals for the generated cases files: a string of hex digits, two per
   byte ([h2]) or six per code point ([h6]); parsing a string token is much cheaper
   than parsing a list of numerals *)
Definition hexval (a : ascii) : N :=
  let n := N_of_ascii a in if n <? 58 then n - 48 else n - 87.
Fixpoint h2 (s : string) : list N :=
  match s with
  | String a (String b r) => (16 * hexval a + hexval b) :: h2 r
  | _ => []
  end.
Fixpoint h6 (s : string) : list N :=
  match s with
  | String a (String b (String c (String d (String e (String f r))))) =>
      (1048576 * hexval a + 65536 * hexval b + 4096 * hexval c + 256 * hexval d + 16 * hexval e + hexval f)
        :: h6 r
  | _ => []
  end.
(* compare inside Coq; on disagreement show what the model computed *)
Definition cmp (model expected : obs) : obs :=
  if obs_eqb model expected then OT "True" else OL [OT "model"; model].
