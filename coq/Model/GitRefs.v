(* Model/GitRefs.v -- hand model of breezy/git/transportgit.py
   [TransportRefsContainer] (set_if_equals, add_if_new, remove_if_equals,
   read_loose_ref, get_packed_refs, _remove_packed_ref) and of the inherited
   dulwich [RefsContainer.read_ref] / [follow], as the code is at /repo HEAD
   (after commits f5e2d7f: old_ref is honoured, and 80b730a: _remove_packed_ref
   no longer returns early when the packed cache was never loaded).

   Shared state = what lives on the transport: the loose ref files and the
   packed-refs file.  Every [TransportRefsContainer] object additionally owns a
   cache [_packed_refs] ([None] until the first get_packed_refs(); never
   invalidated except inside _remove_packed_ref, which always re-reads).

   An operation is a program-counter machine ([tstate]).  ONE step = the
   pending MUTATING transport call (put_bytes / delete / open_write_stream)
   followed by all purely reading code up to the next mutating call; the first
   step of an operation is its whole read-only prefix (refname check, follow,
   comparison with old_ref).  This is exactly the granularity at which the
   cooperative-scheduling proxy transport of harness/props/c37.py can pause an
   updater, and it is coarser than reality (every step is a sequence of real
   transport calls), so every schedule of the model is a schedule of the code.
   Sequential execution [exec] = the steps of one operation run back to back.

   Abstractions (validated by the correspondence run, listed in META):
   ref names and SHAs are indices ([N]); index 0 of SHAs is ZERO_SHA
   (b"0"*40); a loose file holds either "<40 hex>\n" or "ref: <name>\n";
   [valid] is dulwich's _check_refname; names have no directory/file
   conflicts; worktree_transport = transport; peeled entries are ignored.
   No proofs here. *)
From Coq Require Import NArith List Bool String Arith.
From BV Require Import Lib.Obs Lib.SchedLD.
Import ListNotations.
Open Scope list_scope.

(* ---------------------------------------------------------------- data -- *)

Definition name := N.
Definition sha := N.
Definition ZERO_SHA : sha := 0%N.

(* content of a ref as read_loose_ref returns it: a SHA or SYMREF + target *)
Inductive val := VSha (s : sha) | VSym (t : name).
Definition val_eqb (a b : val) : bool :=
  match a, b with
  | VSha x, VSha y => N.eqb x y
  | VSym x, VSym y => N.eqb x y
  | _, _ => false
  end.

Record store := mkStore {
  loose : name -> option val;       (* transport.get(quote(name)) : the loose ref files *)
  packed : name -> option sha       (* the packed-refs file *)
}.

(* TransportRefsContainer._packed_refs *)
Definition pcache := option (name -> option sha).

Definition upd {A} (f : name -> A) (k : name) (v : A) : name -> A :=
  fun x => if N.eqb x k then v else f x.

Inductive result := RRet (b : bool) | RErr (e : string).

(* ------------------------------------------------------- reading code -- *)

(* get_packed_refs: "if self._packed_refs is None: ... read the file";
   returns the (possibly stale) cached dict otherwise *)
Definition get_packed (st : store) (pc : pcache) : (name -> option sha) * pcache :=
  match pc with
  | Some m => (m, pc)
  | None => (packed st, Some (packed st))
  end.

(* dulwich RefsContainer.read_ref:
     contents = self.read_loose_ref(refname)
     if not contents: contents = self.get_packed_refs().get(refname, None) *)
Definition read_ref (st : store) (pc : pcache) (n : name) : option val * pcache :=
  match loose st n with
  | Some v => (Some v, pc)
  | None => let '(m, pc') := get_packed st pc in (option_map VSha (m n), pc')
  end.

(* dulwich RefsContainer.follow; only realnames[-1] and the contents are used
   by the callers, so the model keeps the last name of the chain.
     contents = SYMREF + name; depth = 0
     while contents.startswith(SYMREF):
         refname = contents[len(SYMREF):]; refnames.append(refname)
         contents = self.read_ref(refname)
         if not contents: break
         depth += 1
         if depth > 5: raise SymrefLoop *)
Inductive fres := FOk (last : name) (c : option sha) | FLoop.

Fixpoint follow_aux (st : store) (fuel : nat) (n : name) (depth : nat) (pc : pcache)
  : fres * pcache :=
  match fuel with
  | O => (FLoop, pc)                           (* unreachable with fuel 6, see Theory *)
  | S f =>
      let '(c, pc') := read_ref st pc n in
      match c with
      | None => (FOk n None, pc')
      | Some v =>
          if Nat.ltb 5 (S depth) then (FLoop, pc')
          else match v with
               | VSym t => follow_aux st f t (S depth) pc'
               | VSha s => (FOk n (Some s), pc')
               end
      end
  end.
Definition follow (st : store) (pc : pcache) (n : name) : fres * pcache :=
  follow_aux st 6 n 0 pc.

(* "orig_ref = self.read_loose_ref(x); if orig_ref is None:
        orig_ref = self.get_packed_refs().get(x, ZERO_SHA)" *)
Definition orig_ref (st : store) (pc : pcache) (x : name) : val * pcache :=
  match loose st x with
  | Some v => (v, pc)
  | None =>
      let '(m, pc') := get_packed st pc in
      (VSha (match m x with Some s => s | None => ZERO_SHA end), pc')
  end.

(* ---------------------------------------------------- the operations -- *)

Inductive op :=
| OpSet (n : name) (old : option val) (new : sha)   (* set_if_equals(n, old, new) *)
| OpAdd (n : name) (new : sha)                      (* add_if_new(n, new) *)
| OpRemove (n : name) (old : option val).           (* remove_if_equals(n, old) *)

Inductive tstate :=
| TStart (o : op)
| TPut (rn : name) (new : sha)            (* about to transport.put_bytes(realname, new + "\n") *)
| TRmDelete (n : name)                    (* about to transport.delete(name) *)
| TRmWrite (m : name -> option sha)       (* about to open_write_stream("packed-refs") <- m *)
| TDone (r : result).

Record thread := mkThread { ts : tstate; tc : pcache }.

Section Ops.
  (* dulwich RefsContainer._check_refname: True iff it does not raise *)
  Variable valid : name -> bool.

  (* set_if_equals up to (excluding) put_bytes *)
  Definition set_check (st : store) (pc : pcache) (n : name) (old : option val) (new : sha)
    : tstate * pcache :=
    if negb (valid n) then (TDone (RErr "RefFormatError"), pc) else
    let '(fr, pc1) := follow st pc n in
    let rn := match fr with FOk l _ => l | FLoop => n end in   (* except SymrefLoop: realname = name *)
    match old with
    | None => (TPut rn new, pc1)
    | Some o =>
        let '(orig, pc2) := orig_ref st pc1 rn in
        if val_eqb orig o then (TPut rn new, pc2) else (TDone (RRet false), pc2)
    end.

  (* add_if_new up to (excluding) put_bytes; SymrefLoop is not caught there *)
  Definition add_check (st : store) (pc : pcache) (n : name) (new : sha) : tstate * pcache :=
    let '(fr, pc1) := follow st pc n in
    match fr with
    | FLoop => (TDone (RErr "SymrefLoop"), pc1)
    | FOk _ (Some _) => (TDone (RRet false), pc1)
    | FOk rn None =>
        if valid rn then (TPut rn new, pc1) else (TDone (RErr "RefFormatError"), pc1)
    end.

  (* remove_if_equals up to (excluding) transport.delete *)
  Definition remove_check (st : store) (pc : pcache) (n : name) (old : option val)
    : tstate * pcache :=
    if negb (valid n) then (TDone (RErr "RefFormatError"), pc) else
    match old with
    | None => (TRmDelete n, pc)
    | Some o =>
        let '(orig, pc1) := orig_ref st pc n in
        if val_eqb orig o then (TRmDelete n, pc1) else (TDone (RRet false), pc1)
    end.

  (* one step of one updater on the shared store *)
  Definition step1 (st : store) (t : thread) : store * thread :=
    match ts t with
    | TStart (OpSet n old new) =>
        let '(t', pc') := set_check st (tc t) n old new in (st, mkThread t' pc')
    | TStart (OpAdd n new) =>
        let '(t', pc') := add_check st (tc t) n new in (st, mkThread t' pc')
    | TStart (OpRemove n old) =>
        let '(t', pc') := remove_check st (tc t) n old in (st, mkThread t' pc')
    | TPut rn new =>
        (* transport.put_bytes(quote(realname), new_ref + b"\n"); return True *)
        (mkStore (upd (loose st) rn (Some (VSha new))) (packed st),
         mkThread (TDone (RRet true)) (tc t))
    | TRmDelete n =>
        (* with suppress(NoSuchFile): transport.delete(name); then _remove_packed_ref(name):
             self._packed_refs = None; self.get_packed_refs()        (always re-read, 80b730a)
             if name not in self._packed_refs: return
             del self._packed_refs[name]   ... then the write is the next step *)
        let st1 := mkStore (upd (loose st) n None) (packed st) in
        let m := packed st1 in
        match m n with
        | None => (st1, mkThread (TDone (RRet true)) (Some m))
        | Some _ => let m' := upd m n None in (st1, mkThread (TRmWrite m') (Some m'))
        end
    | TRmWrite m =>
        (* with open_write_stream("packed-refs") as f: write_packed_refs(f, self._packed_refs, ...) *)
        (mkStore (loose st) m, mkThread (TDone (RRet true)) (tc t))
    | TDone _ => (st, t)
    end.

  (* an operation run to completion on its own: at most three steps *)
  Definition exec (o : op) (st : store) (pc : pcache) : store * thread :=
    let '(s1, t1) := step1 st (mkThread (TStart o) pc) in
    let '(s2, t2) := step1 s1 t1 in
    step1 s2 t2.

  Definition res_of (t : thread) : option result :=
    match ts t with TDone r => Some r | _ => None end.

  (* a list of operations on ONE container object, one after the other *)
  Fixpoint exec_seq (ops : list op) (st : store) (pc : pcache)
    : list (option result * store * pcache) :=
    match ops with
    | [] => []
    | o :: ops' =>
        let '(st', t') := exec o st pc in
        (res_of t', st', tc t') :: exec_seq ops' st' (tc t')
    end.

  (* --------------------------------------------- two updaters, schedules -- *)

  (* two TransportRefsContainer objects (two processes) over one transport *)
  Record sys := mkSys { s_store : store; s_a : thread; s_b : thread }.

  Definition sys_step (p : nat) (s : sys) : sys :=
    match p with
    | 0 => let '(st', t') := step1 (s_store s) (s_a s) in mkSys st' t' (s_b s)
    | 1 => let '(st', t') := step1 (s_store s) (s_b s) in mkSys st' (s_a s) t'
    | _ => s
    end.

  Definition sys_init (st : store) (oa : op) (ca : pcache) (ob : op) (cb : pcache) : sys :=
    mkSys st (mkThread (TStart oa) ca) (mkThread (TStart ob) cb).

  Definition run_sched (sched : list nat) (s : sys) : sys := run sys_step sched s.
End Ops.

(* --------------------------------------------- the atomic CAS specification -- *)

(* what a reader sees without following: loose first, else packed *)
Definition view (st : store) (n : name) : option val :=
  match loose st n with
  | Some v => Some v
  | None => option_map VSha (packed st n)
  end.

(* the value conditional updates compare with: ZERO_SHA stands for "absent" *)
Definition cur (v : name -> option val) (n : name) : val :=
  match v n with Some x => x | None => VSha ZERO_SHA end.

(* follow on a view (no cache) *)
Fixpoint follow_pure_aux (v : name -> option val) (fuel : nat) (n : name) (depth : nat) : fres :=
  match fuel with
  | O => FLoop
  | S f =>
      match v n with
      | None => FOk n None
      | Some c =>
          if Nat.ltb 5 (S depth) then FLoop
          else match c with
               | VSym t => follow_pure_aux v f t (S depth)
               | VSha s => FOk n (Some s)
               end
      end
  end.
Definition follow_pure (v : name -> option val) (n : name) : fres := follow_pure_aux v 6 n 0.

(* the ref a conditional set of [n] acts on *)
Definition target (v : name -> option val) (n : name) : name :=
  match follow_pure v n with FOk l _ => l | FLoop => n end.

(* the property's reading of the three operations as ATOMIC actions on the view *)
Definition spec_op (valid : name -> bool) (o : op) (v : name -> option val)
  : result * (name -> option val) :=
  match o with
  | OpSet n old new =>
      if negb (valid n) then (RErr "RefFormatError", v) else
      let rn := target v n in
      let ok := match old with None => true | Some o => val_eqb (cur v rn) o end in
      if ok then (RRet true, upd v rn (Some (VSha new))) else (RRet false, v)
  | OpAdd n new =>
      match follow_pure v n with
      | FLoop => (RErr "SymrefLoop", v)
      | FOk _ (Some _) => (RRet false, v)
      | FOk rn None =>
          if valid rn then (RRet true, upd v rn (Some (VSha new))) else (RErr "RefFormatError", v)
      end
  | OpRemove n old =>
      if negb (valid n) then (RErr "RefFormatError", v) else
      let ok := match old with None => true | Some o => val_eqb (cur v n) o end in
      if ok then (RRet true, upd v n None) else (RRet false, v)
  end.

(* --------------------------------------------- correspondence interface -- *)

(* names 0..5 are valid ref names of the harness, 6 is not (b"bad/name") *)
Definition valid_h (n : name) : bool := N.ltb n 6.
Definition NAMES : list name := [0; 1; 2; 3; 4; 5; 6]%N.

Fixpoint of_alist {A} (l : list (name * A)) : name -> option A :=
  match l with
  | [] => fun _ => None
  | (k, v) :: l' => fun x => if N.eqb x k then Some v else of_alist l' x
  end.

Definition mk_store (lo : list (name * val)) (pa : list (name * sha)) : store :=
  mkStore (of_alist lo) (of_alist pa).

Definition oval (v : val) : obs :=
  match v with VSha s => oN s | VSym t => OL [OT "sym"; oN t] end.
Definition ores (r : option result) : obs :=
  match r with
  | Some (RRet b) => obool b
  | Some (RErr e) => OE e
  | None => OT "unfinished"
  end.
Definition ostore (st : store) : obs :=
  OL [OL (map (fun n => oopt oval (loose st n)) NAMES);
      OL (map (fun n => oopt oN (packed st n)) NAMES)].
Definition ocache (pc : pcache) : obs :=
  match pc with None => ON | Some m => OL (map (fun n => oopt oN (m n)) NAMES) end.

(* one container, a list of operations; [warm] = get_packed_refs() was called before *)
Definition run_seq (lo : list (name * val)) (pa : list (name * sha)) (warm : bool)
           (ops : list op) : obs :=
  let st := mk_store lo pa in
  let pc := if warm then Some (packed st) else None in
  OL (map (fun x => match x with (r, s, c) => OL [ores r; ostore s; ocache c] end)
          (exec_seq valid_h ops st pc)).

(* two containers, one operation each, a schedule of updater ids (0 / 1) *)
Definition run_conc (lo : list (name * val)) (pa : list (name * sha))
           (warm_a : bool) (oa : op) (warm_b : bool) (ob : op) (sched : list nat) : obs :=
  let st := mk_store lo pa in
  let c w := if w : bool then Some (packed st) else None in
  let s := run_sched valid_h sched (sys_init st oa (c warm_a) ob (c warm_b)) in
  OL [ores (res_of (s_a s)); ores (res_of (s_b s)); ostore (s_store s);
      ocache (tc (s_a s)); ocache (tc (s_b s))].

(* ------------------------------------------- bzr -> local git push (C37) -- *)

(* breezy/git/interrepo.py InterToLocalGitRepository.fetch_refs, the ref-update part:
     old_refs = self._get_target_either_refs()      (read_ref of every existing key: the view [v0])
     ... update_refs(old_refs); fetch_revs(...) ...  (anything may happen to the target meanwhile)
     try: old_git_id = old_refs[name][0]
     except KeyError: self.target_refs.add_if_new(name, gitid)
     else: self.target_refs.set_if_equals(name, old_git_id, gitid) *)
Definition push_op (v0 : name -> option val) (n : name) (new : sha) : op :=
  match v0 n with
  | Some o => OpSet n (Some o) new
  | None => OpAdd n new
  end.

Fixpoint seq_final (valid : name -> bool) (ops : list op) (st : store) (pc : pcache) : store :=
  match ops with
  | [] => st
  | o :: ops' => let '(st', t') := exec valid o st pc in seq_final valid ops' st' (tc t')
  end.

(* the pushing container took its snapshot through allkeys(), which loads its packed cache;
   [between] = what another container does before the push writes *)
Definition run_push (lo : list (name * val)) (pa : list (name * sha)) (warm_b : bool)
           (n : name) (new : sha) (between : list op) : obs :=
  let st := mk_store lo pa in
  let cb := if warm_b then Some (packed st) else None in
  let st1 := seq_final valid_h between st cb in
  let '(st2, _) := exec valid_h (push_op (view st) n new) st1 (Some (packed st)) in
  OL [OL (map (fun x => match x with (r, _, _) => ores r end) (exec_seq valid_h between st cb));
      ostore st2].
