(* Model/WriteGroup.v -- hand model (tie H) of the write-group state machine of
   breezy/bzr/pack_repo.py (RepositoryPackCollection._start_write_group,
   _abort_write_group, _suspend_write_group, _resume_write_group/_resume_pack,
   _commit_write_group; PackRepository._abort_write_group, _commit_write_group,
   suspend_write_group, _resume_write_group), breezy/repository.py
   (start/abort/commit/resume_write_group wrappers) and
   breezy/bzr/groupcompress_repo.py (GCRepositoryPackCollection._check_new_inventories).
   No proofs here.

   Items.  Everything that can be inserted (a revision, an inventory, a chk page,
   a file text, a signature) is an item, named by an [N].  What the commit-time
   checks need to know about an item is given by a [catalog] (the description of
   the source repository the harness copies records from):
     kind_of k       which versioned file the record lives in
     comp_of k       compression parent of the stored record (knit delta), if any
     inv_of_rev r    the inventory item of revision r
     inv_parents i   parent inventory items of inventory i (index parents)
     ie_root i       chk root of id_to_entry of inventory i
     pid_root i      chk root of parent_id_basename_to_file_id of inventory i
     chk_entries c   text items referenced by the entries of leaf page c
   (CHK maps with internal nodes are outside the model: every root is a leaf;
    an inventory entry is identified with the text key (file_id, revision) it names.)

   Packs.  A pack is the sequence of items inserted into it; its NAME is that
   sequence (real names are the md5 of the pack bytes, which are a function of
   the inserted record sequence).

   State = disk part (listed = pack-names, upload = suspended packs in upload/)
   + the writer object part (wg, mcp, newrevs, broken).
   (Since /repo 8028393 suspend and abort unregister resumed packs from _packs_by_name, so the
   object keeps no memory of the tokens it resumed.)
     mcp      the knit indices' "missing compression parents" memory of THIS
              repository object (environment: bzrformats _KnitGraphIndex): a key is
              added when a delta whose basis is absent is inserted, removed when
              the key itself is inserted, and at resume (PackRepository._resume_write_group
              calls scan_unvalidated_index on the revision, inventory, text and signature
              index of every resumed pack) the compression parents of the resumed records
              that are in no index are added; never otherwise touched (not cleared at
              abort/suspend/commit); a fresh object has [].
     newrevs  revisions._index.key_dependencies new keys (cleared by
              clear_key_dependencies, refilled by scan_unvalidated_index at resume)
     broken   _commit_write_group failed after its refusal checks (inside
              Pack.finish): the write group is half torn down; the model makes no
              claim about later operations of that object. *)
From Coq Require Import List Bool NArith String ZArith.
From BV Require Import Lib.Obs.
Import ListNotations.
Open Scope N_scope.

Inductive kind := KRev | KInv | KChk | KText | KSig.

Record catalog := Cat {
  kind_of : N -> kind;
  comp_of : N -> option N;
  inv_of_rev : N -> N;
  inv_parents : N -> list N;
  ie_root : N -> N;
  pid_root : N -> N;
  chk_entries : N -> list N }.

Definition kind_eqb (a b : kind) : bool :=
  match a, b with
  | KRev, KRev | KInv, KInv | KChk, KChk | KText, KText | KSig, KSig => true
  | _, _ => false
  end.

Definition mem (k : N) (l : list N) : bool := existsb (N.eqb k) l.
Definition remove (k : N) (l : list N) : list N := filter (fun x => negb (N.eqb k x)) l.
Definition name := list N.
Definition name_eqb (a b : name) : bool := list_eqb N.eqb a b.
Definition nmem (n : name) (l : list name) : bool := existsb (name_eqb n) l.
Definition nremove_all (ns l : list name) : list name := filter (fun x => negb (nmem x ns)) l.

Record wgstate := WG { wnew : list N; wres : list name }.

Record state := St {
  listed : list name;
  upload : list name;
  wg : option wgstate;
  mcp : list N;
  newrevs : list N;
  broken : bool }.

Definition visible (s : state) : list N := List.concat (listed s).
Definition wg_items (w : wgstate) : list N := List.concat (wres w) ++ wnew w.
Definition view (s : state) : list N :=
  visible s ++ match wg s with Some w => wg_items w | None => [] end.

Inductive err := EBzrError | ECheck | ECheckFinish | EUnresumable | ENotInWriteGroup | EAssertion | ETransport.
Inductive res := ROk | RToks (l : list name) | RErr (e : err) | RBroken.

Inductive tok := TName (n : name) | TBad.
(* AbortF sup / SuspendF: the same calls while the transport operations on upload/ FAIL (the
   harness moves upload/ away for the duration of the call); sup = suppress_errors *)
Inductive op := Start | Ins (k : N) | Abort | Suspend | Resume (ts : list tok) | Commit | Reopen
              | AbortF (sup : bool) | SuspendF.

Section Machine.
  Variable C : catalog.
  Variable is_gc : bool.   (* true: 2a (groupcompress, CHK inventories); false: pack-0.92 (knit) *)

  Definition revs_of (l : list N) : list N := filter (fun k => kind_eqb (kind_of C k) KRev) l.

  (* ---- environment: knit insert bookkeeping (add_records) ---- *)
  Definition mcp_after_insert (s : state) (k : N) : list N :=
    let add := if is_gc then [] else
                 match comp_of C k with
                 | Some p => if mem p (view s) || mem p (mcp s) then [] else [p]
                 | None => [] end in
    remove k (mcp s ++ add).

  (* ---- environment: scan_unvalidated_index of the resumed packs: external compression
     references that are in no index ([v] = everything the writer sees after the resume) ---- *)
  Definition missing_comp (v : list N) (items : list N) : list N :=
    if is_gc then [] else
    fold_left (fun acc k => match comp_of C k with
                            | Some c => if mem c v || mem c acc then acc else acc ++ [c]
                            | None => acc end) items [].

  (* ---- GCRepositoryPackCollection._check_new_inventories; true = no problems ---- *)
  Definition dedup_add (acc : list N) (k : N) := if mem k acc then acc else acc ++ [k].
  Definition check_new_inventories (s : state) : bool :=
    let v := view s in
    let corr := map (inv_of_rev C) (newrevs s) in
    (* inventories missing for revisions *)
    if negb (forallb (fun i => mem i v) corr) then false else
    let all0 := fold_left dedup_add (corr ++ flat_map (inv_parents C) corr) [] in
    let all := filter (fun i => mem i v) all0 in                   (* filter out ghost parents *)
    let ponly := filter (fun i => negb (mem i corr)) all in        (* parent_invs_only_keys *)
    let roots := flat_map (fun i => [ie_root C i; pid_root C i]) all in
    (* missing referenced chk root keys *)
    if negb (forallb (fun c => mem c v) roots) then false else
    let un_roots := map (ie_root C) ponly in
    let in_roots := filter (fun c => negb (mem c un_roots)) (map (ie_root C) corr) in
    let un_items := flat_map (chk_entries C) un_roots in
    let text_keys := filter (fun t => negb (mem t un_items)) (flat_map (chk_entries C) in_roots) in
    (* missing text keys *)
    forallb (fun t => mem t v) text_keys.

  (* ---- environment: Pack.finish -> _check_references (knit packs only) ---- *)
  Definition refs_ok (v : list N) (p : list N) : bool :=
    if is_gc then true else
    forallb (fun k => match comp_of C k with Some c => mem c v | None => true end) p.

  (* ---- _resume_write_group: tokens in order; first unusable one aborts ---- *)
  Inductive rs := RsOk (r : list name) | RsUnresumable (r : list name) | RsAssert.
  (* _resume_pack per token: malformed / NoSuchFile -> UnresumableWriteGroup (the packs resumed so
     far, [acc], are aborted = deleted from upload/); a token repeated in the list -> AssertionError of
     add_pack_to_memory (not generated by the harness: a malformed token list) *)
  Fixpoint resume_toks (up : list name) (acc : list name) (ts : list tok) : rs :=
    match ts with
    | [] => RsOk acc
    | TName n :: ts' =>
        if negb (nmem n up) then RsUnresumable acc
        else if nmem n acc then RsAssert          (* the same token twice in one list *)
        else resume_toks up (acc ++ [n]) ts'
    | TBad :: _ => RsUnresumable acc
    end.

  Definition step (o : op) (s : state) : state * res :=
    if broken s then (s, RBroken) else
    match o with
    | Start =>   (* Repository.start_write_group + _start_write_group *)
        match wg s with
        | Some _ => (s, RErr EBzrError)                 (* already in a write group *)
        | None => (St (listed s) (upload s) (Some (WG [] [])) (mcp s) (newrevs s) false, ROk)
        end
    | Ins k =>   (* insert_record_stream / add_* of one record into the new pack *)
        match wg s with
        | None => (s, RErr ENotInWriteGroup)
        | Some w =>
            (St (listed s) (upload s) (Some (WG (wnew w ++ [k]) (wres w)))
                (mcp_after_insert s k)
                (if kind_eqb (kind_of C k) KRev then newrevs s ++ [k] else newrevs s) false, ROk)
        end
    | Abort =>   (* Repository.abort_write_group; PackRepository._abort_write_group *)
        match wg s with
        | None => (s, RErr EBzrError)                   (* mismatched lock context and write group *)
        | Some w => (St (listed s) (nremove_all (wres w) (upload s)) None (mcp s) [] false, ROk)
        end
    | Suspend => (* PackRepository.suspend_write_group; _suspend_write_group *)
        match wg s with
        | None => (s, RErr ENotInWriteGroup)
        | Some w =>
            let toks := wres w ++ (if wnew w then [] else [wnew w]) in
            let up := if wnew w then upload s
                      else if nmem (wnew w) (upload s) then upload s else upload s ++ [wnew w] in
            (St (listed s) up None (mcp s) [] false, RToks toks)
        end
    | Resume ts => (* Repository.resume_write_group; PackRepository._resume_write_group *)
        match wg s with
        | Some _ => (s, RErr EBzrError)
        | None =>
            match resume_toks (upload s) [] ts with
            | RsOk r => (St (listed s) (upload s) (Some (WG [] r))
                            (mcp s ++ missing_comp (visible s ++ List.concat r) (List.concat r))
                            (revs_of (List.concat r)) false, ROk)
            | RsUnresumable r =>
                (St (listed s) (nremove_all r (upload s)) None (mcp s) [] false,
                 RErr EUnresumable)
            | RsAssert => (St (listed s) (upload s) (wg s) (mcp s) (newrevs s) true,
                           RErr EAssertion)
            end
        end
    | Commit =>  (* Repository.commit_write_group; _commit_write_group *)
        match wg s with
        | None => (s, RErr EBzrError)
        | Some w =>
            if negb (match mcp s with [] => true | _ => false end) then (s, RErr ECheck)
            else if is_gc && negb (check_new_inventories s) then (s, RErr ECheck)
            else if negb (refs_ok (view s) (wnew w) && forallb (refs_ok (view s)) (wres w))
            then (St (listed s) (upload s) (wg s) (mcp s) (newrevs s) true, RErr ECheckFinish)
            else (St (listed s ++ (if wnew w then [] else [wnew w]) ++ wres w)
                     (nremove_all (wres w) (upload s)) None (mcp s) [] false, ROk)
        end
    | Reopen =>  (* a fresh Repository object on the same directory *)
        match wg s with
        | Some _ => (s, RErr EBzrError)
        | None => (St (listed s) (upload s) None [] [] false, ROk)
        end
    | AbortF sup =>
        (* _abort_write_group when every delete on upload/ raises: all clean-up steps run from one
           ExitStack (since /repo 8028393): the new pack's and the resumed packs' indices are removed,
           the resumed packs are unregistered, _new_pack / _resumed_packs cleared;
           Repository.abort_write_group clears _write_group and re-raises unless suppress_errors.
           Nothing could be deleted: the resumed packs are still suspended in upload/ *)
        match wg s with
        | None => (s, RErr EBzrError)
        | Some w => (St (listed s) (upload s) None (mcp s) [] false,
                     if sup then ROk else RErr ETransport)
        end
    | SuspendF =>
        (* _suspend_write_group failing in NewPack.finish/abort: the exception propagates, the write
           group stays open with the new pack's indices already detached (no claim: broken);
           the harness then aborts and the oracle checks that nothing leaks *)
        match wg s with
        | None => (s, RErr ENotInWriteGroup)
        | Some _ => (St (listed s) (upload s) (wg s) (mcp s) (newrevs s) true, RErr ETransport)
        end
    end.

  Fixpoint run (ops : list op) (s : state) : state :=
    match ops with
    | [] => s
    | o :: t => run t (fst (step o s))
    end.

  (* ---- observation, per operation ---- *)
  Definition sortN (l : list N) : list N :=
    fold_right (fun x acc =>
      (fix ins (l : list N) := match l with
         | [] => [x]
         | y :: t => if x <? y then x :: l else if x =? y then l else y :: ins t end) acc) [] l.

  Definition oerr (e : err) : obs :=
    OE (match e with
        | EBzrError => "BzrError" | ECheck => "BzrCheckError" | ECheckFinish => "BzrCheckError:finish"
        | EUnresumable => "UnresumableWriteGroup" | ENotInWriteGroup => "NotInWriteGroup"
        | EAssertion => "AssertionError" | ETransport => "NoSuchFile" end)%string.
  Definition ores (r : res) : obs :=
    match r with
    | ROk => OT "ok" | RToks l => OL (map (olist oN) l) | RErr e => oerr e | RBroken => OT "broken"
    end.
  Definition oname_set (l : list name) : obs := OL (map (olist oN) l).

  (* [result; visible items; pack-names changed?; suspended packs (in upload order of creation);
      in write group?; items the writer sees] *)
  Definition observe (before after : state) (r : res) : obs :=
    match r with
    | RBroken => OT "broken"
    | _ =>
      if broken after then
        OL [ores r; olist oN (sortN (visible after));
            obool (negb (list_eqb name_eqb (listed before) (listed after)))]
      else
        OL [ores r; olist oN (sortN (visible after));
            obool (negb (list_eqb name_eqb (listed before) (listed after)));
            oname_set (upload after);
            obool (match wg after with Some _ => true | None => false end);
            olist oN (sortN (view after))]
    end.

  Fixpoint trace (ops : list op) (s : state) : list obs :=
    match ops with
    | [] => []
    | o :: t => let '(s', r) := step o s in observe s s' r :: trace t s'
    end.
End Machine.

Definition init : state := St [] [] None [] [] false.

(* ---------- the two concrete catalogs used by the correspondence run ----------
   (the harness builds its source repositories from the same table and checks at
   set-up time that the real records have these storage kinds / roots / entries)

   revisions r1..r4:  r1 root; r2, r3 children of r1; r4 = merge(r2, r3)
   items:  rev ri = i, inv ri = 10+i, ie root of ri = 20+i, pid root = 30 (shared by all),
           texts: 40 (root,r1) [2a only]  41 (f,r1) 42 (g,r1) 43 (f,r2) 44 (g,r3) 45 (f,r4);  sig ri = 50+i *)
Definition kind_tab (k : N) : kind :=
  if k <? 10 then KRev else if k <? 20 then KInv else if k <? 40 then KChk
  else if k <? 50 then KText else KSig.
Definition invpar_tab (i : N) : list N :=
  match i with 12 => [11] | 13 => [11] | 14 => [12; 13] | _ => [] end.
Definition entries_2a (c : N) : list N :=
  match c with 21 => [40; 41; 42] | 22 => [40; 43; 42] | 23 => [40; 41; 44] | 24 => [40; 45; 44]
             | _ => [] end.
Definition comp_knit (k : N) : option N :=
  match k with 12 => Some 11 | 13 => Some 11 | 14 => Some 12
             | 43 => Some 41 | 44 => Some 42 | 45 => Some 43 | _ => None end.

Definition cat_2a : catalog :=
  Cat kind_tab (fun _ => None) (fun r => r + 10) invpar_tab (fun i => i + 10) (fun _ => 30) entries_2a.
Definition cat_knit : catalog :=
  Cat kind_tab comp_knit (fun r => r + 10) invpar_tab (fun i => i + 10) (fun _ => 30) (fun _ => []).

(* fmt: 0 = 2a (plain or stacked: the commit checks never look at fallbacks), 1 = pack-0.92 *)
Definition run_case (fmt : N) (ops : list op) : obs :=
  if fmt =? 0 then OL (trace cat_2a true ops init) else OL (trace cat_knit false ops init).
