(* Model/CommitSel.v -- C01: what a (partial) commit records, and what a failing
   commit leaves behind.  Definitions only.

   In /repo (modelled line by line):
     breezy/commit.py        filter_excluded, Commit._filter_iter_changes,
                             Commit._update_builder_with_changes, the order of
                             the pipeline in Commit.commit / _update_branches and
                             its  except -> builder.abort()
     breezy/bzr/vf_repository.py
                             VersionedFileCommitBuilder.record_iter_changes as a
                             function  change list -> inventory delta
   Outside /repo (environment, modelled and validated by the correspondence
   run only):
     bzrformats dirstate  iter_changes(specific_files)   -> [iter_changes]
     bzrformats CHKInventory.create_by_apply_delta        -> [apply_delta]
     the WorkingTree mutators used to build the cases      -> [apply_op]     *)
From Coq Require Import List NArith ZArith Bool String.
From BV Require Import Lib.Obs Lib.Tree01.
Import ListNotations.
Open Scope list_scope.

(* ------------------------------------------------------------------ *)
(* 1. working-tree operations (environment: WorkingTree.add/rename_one/remove, the disk) *)

Inductive op :=
| OMkdir (p : path) (i : fid)
| OAddFile (p : path) (i : fid) (c : N) (x : bool)
| OSymlink (p : path) (i : fid) (c : N)
| OModify (p : path) (c : N)
| OChmod (p : path) (x : bool)
| ORename (p q : path)
| ORemove (p : path)
| ORm (p : path)
| OKind (p : path) (k : kind) (c : N).

Definition is_dir (e : entry) : bool := match e_kind e with KDir => true | _ => false end.

(* id of a versioned path whose object is on disk *)
Definition present_at (t : tree) (p : path) : option (fid * entry) :=
  match id_of_path t p with
  | Some i => match lookup t i with
              | Some e => if e_missing e then None else Some (i, e)
              | None => None
              end
  | None => None
  end.

(* a path at which something new can be created: parent is a present directory, nothing versioned there *)
Definition free_at (t : tree) (p : path) : option fid :=
  match p with
  | [] => None
  | _ => match present_at t (removelast p), id_of_path t p with
         | Some (d, de), None => if is_dir de then Some d else None
         | _, _ => None
         end
  end.

Definition fresh (t : tree) (i : fid) : bool := match lookup t i with None => true | Some _ => false end.

Definition add_entry (t : tree) (p : path) (i : fid) (k : kind) (c : N) (x : bool) : tree :=
  match free_at t p with
  | Some d => if fresh t i then insert t i (mkE d (last p 0%N) k c x false) else t
  | None => t
  end.

Definition descendants (t : tree) (p : path) : list fid :=
  filter (fun i => match tpath t i with Some q => is_inside p q | None => false end) (ids t).

Definition apply_op (t : tree) (o : op) : tree :=
  match o with
  | OMkdir p i => add_entry t p i KDir 0%N false
  | OAddFile p i c x => add_entry t p i KFile c x
  | OSymlink p i c => add_entry t p i KLink c false
  | OModify p c =>
      match present_at t p with
      | Some (i, e) => if is_dir e then t
                       else insert t i (mkE (e_parent e) (e_name e) (e_kind e) c (e_exec e) false)
      | None => t
      end
  | OChmod p x =>
      match present_at t p with
      | Some (i, e) => match e_kind e with
                       | KFile => insert t i (mkE (e_parent e) (e_name e) KFile (e_content e) x false)
                       | _ => t
                       end
      | None => t
      end
  | ORename p q =>
      match p, present_at t p, free_at t q with
      | _ :: _, Some (i, e), Some d =>
          if is_inside p q then t
          else insert t i (mkE d (last q 0%N) (e_kind e) (e_content e) (e_exec e) false)
      | _, _, _ => t
      end
  | ORemove p =>
      match p, present_at t p with
      | _ :: _, Some _ => fold_left remove (descendants t p) t
      | _, _ => t
      end
  | ORm p =>
      match p, present_at t p with
      | _ :: _, Some (i, e) => if is_dir e then t
                               else insert t i (mkE (e_parent e) (e_name e) (e_kind e) (e_content e) (e_exec e) true)
      | _, _ => t
      end
  | OKind p k c =>
      match present_at t p, k with
      | _, KDir => t
      | Some (i, e), _ => if is_dir e then t else insert t i (mkE (e_parent e) (e_name e) k c false false)
      | None, _ => t
      end
  end.

(* ------------------------------------------------------------------ *)
(* 2. changes (InventoryTreeChange restricted to what commit reads) *)

Record change := mkC {
  c_id : fid;
  c_oldp : option path;      (* change.path[0] *)
  c_newp : option path;      (* change.path[1] *)
  c_olde : option entry;     (* versioned[0], parent_id[0], name[0], kind[0], executable[0] *)
  c_newe : option entry      (* versioned[1], ...; e_missing = (kind[1] is None) *)
}.

Definition mk_change (basis wt : tree) (i : fid) : change :=
  mkC i (tpath basis i) (tpath wt i) (lookup basis i) (lookup wt i).

Definition oentry_differs (a b : option entry) : bool :=
  match a, b with
  | None, None => false
  | Some x, Some y => negb (entry_eqb x y)
  | _, _ => true
  end.

(* iter_changes reports an id iff one of versioned/parent/name/kind/content/exec differs *)
Definition changed (basis wt : tree) (i : fid) : bool := oentry_differs (lookup basis i) (lookup wt i).
Definition c_changed (c : change) : bool := oentry_differs (c_olde c) (c_newe c).

Definition memN (i : fid) (l : list fid) : bool := existsb (N.eqb i) l.
Definition all_ids (basis wt : tree) : list fid :=
  ids basis ++ filter (fun i => negb (memN i (ids basis))) (ids wt).

Definition all_changes (basis wt : tree) : list change := map (mk_change basis wt) (all_ids basis wt).

(* --- environment: dirstate iter_changes with specific_files ---------- *)

Definition memP (p : path) (l : list path) : bool := existsb (path_eqb p) l.

Definition hit (P : list path) (c : change) : bool := oinside P (c_oldp c) || oinside P (c_newp c).

Definition relocated (c : change) : bool :=
  match c_oldp c, c_newp c with
  | Some o, Some n => negb (path_eqb o n)
  | _, _ => false
  end.

(* _process_entry: an entry found under a search root whose other tree has it at another path
   ('r' minikind) adds that other path to the search set *)
Definition other_ends (P : list path) (c : change) : list path :=
  if hit P c && relocated c then
    match c_oldp c, c_newp c with
    | Some o, Some n => [o; n]
    | _, _ => []
    end
  else [].

Fixpoint search_closure (fuel : nat) (cs : list change) (P : list path) : list path :=
  match fuel with
  | O => P
  | S f => search_closure f cs (P ++ flat_map (other_ends P) cs)
  end.

(* _gather_result_for_consistency / _iter_specific_file_parents: every parent directory of a
   reported new path is examined; an old occupant of such a path that moved elsewhere is
   examined at its new path *)
Definition parents_step (cs : list change) (Q : list path) : list path :=
  Q ++ flat_map (fun c => match c_oldp c, c_newp c with
                          | Some o, Some n => if memP o Q && negb (path_eqb o n) then [n] else []
                          | _, _ => []
                          end) cs
    ++ flat_map (fun c => match c_newp c with
                          | Some n => if memP n Q && c_changed c then proper_prefixes n else []
                          | None => []
                          end) cs.

Fixpoint parents_closure (fuel : nat) (cs : list change) (Q : list path) : list path :=
  match fuel with
  | O => Q
  | S f => parents_closure f cs (parents_step cs Q)
  end.

Definition onpath (Q : list path) (p : option path) : bool :=
  match p with Some q => memP q Q | None => false end.

Definition phase1 (cs : list change) (S : list path) : list change :=
  let P := search_closure (Datatypes.S (List.length cs)) cs S in
  filter (fun c => c_changed c && hit P c) cs.

Definition parents_seed (em : list change) : list path :=
  flat_map (fun c => match c_newp c with Some n => proper_prefixes n | None => [] end) em.

Definition phase2 (cs em : list change) : list change :=
  let Q := parents_closure (Datatypes.S (List.length cs)) cs (parents_seed em) in
  filter (fun c => c_changed c &&
                   (onpath Q (c_newp c) ||
                    (onpath Q (c_oldp c) && match c_newe c with None => true | Some _ => false end))) cs.

Definition versioned_somewhere (cs : list change) (s : path) : bool :=
  existsb (fun c => opath_eqb (c_oldp c) (Some s) || opath_eqb (c_newp c) (Some s)) cs.

Inductive ic_result := ICOk (l : list change) | ICNotVersioned.

(* WorkingTree.iter_changes(basis, specific_files=S); None = everything = [""] *)
Definition iter_changes (basis wt : tree) (S : option (list path)) : ic_result :=
  let cs := all_changes basis wt in
  let S' := match S with Some l => l | None => [[]] end in
  if forallb (versioned_somewhere cs) S' then
    let em := phase1 cs S' in ICOk (em ++ phase2 cs em)
  else ICNotVersioned.

(* ------------------------------------------------------------------ *)
(* 3. commit.py: filter_excluded, _filter_iter_changes *)

(* filter_excluded: a change is dropped when its old or its new path is excluded
   (both branches of the source `continue`) *)
Definition filter_excluded (excl : list path) (cs : list change) : list change :=
  filter (fun c =>
            let new_excluded := oinside excl (c_newp c) in
            let old_excluded := oinside excl (c_oldp c) in
            if old_excluded && new_excluded then false
            else if old_excluded || new_excluded then false
            else true) cs.

Definition is_missing (c : change) : bool :=
  match c_newe c with Some e => e_missing e | None => false end.

(* TreeChange.discard_new *)
Definition discard_new (c : change) : change := mkC (c_id c) (c_oldp c) None (c_olde c) None.

(* _filter_iter_changes: 'missing' entries become deletions and are remembered in
   deleted_paths (we remember their ids); a change is yielded iff versioned on a side *)
Definition fic_one (c : change) : list change :=
  let c' := if is_missing c then discard_new c else c in
  match c_olde c', c_newe c' with
  | None, None => []
  | _, _ => [c']
  end.
Definition filter_iter_changes (cs : list change) : list change := flat_map fic_one cs.
Definition deleted_ids (cs : list change) : list fid := map c_id (filter is_missing cs).

(* ------------------------------------------------------------------ *)
(* 4. vf_repository.py: record_iter_changes (single parent): change list -> inventory delta *)

Record item := mkI {
  it_old : option path;
  it_new : option path;
  it_id : fid;
  it_entry : option entry
}.

(* `changes[change.file_id] = (change, ...)`: a dict keyed by file id, insertion ordered *)
Fixpoint dict_put (d : list change) (c : change) : list change :=
  match d with
  | [] => [c]
  | x :: r => if N.eqb (c_id x) (c_id c) then c :: r else x :: dict_put r c
  end.
Definition to_dict (cs : list change) : list change := fold_left dict_put cs [].

(* one iteration of `for change, head_candidates in changes.values()`: the entry is built from
   name[1], parent_id[1], kind[1], executable[1] and the tree's content at path[1] *)
Definition item_of (c : change) : item :=
  mkI (c_oldp c) (c_newp c) (c_id c)
      (match c_newe c with
       | Some e => Some (mkE (e_parent e) (e_name e) (e_kind e) (e_content e)
                             (eff_exec e) false)
       | None => None
       end).

Definition record (cs : list change) : list item := map item_of (to_dict cs).

(* --- environment: CHKInventory.create_by_apply_delta ---------------- *)

Definition apply_item (t : tree) (it : item) : tree :=
  match it_entry it with
  | Some e => insert t (it_id it) e
  | None => remove t (it_id it)
  end.
Definition apply_raw (d : list item) (t : tree) : tree := fold_left apply_item d t.

Definition item_old_ok (basis : tree) (it : item) : bool :=
  match it_old it with
  | Some p => opath_eqb (tpath basis (it_id it)) (Some p)
  | None => fresh basis (it_id it)
  end.
Definition item_new_ok (r : tree) (it : item) : bool :=
  match it_new it, it_entry it with
  | Some p, Some _ => opath_eqb (tpath r (it_id it)) (Some p)
  | None, None => true
  | _, _ => false
  end.

Definition apply_delta (basis : tree) (d : list item) : option tree :=
  let r := apply_raw d basis in
  if forallb (item_old_ok basis) d && forallb (item_new_ok r) d && valid_rev_tree r &&
     negb (fresh r root_id)
  then Some r else None.

(* ------------------------------------------------------------------ *)
(* 5. Commit.commit: the data path *)

(* osutils.minimum_path_selection: drop every path that lies inside another path of the list *)
Definition min_sel (l : list path) : list path :=
  filter (fun p => negb (existsb (fun q => is_inside q p && negb (path_eqb q p)) l)) l.


Inductive cres :=
| COk (t : tree) (wt' : tree)       (* new revision tree, working-tree inventory afterwards *)
| CErr (e : string).

(* the changes that reach the builder: iter_changes -> filter_excluded -> _filter_iter_changes *)
Definition selected_changes (basis wt : tree) (S : option (list path)) (excl : list path)
  : option (list change) :=
  match iter_changes basis wt S with
  | ICOk cs => Some (filter_excluded excl cs)
  | ICNotVersioned => None
  end.

Definition commit (basis wt : tree) (S0 : option (list path)) (excl0 : list path) : cres :=
  let S := option_map min_sel S0 in       (* self.specific_files = sorted(minimum_path_selection(...)) *)
  let excl := min_sel excl0 in            (* self.exclude = sorted(minimum_path_selection(exclude)) *)
  match selected_changes basis wt S excl with
  | None => CErr "PathsNotVersionedError"
  | Some cs =>
      match apply_delta basis (record (filter_iter_changes cs)) with
      | None => CErr "InconsistentDelta"
      | Some t => COk t (fold_left remove (deleted_ids cs) wt)     (* work_tree.unversion(deleted_paths) *)
      end
  end.

Definition commit_tree basis wt S excl : option tree :=
  match commit basis wt S excl with COk t _ => Some t | CErr _ => None end.

(* ---- the specification side ---------------------------------------- *)

(* an id is selected when its old or its new path lies inside S; it is excluded when its old or
   its new path lies inside excl *)
Definition sel_paths (S : option (list path)) : list path :=
  match S with Some l => min_sel l | None => [[]] end.   (* inside (min_sel l) = inside l: Theory min_sel_inside *)
Definition selected (basis wt : tree) (S : option (list path)) (excl : list path) (i : fid) : bool :=
  (oinside (sel_paths S) (tpath basis i) || oinside (sel_paths S) (tpath wt i)) &&
  negb (oinside (min_sel excl) (tpath basis i) || oinside (min_sel excl) (tpath wt i)).

(* what a commit records for an id of the working tree *)
Definition committed_entry (o : option entry) : option entry :=
  match o with
  | Some e => if e_missing e then None
              else Some (mkE (e_parent e) (e_name e) (e_kind e) (e_content e)
                             (eff_exec e) false)
  | None => None
  end.

(* basis with the working tree's state substituted for the ids satisfying [sel] *)
Definition subst_lookup (basis wt : tree) (sel : fid -> bool) (i : fid) : option entry :=
  if sel i then committed_entry (lookup wt i) else lookup basis i.

Definition substitute (basis wt : tree) (sel : fid -> bool) : tree :=
  flat_map (fun i => match subst_lookup basis wt sel i with Some e => [(i, e)] | None => [] end)
           (all_ids basis wt).

(* the executable guard of the main theorem *)
Definition both_paths_agree (P : list path) (c : change) : bool :=
  match c_oldp c, c_newp c with
  | Some o, Some n => Bool.eqb (is_inside_any P o) (is_inside_any P n)
  | _, _ => true
  end.

(* good q: whatever sits at path q in either tree is selected by S, or is the same unchanged
   entry at the same path in both trees *)
Definition good_path (S : list path) (cs : list change) (q : path) : bool :=
  forallb (fun c => if opath_eqb (c_oldp c) (Some q) || opath_eqb (c_newp c) (Some q)
                    then hit S c || (negb (c_changed c) && opath_eqb (c_oldp c) (c_newp c))
                    else true) cs.

Definition selection_closed (basis wt : tree) (S : option (list path)) (excl : list path) : bool :=
  let cs := all_changes basis wt in
  let P := sel_paths S in
  (* G1: no id whose path differs between the trees has one end inside and one outside S / excl *)
  forallb (fun c => both_paths_agree P c && both_paths_agree (min_sel excl) c) cs &&
  (* G2: the parent directories of selected changed paths need nothing unselected *)
  forallb (fun c => if c_changed c && hit P c then
                      match c_newp c with
                      | Some n => forallb (good_path P cs) (proper_prefixes n)
                      | None => true
                      end
                    else true) cs.

(* ------------------------------------------------------------------ *)
(* 6. observations for the correspondence run *)

(* a name token below 256 is that byte; a larger one stands for two bytes *)
Definition name_bytes (n : name) : list N := if N.ltb n 256 then [n] else [N.div n 256; N.modulo n 256].
Definition opath (p : path) : obs :=
  OB (match p with [] => [] | x :: r => name_bytes x ++ flat_map (fun y => 47%N :: name_bytes y) r end).
Definition okind (k : kind) : obs :=
  OT (match k with KFile => "file" | KDir => "directory" | KLink => "symlink" end)%string.

Fixpoint ins_sorted (i : fid) (l : list fid) : list fid :=
  match l with
  | [] => [i]
  | j :: r => if N.leb i j then i :: l else j :: ins_sorted i r
  end.
Definition sort_ids (l : list fid) : list fid := fold_right ins_sorted [] l.

Definition listing (t : tree) : obs :=
  OL (flat_map (fun i => match lookup t i, tpath t i with
                         | Some e, Some p => [OL [oN i; opath p; okind (e_kind e); oN (e_content e); obool (e_exec e)]]
                         | _, _ => []
                         end) (sort_ids (ids t))).

Definition okind_of (o : option entry) : obs :=
  match o with Some e => if e_missing e then ON else okind (e_kind e) | None => ON end.

Definition content_changed (c : change) : bool :=
  match c_olde c, c_newe c with
  | Some a, Some b =>
      if e_missing b then true
      else negb (kind_eqb (e_kind a) (e_kind b)) || negb (N.eqb (e_content a) (e_content b))
  | None, None => false
  | None, Some b => negb (e_missing b)
  | Some _, None => true
  end.

(* wt.iter_changes(basis) with no path filter, sorted by file id *)
Definition changes_obs (basis wt : tree) : obs :=
  OL (flat_map (fun i => let c := mk_change basis wt i in
                         if c_changed c then
                           [OL [oN i; oopt opath (c_oldp c); oopt opath (c_newp c);
                                okind_of (c_olde c); okind_of (c_newe c); obool (content_changed c);
                                oopt (fun e => obool (e_exec e)) (c_olde c);
                                oopt (fun e => obool (e_exec e && negb (e_missing e))) (c_newe c)]]
                         else []) (sort_ids (all_ids basis wt))).

Record cstep := mkS { s_ops : list op; s_sel : option (list path); s_excl : list path }.

Record hstate := mkH { h_basis : tree; h_wt : tree; h_revno : N }.

Definition root_entry : entry := mkE root_id 0%N KDir 0%N false false.
Definition h_init : hstate := mkH [] [(root_id, root_entry)] 0%N.

Definition run_step (h : hstate) (s : cstep) : hstate * obs :=
  let wt := fold_left apply_op (s_ops s) (h_wt h) in
  match commit (h_basis h) wt (s_sel s) (s_excl s) with
  | COk t wt' => (mkH t wt' (h_revno h + 1),
                  OL [OT "ok"; listing t; changes_obs t wt'; oN (h_revno h + 1);
                      obool (selection_closed (h_basis h) wt (s_sel s) (s_excl s))])
  | CErr e => (mkH (h_basis h) wt (h_revno h),
               OL [OE e; listing (h_basis h); changes_obs (h_basis h) wt; oN (h_revno h);
                   obool (selection_closed (h_basis h) wt (s_sel s) (s_excl s))])
  end.

Fixpoint run_steps (h : hstate) (l : list cstep) : list obs :=
  match l with
  | [] => []
  | s :: r => let (h', o) := run_step h s in o :: run_steps h' r
  end.

Definition run_case (l : list cstep) : obs := OL (run_steps h_init l).

(* filter_excluded alone, on explicit (old path, new path) pairs: which survive *)
Definition run_filter_excluded (excl : list path) (l : list (option path * option path)) : obs :=
  OL (map (fun c => oN (c_id c))
          (filter_excluded excl
             (map (fun ip => mkC (fst ip) (fst (snd ip)) (snd (snd ip)) None None)
                  (combine (map N.of_nat (seq 0 (List.length l))) l)))).

(* ------------------------------------------------------------------ *)
(* 7. Commit.commit: the control path, with a failure injected at one step *)

Inductive pstep :=
| PGetBuilder        (* branch.get_commit_builder: start_write_group *)
| PStarted           (* reporter.started *)
| PRecord            (* _update_builder_with_changes: texts go into the write group *)
| PPointless         (* _check_pointless *)
| PFinishInv         (* builder.finish_inventory *)
| PMessage           (* message_callback *)
| PBuilderCommit     (* builder.commit: _add_revision + commit_write_group *)
| PPreCommitHook     (* _update_branches: pre_commit hooks *)
| PMasterUpdate      (* bound branch: master.import_last_revision_info_and_tags *)
| PSetTip            (* branch.set_last_revision_info (pre_change_branch_tip hooks run first) *)
| PTipHooks          (* post_change_branch_tip hooks, inside set_last_revision_info *)
| PUnversion         (* work_tree.unversion(deleted_paths) *)
| PUpdateBasis       (* work_tree.update_basis_by_delta *)
| PPostHook.         (* post_commit hooks *)

Record pstate := mkP {
  p_revs : list N;          (* revisions visible in the local repository *)
  p_tip : N;                (* local branch tip *)
  p_master_tip : N;         (* master branch tip (bound branches) *)
  p_wbasis : N;             (* working tree basis *)
  p_wg : bool;              (* a write group is open *)
  p_staged : list N         (* revisions inside the open write group *)
}.

Definition pipeline (bound : bool) : list pstep :=
  [PGetBuilder; PStarted; PRecord; PPointless; PFinishInv; PMessage; PBuilderCommit; PPreCommitHook]
  ++ (if bound then [PMasterUpdate] else [])
  ++ [PSetTip; PTipHooks; PUnversion; PUpdateBasis; PPostHook].

Definition exec_step (new : N) (st : pstep) (s : pstate) : pstate :=
  match st with
  | PGetBuilder => mkP (p_revs s) (p_tip s) (p_master_tip s) (p_wbasis s) true []
  | PFinishInv => mkP (p_revs s) (p_tip s) (p_master_tip s) (p_wbasis s) (p_wg s) [new]
  | PBuilderCommit => mkP (p_staged s ++ p_revs s) (p_tip s) (p_master_tip s) (p_wbasis s) false []
  | PMasterUpdate => mkP (p_revs s) (p_tip s) new (p_wbasis s) (p_wg s) (p_staged s)
  | PSetTip => mkP (p_revs s) new (p_master_tip s) (p_wbasis s) (p_wg s) (p_staged s)
  | PUpdateBasis => mkP (p_revs s) (p_tip s) (p_master_tip s) new (p_wg s) (p_staged s)
  | _ => s
  end.

(* the `try:` of Commit.commit covers reporter.started .. builder.commit *)
Definition in_try (st : pstep) : bool :=
  match st with
  | PStarted | PRecord | PPointless | PFinishInv | PMessage | PBuilderCommit => true
  | _ => false
  end.

(* builder.abort(): repository.abort_write_group() *)
Definition abort (s : pstate) : pstate := mkP (p_revs s) (p_tip s) (p_master_tip s) (p_wbasis s) false [].

(* run the steps; the step with index k raises before having any effect; the handler runs
   when that step is inside the try block.  Returns (state, raised?) *)
Fixpoint run_fault (new : N) (k : nat) (steps : list pstep) (s : pstate) : pstate * bool :=
  match steps with
  | [] => (s, false)
  | st :: r =>
      match k with
      | O => (if in_try st then abort s else s, true)
      | S k' => run_fault new k' r (exec_step new st s)
      end
  end.

Definition index_of (st : pstep) (bound : bool) : nat :=
  let fix go (l : list pstep) (n : nat) : nat :=
    match l with
    | [] => n
    | x :: r => if (match x, st with
                    | PGetBuilder, PGetBuilder | PStarted, PStarted | PRecord, PRecord
                    | PPointless, PPointless | PFinishInv, PFinishInv | PMessage, PMessage
                    | PBuilderCommit, PBuilderCommit | PPreCommitHook, PPreCommitHook
                    | PMasterUpdate, PMasterUpdate | PSetTip, PSetTip | PTipHooks, PTipHooks
                    | PUnversion, PUnversion | PUpdateBasis, PUpdateBasis | PPostHook, PPostHook => true
                    | _, _ => false end) then n else go r (S n)
    end in go (pipeline bound) O.

Definition p_init : pstate := mkP [1%N] 1%N 1%N 1%N false [].

(* observation of a fault run: raised?, new revision visible?, local tip moved?, master tip
   moved?, working-tree basis moved?, write group still open? *)
Definition run_fault_case (bound : bool) (k : nat) : obs :=
  let (s, raised) := run_fault 2%N k (pipeline bound) p_init in
  OL [obool raised; obool (memN 2%N (p_revs s)); obool (N.eqb (p_tip s) 2%N);
      obool (N.eqb (p_master_tip s) 2%N); obool (N.eqb (p_wbasis s) 2%N); obool (p_wg s)].
