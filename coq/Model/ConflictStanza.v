(* Model/ConflictStanza.v -- hand model for C20.
   breezy/bzr/conflicts.py : Conflict.as_stanza (and the as_stanza of PathConflict,
     HandledConflict, HandledPathConflict), Conflict.factory, ConflictList.to_stanzas /
     from_stanzas, ConflictList.select_conflicts;
   breezy/conflicts.py : resolve(action="done");
   breezy/bzr/workingtree.py : set_conflicts / conflicts, set_merge_modified / merge_modified.
   Environment (outside /repo), modelled and validated by the correspondence run:
     bzrformats.rio (write + read of a stanza list = [rio_value] on every value),
     std::path::Path::starts_with behind osutils.is_inside_any ([components]).
   Unicode strings are modelled by their UTF-8 byte strings; file ids are bytes that are
   valid UTF-8 (others make as_stanza raise UnicodeDecodeError: not modelled, not generated). *)
From Coq Require Import NArith List Bool String Ascii.
From BV Require Import Lib.Bytes Lib.Obs.
Import ListNotations.
Open Scope N_scope.

Definition s2b (s : string) : bytes := map N_of_ascii (list_ascii_of_string s).

(* ---- the ten registered conflict classes, grouped by constructor signature ---- *)
Inductive kind2 := KPath | KContents.
Inductive kind3 := KUnversionedParent | KMissingParent | KDeletingParent | KNonDirParent.
Inductive kind4 := KDuplicateID | KDuplicateEntry | KParentLoop.

Inductive conflict :=
| CText (path : bytes) (fid : option bytes)
    (* TextConflict : Conflict.__init__(path, file_id=None) *)
| CPath (k : kind2) (path : bytes) (cpath : option bytes) (fid : option bytes)
    (* PathConflict / ContentsConflict : __init__(path, conflict_path=None, file_id=None) *)
| CHandled (k : kind3) (action path : bytes) (fid : option bytes)
    (* HandledConflict subclasses : __init__(action, path, file_id=None) *)
| CHandledPath (k : kind4) (action path : bytes) (cpath : option bytes) (fid cfid : option bytes).
    (* HandledPathConflict subclasses : __init__(action, path, conflict_path, file_id=None,
       conflict_file_id=None); conflict_path may be passed as None, as_stanza then raises *)

Definition ts2 k := match k with KPath => s2b "path conflict" | KContents => s2b "contents conflict" end.
Definition ts3 k := match k with
  | KUnversionedParent => s2b "unversioned parent" | KMissingParent => s2b "missing parent"
  | KDeletingParent => s2b "deleting parent" | KNonDirParent => s2b "non-directory parent" end.
Definition ts4 k := match k with
  | KDuplicateID => s2b "duplicate id" | KDuplicateEntry => s2b "duplicate" | KParentLoop => s2b "parent loop" end.
Definition typestring (c : conflict) : bytes :=
  match c with
  | CText _ _ => s2b "text conflict"
  | CPath k _ _ _ => ts2 k
  | CHandled k _ _ _ => ts3 k
  | CHandledPath k _ _ _ _ _ => ts4 k
  end.

Definition path_of c := match c with
  | CText p _ | CPath _ p _ _ | CHandled _ _ p _ | CHandledPath _ _ p _ _ _ => p end.
Definition fid_of c := match c with
  | CText _ f | CPath _ _ _ f | CHandled _ _ _ f | CHandledPath _ _ _ _ f _ => f end.
(* getattr(conflict, "conflict_path", None) / getattr(conflict, "conflict_file_id", None) *)
Definition cpath_of c := match c with
  | CPath _ _ cp _ | CHandledPath _ _ _ cp _ _ => cp | _ => None end.
Definition cfid_of c := match c with CHandledPath _ _ _ _ _ cf => cf | _ => None end.
Definition action_of c := match c with
  | CHandled _ a _ _ | CHandledPath _ a _ _ _ _ => Some a | _ => None end.

(* ---- stanzas: ordered (tag, value) pairs ---- *)
Definition stanza := list (bytes * bytes).
Definition T_type := s2b "type".
Definition T_path := s2b "path".
Definition T_file_id := s2b "file_id".
Definition T_action := s2b "action".
Definition T_conflict_path := s2b "conflict_path".
Definition T_conflict_file_id := s2b "conflict_file_id".

Definition opt_field (tag : bytes) (v : option bytes) : stanza :=
  match v with Some x => [(tag, x)] | None => [] end.

(* Conflict.as_stanza: rio.Stanza(type=..., path=...) adds its keyword arguments in sorted
   order (path, type); then file_id if not None *)
Definition base_stanza (c : conflict) : stanza :=
  [(T_path, path_of c); (T_type, typestring c)] ++ opt_field T_file_id (fid_of c).

(* None = the real code raises TypeError (rio refuses the value None) *)
Definition as_stanza (c : conflict) : option stanza :=
  match c with
  | CText _ _ => Some (base_stanza c)
  | CPath _ _ cp _ => Some (base_stanza c ++ opt_field T_conflict_path cp)
  | CHandled _ a _ _ => Some (base_stanza c ++ [(T_action, a)])
  | CHandledPath _ a _ cp _ cf =>
      match cp with
      | None => None
      | Some cpv => Some (base_stanza c ++ [(T_action, a)] ++ [(T_conflict_path, cpv)]
                                    ++ opt_field T_conflict_file_id cf)
      end
  end.

(* ConflictList.to_stanzas (a generator: the first failing conflict aborts the write) *)
Fixpoint to_stanzas (cs : list conflict) : option (list stanza) :=
  match cs with
  | [] => Some []
  | c :: cs' => match as_stanza c, to_stanzas cs' with
                | Some s, Some ss => Some (s :: ss)
                | _, _ => None
                end
  end.

(* stanza.as_dict(): the last pair with a tag wins *)
Fixpoint sget (tag : bytes) (s : stanza) : option bytes :=
  match s with
  | [] => None
  | (t, v) :: s' => match sget tag s' with
                    | Some v' => Some v'
                    | None => if bytes_eqb t tag then Some v else None
                    end
  end.

Inductive fres := FOk (c : conflict) | FKeyError | FTypeError.

Definition tags_within (allowed : list bytes) (s : stanza) : bool :=
  forallb (fun kv => existsb (bytes_eqb (fst kv)) (T_type :: allowed)) s.

Inductive anykind := AText | A2 (k : kind2) | A3 (k : kind3) | A4 (k : kind4).
Definition all_kinds : list anykind :=
  [AText; A2 KPath; A2 KContents; A3 KUnversionedParent; A3 KMissingParent; A3 KDeletingParent;
   A3 KNonDirParent; A4 KDuplicateID; A4 KDuplicateEntry; A4 KParentLoop].
Definition ts_any k := match k with AText => s2b "text conflict" | A2 k => ts2 k | A3 k => ts3 k | A4 k => ts4 k end.
(* ctype[type] *)
Definition ctype (t : bytes) : option anykind := find (fun k => bytes_eqb (ts_any k) t) all_kinds.

(* Conflict.factory( **stanza.as_dict() ) = ctype[type]( **kwargs ):
   missing "type" -> TypeError; unknown type -> KeyError; a keyword the constructor does not
   have, or a missing required one -> TypeError *)
Definition of_stanza (s : stanza) : fres :=
  match sget T_type s with
  | None => FTypeError
  | Some t =>
    match ctype t with
    | None => FKeyError
    | Some AText =>
        if tags_within [T_path; T_file_id] s then
          match sget T_path s with
          | Some p => FOk (CText p (sget T_file_id s))
          | None => FTypeError end
        else FTypeError
    | Some (A2 k) =>
        if tags_within [T_path; T_conflict_path; T_file_id] s then
          match sget T_path s with
          | Some p => FOk (CPath k p (sget T_conflict_path s) (sget T_file_id s))
          | None => FTypeError end
        else FTypeError
    | Some (A3 k) =>
        if tags_within [T_action; T_path; T_file_id] s then
          match sget T_action s, sget T_path s with
          | Some a, Some p => FOk (CHandled k a p (sget T_file_id s))
          | _, _ => FTypeError end
        else FTypeError
    | Some (A4 k) =>
        if tags_within [T_action; T_path; T_conflict_path; T_file_id; T_conflict_file_id] s then
          match sget T_action s, sget T_path s, sget T_conflict_path s with
          | Some a, Some p, Some cp =>
              FOk (CHandledPath k a p (Some cp) (sget T_file_id s) (sget T_conflict_file_id s))
          | _, _, _ => FTypeError end
        else FTypeError
    end
  end.

(* ConflictList.from_stanzas: the first failing stanza aborts *)
Fixpoint from_stanzas (ss : list stanza) : option (list conflict) :=
  match ss with
  | [] => Some []
  | s :: ss' => match of_stanza s, from_stanzas ss' with
                | FOk c, Some cs => Some (c :: cs)
                | _, _ => None
                end
  end.

(* ---- environment: bzrformats.rio, write then read of one value.
   A CR that ends a physical line (CR LF inside the value, or CR as the last character) is lost. *)
Fixpoint rio_value (v : bytes) : bytes :=
  match v with
  | [] => []
  | c :: v' => if (c =? 13) && match v' with [] => true | d :: _ => d =? 10 end
               then rio_value v' else c :: rio_value v'
  end.
Definition rio_stanza (s : stanza) : stanza := map (fun kv => (fst kv, rio_value (snd kv))) s.
Definition rio_safe (v : bytes) : bool := bytes_eqb (rio_value v) v.

(* set_conflicts; re-open; conflicts() *)
Definition persist (cs : list conflict) : option (list conflict) :=
  match to_stanzas cs with
  | None => None
  | Some ss => from_stanzas (map rio_stanza ss)
  end.

Definition opt_safe (o : option bytes) : bool := match o with Some v => rio_safe v | None => true end.
Definition conflict_safe (c : conflict) : bool :=
  rio_safe (path_of c) && opt_safe (fid_of c) && opt_safe (cpath_of c) && opt_safe (cfid_of c)
  && opt_safe (action_of c).
Definition writable (c : conflict) : bool :=
  match c with CHandledPath _ _ _ None _ _ => false | _ => true end.

(* ---- osutils.is_inside_any (Rust Path::starts_with): component-wise prefix ---- *)
Definition nonemptyb (b : bytes) : bool := match b with [] => false | _ => true end.
Definition is_dot (b : bytes) : bool := bytes_eqb b [46].
Definition components (p : bytes) : list bytes :=
  let ne := filter nonemptyb (split1 47 p) in
  if prefixb [47] p then [47] :: filter (fun s => negb (is_dot s)) ne
  else match ne with
       | s :: rest => s :: filter (fun s => negb (is_dot s)) rest
       | [] => []
       end.
Fixpoint list_prefixb (a b : list bytes) : bool :=
  match a, b with
  | [], _ => true
  | x :: a', y :: b' => bytes_eqb x y && list_prefixb a' b'
  | _ :: _, [] => false
  end.
Definition is_inside (dir fname : bytes) : bool := list_prefixb (components dir) (components fname).
Definition is_inside_any (dirs : list bytes) (fname : bytes) : bool := existsb (fun d => is_inside d fname) dirs.

(* ---- ConflictList.select_conflicts(tree, paths, ignore_misses=True, recurse) ---- *)
Section Select.
Variable path2id : bytes -> option bytes.     (* tree.path2id *)
Variable paths : list bytes.
Variable recurse : bool.

Definition in_bytes (x : bytes) (l : list bytes) : bool := existsb (bytes_eqb x) l.

(* ids = {tree.path2id(p): p for p in paths if not None}; only its key set matters *)
Definition ids : list bytes :=
  flat_map (fun p => match path2id p with Some i => [i] | None => [] end) paths.

Definition path_hit (cp : bytes) : bool :=
  in_bytes cp paths || (recurse && is_inside_any paths cp).
Definition opt_path_hit (o : option bytes) : bool := match o with Some p => path_hit p | None => false end.
Definition opt_id_hit (o : option bytes) : bool := match o with Some i => in_bytes i ids | None => false end.

(* the body of "for conflict in self": the two key loops *)
Definition selected (c : conflict) : bool :=
  path_hit (path_of c) || opt_path_hit (cpath_of c) || opt_id_hit (fid_of c) || opt_id_hit (cfid_of c).

(* the loop itself, appending to new_conflicts / selected_conflicts *)
Fixpoint select_loop (cs new sel : list conflict) : list conflict * list conflict :=
  match cs with
  | [] => (new, sel)
  | c :: cs' => if selected c then select_loop cs' new (sel ++ [c])
                else select_loop cs' (new ++ [c]) sel
  end.
Definition select_conflicts (cs : list conflict) := select_loop cs [] [].
End Select.

(* set_conflicts(cs); breezy.conflicts.resolve(tree, paths, ignore_misses=True, recursive,
   action="done"); re-open; conflicts().   resolve reads tree.conflicts() (through rio), selects,
   do("done") is a no-op, cleanup only deletes helper files, then set_conflicts(new_conflicts) *)
Definition resolve_done (path2id : bytes -> option bytes) (paths : list bytes) (recurse : bool)
           (cs : list conflict) : option (list conflict) :=
  match persist cs with
  | None => None
  | Some cs1 => persist (fst (select_conflicts path2id paths recurse cs1))
  end.

(* ---- set_merge_modified / merge_modified ---- *)
Definition alist := list (bytes * bytes).
Fixpoint aget (k : bytes) (l : alist) : option bytes :=
  match l with [] => None | (k', v) :: l' => if bytes_eqb k' k then Some v else aget k l' end.
(* d[k] = v on an insertion-ordered dict *)
Fixpoint aset (k v : bytes) (l : alist) : alist :=
  match l with
  | [] => [(k, v)]
  | (k', v') :: l' => if bytes_eqb k' k then (k', v) :: l' else (k', v') :: aset k v l'
  end.

Section MergeModified.
Variable path2id : bytes -> option bytes.   (* tree.path2id *)
Variable id2path : bytes -> option bytes.   (* tree.id2path, None = NoSuchId *)
Variable sha1_of : bytes -> bytes.          (* tree.get_file_sha1(path) *)

(* iter_stanzas(): Stanza(file_id=..., hash=...) for every versioned path *)
Definition mm_stanzas (d : alist) : list (bytes * bytes) :=
  flat_map (fun ph => match path2id (fst ph) with Some i => [(i, snd ph)] | None => [] end) d.

Fixpoint mm_read (ss : list (bytes * bytes)) (acc : alist) : alist :=
  match ss with
  | [] => acc
  | (i, h) :: ss' =>
      match id2path i with
      | None => mm_read ss' acc
      | Some p => if bytes_eqb h (sha1_of p) then mm_read ss' (aset p h acc) else mm_read ss' acc
      end
  end.

(* set_merge_modified(d); re-open; merge_modified() *)
Definition merge_modified_rt (d : alist) : alist :=
  mm_read (map (fun ih => (rio_value (fst ih), rio_value (snd ih))) (mm_stanzas d)) [].
End MergeModified.

(* ---- observations for the correspondence run ---- *)
Definition oob (o : option bytes) : obs := oopt OB o.
Definition obs_conflict (c : conflict) : obs :=
  OL [OB (typestring c); OB (path_of c); oob (fid_of c); oob (action_of c); oob (cpath_of c); oob (cfid_of c)].
Definition obs_conflicts (cs : list conflict) : obs := olist obs_conflict cs.

Definition run_persist (cs : list conflict) : obs :=
  match persist cs with Some cs' => obs_conflicts cs' | None => OE "TypeError" end.

Definition run_factory (s : stanza) : obs :=
  match of_stanza s with
  | FOk c => obs_conflict c
  | FKeyError => OE "KeyError"
  | FTypeError => OE "TypeError"
  end.

Definition run_stanza (c : conflict) : obs :=
  match as_stanza c with
  | Some s => OL [olist (opair OB OB) s; run_factory s]
  | None => OE "TypeError"
  end.

Definition fun_of (m : alist) : bytes -> option bytes := fun k => aget k m.

Definition run_select (p2i : alist) (paths : list bytes) (recurse : bool) (cs : list conflict) : obs :=
  let r := select_conflicts (fun_of p2i) paths recurse cs in
  OL [obs_conflicts (fst r); obs_conflicts (snd r);
      match resolve_done (fun_of p2i) paths recurse cs with
      | Some cs' => obs_conflicts cs' | None => OE "TypeError" end].

Definition inv_alist (m : alist) : alist := map (fun kv => (snd kv, fst kv)) m.
Definition run_merge_modified (p2i shas d : alist) : obs :=
  olist (opair OB OB)
        (merge_modified_rt (fun_of p2i) (fun_of (inv_alist p2i))
                           (fun p => match aget p shas with Some h => h | None => [] end) d).
