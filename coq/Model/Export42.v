(* Model/Export42.v -- hand model of breezy/export.py, breezy/archive/__init__.py,
   breezy/archive/tar.py, breezy/archive/zip.py (C42).

   Python str values (tree paths, roots, destinations, sub-directories) are
   represented by their UTF-8 bytes: startswith / endswith with an ASCII or a
   '/'-terminated argument, slicing by the length of such an argument,
   rstrip("/") and equality commute with UTF-8 encoding.

   The tree is what [tree.iter_entries_by_dir()] yields (environment:
   bzrformats inventory), one [entry] per (path, inventory entry) pair, the
   root entry (path "") included, together with what the tree accessors
   return for that path (get_file_text, is_executable, get_symlink_target,
   get_file_mtime).  tarfile / zipfile / gzip / bz2 / lzma / the file system
   are environment: the model stops at the [TarInfo] / [ZipInfo] records handed
   to them (the correspondence run reads them back out of the real archive). *)
From Coq Require Import ZArith NArith List Bool String.
From BV Require Import Lib.Bytes Lib.Obs Model.Eol.
Import ListNotations.
Open Scope N_scope.

Definition SL : N := 47.                       (* "/" *)

Inductive kind := KFile | KDir | KLink.

Record entry := mkE {
  e_path : bytes;        (* tree path, "" for the root *)
  e_kind : kind;         (* entry.kind *)
  e_content : bytes;     (* backing tree's get_file_text(path) *)
  e_exec : bool;         (* tree.is_executable(path) *)
  e_target : bytes;      (* tree.get_symlink_target(path) *)
  e_mtime : Z;           (* tree.get_file_mtime(path) of a RevisionTree *)
  e_filt : bool          (* does the rules file give this path  eol = crlf  *)
}.

Inductive res (A : Type) := Ok (a : A) | Er (e : string).
Arguments Ok {A} a.
Arguments Er {A} e.

Fixpoint filtermap {A B} (f : A -> option B) (l : list A) : list B :=
  match l with
  | [] => []
  | x :: l' => match f x with Some y => y :: filtermap f l' | None => filtermap f l' end
  end.

(* ---------- string helpers ---------- *)
Definition is_empty (s : bytes) : bool := match s with [] => true | _ => false end.

(* s.split("/"): always at least one field *)
Fixpoint splitc (s : bytes) : list bytes :=
  match s with
  | [] => [[]]
  | c :: s' => if c =? SL then [] :: splitc s'
               else match splitc s' with
                    | h :: t => (c :: h) :: t
                    | [] => [[c]]
                    end
  end.

(* os.path.basename(s) on POSIX; also InventoryEntry.name for a tree path
   (inventory invariant: path = parent path + "/" + name) *)
Definition basename (s : bytes) : bytes := last (splitc s) [].

(* s.rstrip("/") *)
Fixpoint rstrip_sl (s : bytes) : bytes :=
  match s with
  | [] => []
  | c :: s' => match rstrip_sl s' with
               | [] => if c =? SL then [] else [c]
               | r => c :: r
               end
  end.

Definition ends_with_sl (s : bytes) : bool := last s 0 =? SL.

(* osutils.pathjoin(a, b) = Rust PathBuf::from(a).push(b) on Unix (crates/osutils/src/path.rs) *)
Definition pathjoin (a b : bytes) : bytes :=
  match b with
  | c :: _ => if c =? SL then b
              else if is_empty a then b
              else if ends_with_sl a then a ++ b else a ++ SL :: b
  | [] => if is_empty a then [] else if ends_with_sl a then a else a ++ [SL]
  end.

(* ---------- export.py: get_root_name / guess_format ---------- *)
Inductive fmt := FDir | FTar | FTgz | FTbz2 | FTlzma | FTxz | FZip.

Definition b_tar : bytes := [46;116;97;114].
Definition b_tar_gz : bytes := [46;116;97;114;46;103;122].
Definition b_tgz : bytes := [46;116;103;122].
Definition b_tar_bz2 : bytes := [46;116;97;114;46;98;122;50].
Definition b_tbz2 : bytes := [46;116;98;122;50].
Definition b_tar_lzma : bytes := [46;116;97;114;46;108;122;109;97].
Definition b_tar_xz : bytes := [46;116;97;114;46;120;122].
Definition b_zip : bytes := [46;122;105;112].

(* archive/__init__.py: format_registry._extension_map in registration (dict) order *)
Definition extension_map : list (bytes * fmt) :=
  [(b_tar, FTar); (b_tar_gz, FTgz); (b_tgz, FTgz); (b_tar_bz2, FTbz2); (b_tbz2, FTbz2);
   (b_tar_lzma, FTlzma); (b_tar_xz, FTxz); (b_zip, FZip)].

(* for ext in extensions: if dest.endswith(ext): return dest[:-len(ext)] *)
Fixpoint strip_first_ext (exts : list (bytes * fmt)) (dest : bytes) : bytes :=
  match exts with
  | [] => dest
  | (ext, _) :: r => if suffixb ext dest
                     then firstn (List.length dest - List.length ext) dest
                     else strip_first_ext r dest
  end.

Definition get_root_name (dest : bytes) : bytes :=
  if bytes_eqb dest [45] then []               (* dest == "-" *)
  else strip_first_ext extension_map (basename dest).

(* ArchiveFormatRegistry.get_format_from_filename + export.guess_format (default "dir") *)
Fixpoint format_from_filename (exts : list (bytes * fmt)) (filename : bytes) : option fmt :=
  match exts with
  | [] => None
  | (ext, f) :: r => if suffixb ext filename then Some f else format_from_filename r filename
  end.
Definition guess_format (filename : bytes) : fmt :=
  match format_from_filename extension_map filename with Some f => f | None => FDir end.

(* ---------- export.py: _export_iter_entries ---------- *)
Definition dot_bzr : bytes := [46;98;122;114].

(* tree.is_special_path: InventoryTree -> path.startswith(".bzr"); ContentFilterTree
   delegates to its backing tree (since cf2f70e) *)
Definition is_special_path (p : bytes) : bool := prefixb dot_bzr p.

(*  if subdir == "": subdir = None
    if subdir is not None: subdir = subdir.rstrip("/")  *)
Definition norm_subdir (sd : option bytes) : option bytes :=
  match sd with
  | None => None
  | Some s => if is_empty s then None else Some (rstrip_sl s)
  end.

(* the loop body; [sd] is the normalised subdir.  skip_special is True at all
   three call sites; tree.has_filename(path) is True for every inventory path
   of a RevisionTree (and ContentFilterTree delegates it). *)
Definition iter1 (sd : option bytes) (e : entry) : option (bytes * entry) :=
  let path := e_path e in
  if is_empty path then None
  else if is_special_path path then None
  else match sd with
       | Some s =>
           if bytes_eqb path s then
             match e_kind e with
             | KDir => None
             | _ => Some (basename path, e)            (* final_path = entry.name *)
             end
           else if prefixb (s ++ [SL]) path
                then Some (skipn (List.length s + 1) path, e)
                else None
       | None => Some (path, e)
       end.

Definition export_iter_entries (subdir : option bytes) (es : list entry)
  : list (bytes * entry) :=
  filtermap (iter1 (norm_subdir subdir)) es.

(* ---------- tree accessors as seen through ContentFilterTree ---------- *)
(* get_file_text: ContentFilterTree applies the writers of the path's filter stack;
   is_executable, get_symlink_target, get_file_mtime, is_versioned, is_special_path
   are delegated to the backing tree *)
Definition file_text (filtered : bool) (e : entry) : bytes :=
  if filtered && e_filt e then writer Crlf (e_content e) else e_content e.

(* force_mtime if not None else tree.get_file_mtime(path) *)
Definition mtime_of (force : option Z) (e : entry) : Z :=
  match force with
  | Some t => t
  | None => e_mtime e
  end.

(* ---------- archive/tar.py ---------- *)
Inductive ttype := TReg | TDir | TSym.
Record titem := mkT {
  t_name : bytes; t_type : ttype; t_mode : Z; t_content : bytes; t_link : bytes; t_mtime : Z }.

Definition M755 : Z := 493.
Definition M644 : Z := 420.

Definition prepare_tarball_item (filtered : bool) (root : bytes) (force : option Z)
           (fe : bytes * entry) : titem :=
  let final_path := fst fe in
  let e := snd fe in
  let filename := pathjoin root final_path in
  let mt := mtime_of force e in
  match e_kind e with
  | KFile => mkT filename TReg (if e_exec e then M755 else M644) (file_text filtered e) [] mt
  | KDir => mkT (filename ++ [SL]) TDir M755 [] [] mt
  | KLink => mkT filename TSym M755 [] (e_target e) mt
  end.

(* tarball_generator: the members handed to TarFile.addfile, in order
   (tgz/tbz2/txz/tlzma only wrap the stream; tgz_generator's gzip-header mtime is not observed) *)
Definition tarball_items (filtered : bool) (root : bytes) (subdir : option bytes)
           (force : option Z) (es : list entry) : list titem :=
  map (prepare_tarball_item filtered root force) (export_iter_entries subdir es).

(* ---------- archive/zip.py ---------- *)
Record zitem := mkZ { z_name : bytes; z_attr : Z; z_content : bytes; z_mtime : Z }.

Definition FILE_ATTR : Z := 27557888.       (* stat.S_IFREG | (0o644 << 16) = 0x1A48000 *)
Definition EXEC_FILE_ATTR : Z := 32342016.  (* stat.S_IFREG | (0o755 << 16) = 0x1ED8000 (since 552504a) *)
Definition DIR_ATTR : Z := 32325648.        (* stat.S_IFDIR | (1 << 4) | (0o755 << 16) = 0x1ED4010 *)
Definition dot_lnk : bytes := [46;108;110;107].

Definition zip_item (filtered : bool) (root : bytes) (force : option Z)
           (fe : bytes * entry) : zitem :=
  let dp := fst fe in
  let e := snd fe in
  let mt := mtime_of force e in
  let filename := pathjoin root dp in
  match e_kind e with
  | KFile => mkZ filename (if e_exec e then EXEC_FILE_ATTR else FILE_ATTR) (file_text filtered e) mt
  | KDir => mkZ (filename ++ [SL]) DIR_ATTR [] mt
  | KLink => mkZ (filename ++ dot_lnk) FILE_ATTR (e_target e) mt
  end.

Definition zip_items (filtered : bool) (root : bytes) (subdir : option bytes)
           (force : option Z) (es : list entry) : list zitem :=
  map (zip_item filtered root force) (export_iter_entries subdir es).

(* ---------- export.py: dir_exporter_generator ---------- *)
(* what ends up below [dest]: directories and symlinks are created in the first loop, files are
   queued there and written afterwards (mode from is_executable, then os.utime with force_mtime
   or tree.get_file_mtime); [root] is unused *)
Record ditem := mkD {
  d_path : bytes; d_kind : kind; d_exec : bool; d_content : bytes; d_target : bytes;
  d_mtime : option Z (* os.utime is applied to regular files only *) }.

Definition dir_item (filtered : bool) (force : option Z) (fe : bytes * entry) : ditem :=
  let dp := fst fe in
  let e := snd fe in
  match e_kind e with
  | KFile => mkD dp KFile (e_exec e) (file_text filtered e) [] (Some (mtime_of force e))
  | KDir => mkD dp KDir false [] [] None
  | KLink => mkD dp KLink false [] (e_target e) None
  end.

Inductive dest_state := DAbsent | DEmpty | DNonEmpty.

Definition dir_items (filtered : bool) (subdir : option bytes) (force : option Z)
           (pre : dest_state) (es : list entry) : res (list ditem) :=
  match pre with
  | DNonEmpty => Er "BzrError"          (* Can't export tree to non-empty directory *)
  | _ => Ok (map (dir_item filtered force) (export_iter_entries subdir es))
  end.

(* ---------- export.py: export ---------- *)
Inductive output :=
| OutDir (l : list ditem)
| OutTar (f : fmt) (l : list titem)
| OutZip (l : list zitem).

Definition export (es : list entry) (format : option fmt) (dest : bytes) (root subdir : option bytes)
           (per_file_timestamps filtered : bool) (rev_ts now : Z) (pre : dest_state) : res output :=
  let format := match format with Some f => f | None => guess_format dest end in
  let root := match root with Some r => r | None => get_root_name dest end in
  (* tree._repository exists for a RevisionTree, not for a ContentFilterTree *)
  let force := if per_file_timestamps then None else Some (if filtered then now else rev_ts) in
  match format with
  | FDir => match dir_items filtered subdir force pre es with Er x => Er x | Ok l => Ok (OutDir l) end
  | FZip => Ok (OutZip (zip_items filtered root subdir force es))
  | f => Ok (OutTar f (tarball_items filtered root subdir force es))
  end.

(* ======================= specification ======================= *)
(* paths as component lists; a node is what the property compares *)
Definition cpath := list bytes.
Record node := mkN { n_kind : kind; n_content : bytes; n_exec : bool; n_target : bytes }.

Definition node_of (filtered : bool) (e : entry) : node :=
  match e_kind e with
  | KFile => mkN KFile (file_text filtered e) (e_exec e) []
  | KDir => mkN KDir [] false []
  | KLink => mkN KLink [] false (e_target e)
  end.

Definition centry := (cpath * entry)%type.
Definition abstract (e : entry) : centry := (splitc (e_path e), e).

Fixpoint strip_prefix (pre l : cpath) : option cpath :=
  match pre, l with
  | [], _ => Some l
  | x :: pre', y :: l' => if bytes_eqb x y then strip_prefix pre' l' else None
  | _ :: _, [] => None
  end.

Definition special_comps (cs : cpath) : bool :=
  match cs with c :: _ => prefixb dot_bzr c | [] => false end.

Definition is_root (cs : cpath) : bool :=
  match cs with [[]] => true | _ => false end.

(* the path of [ce] relative to the selected sub-directory [sd] (None = whole tree);
   a non-directory named exactly [sd] is exported under its own name *)
Definition spec_rel (sd : option cpath) (ce : centry) : option cpath :=
  match sd with
  | None => Some (fst ce)
  | Some s => match strip_prefix s (fst ce) with
              | Some [] => match e_kind (snd ce) with KDir => None | _ => Some [last (fst ce) []] end
              | Some rel => Some rel
              | None => None
              end
  end.

Definition spec1 (skip_special : bool) (sd : option cpath) (ce : centry) : option (cpath * entry) :=
  if is_root (fst ce) then None
  else if skip_special && special_comps (fst ce) then None
  else option_map (fun r => (r, snd ce)) (spec_rel sd ce).

Definition spec_select (skip_special : bool) (sd : option cpath) (ces : list centry)
  : list (cpath * entry) := filtermap (spec1 skip_special sd) ces.

(* the exported tree: relative paths re-rooted under [rootc] *)
Definition spec_export (filtered skip_special : bool) (rootc : cpath) (sd : option cpath)
           (ces : list centry) : list (cpath * node) :=
  map (fun p => (rootc ++ fst p, node_of filtered (snd p))) (spec_select skip_special sd ces).

(* the sub-tree at [sc] as a tree of its own *)
Definition subtree1 (sc : cpath) (ce : centry) : option centry :=
  match strip_prefix sc (fst ce) with
  | Some [] => None
  | Some rel => Some (rel, snd ce)
  | None => None
  end.
Definition subtree (sc : cpath) (ces : list centry) : list centry := filtermap (subtree1 sc) ces.

(* components of the root as a path prefix *)
Definition root_prefix (root : bytes) : bytes :=
  if is_empty root then [] else if ends_with_sl root then root else root ++ [SL].
Definition root_comps (root : bytes) : cpath :=
  if is_empty root then [] else if ends_with_sl root then removelast (splitc root) else splitc root.

(* reading the records back *)
Definition strip_one_sl (s : bytes) : bytes := if ends_with_sl s then removelast s else s.
Definition tar_decode (t : titem) : cpath * node :=
  match t_type t with
  | TReg => (splitc (t_name t), mkN KFile (t_content t) (Z.eqb (t_mode t) M755) [])
  | TDir => (splitc (strip_one_sl (t_name t)), mkN KDir [] false [])
  | TSym => (splitc (t_name t), mkN KLink [] false (t_link t))
  end.

(* a zip member is a directory iff its name ends in "/"; the Unix mode is
   external_attr >> 16; S_IFLNK there would make it a symlink *)
Definition zip_mode (z : zitem) : Z := Z.shiftr (z_attr z) 16.
Definition zip_decode (z : zitem) : cpath * node :=
  if ends_with_sl (z_name z) then (splitc (removelast (z_name z)), mkN KDir [] false [])
  else if Z.eqb (Z.land (zip_mode z) 61440) 40960
       then (splitc (z_name z), mkN KLink [] false (z_content z))
       else (splitc (z_name z), mkN KFile (z_content z) (negb (Z.eqb (Z.land (zip_mode z) 64) 0)) []).

Definition dir_decode (d : ditem) : cpath * node :=
  (splitc (d_path d),
   match d_kind d with
   | KFile => mkN KFile (d_content d) (d_exec d) []
   | KDir => mkN KDir [] false []
   | KLink => mkN KLink [] false (d_target d)
   end).

(* tree well-formedness (inventory invariants), executable *)
Definition wf_comps (cs : cpath) : bool :=
  match cs with
  | [] => false
  | _ => is_root cs || forallb (fun c => negb (is_empty c)) cs
  end.
Definition wf_entries (es : list entry) : bool :=
  forallb (fun e => wf_comps (splitc (e_path e))) es.

(* ======================= correspondence run ======================= *)
Definition ocontent (c : bytes) : obs :=
  if Nat.leb (List.length c) 64 then OB c else digest c.

Definition okind (k : kind) : obs :=
  OT (match k with KFile => "file" | KDir => "directory" | KLink => "symlink" end)%string.
Definition otype (t : ttype) : obs :=
  OT (match t with TReg => "0" | TDir => "5" | TSym => "2" end)%string.
Definition ofmt (f : fmt) : obs :=
  OT (match f with FDir => "dir" | FTar => "tar" | FTgz => "tgz" | FTbz2 => "tbz2"
               | FTlzma => "tlzma" | FTxz => "txz" | FZip => "zip" end)%string.

Definition otitem (t : titem) : obs :=
  OL [OB (t_name t); otype (t_type t); OZ (t_mode t); ocontent (t_content t); OB (t_link t); OZ (t_mtime t)].
Definition ozitem (z : zitem) : obs :=
  OL [OB (z_name z); OZ (z_attr z); ocontent (z_content z); OZ (z_mtime z)].
Definition oditem (d : ditem) : obs :=
  OL [OB (d_path d); okind (d_kind d); obool (d_exec d); ocontent (d_content d); OB (d_target d);
      oopt OZ (d_mtime d)].

Definition ooutput (r : res output) : obs :=
  match r with
  | Er e => OE e
  | Ok (OutDir l) => OL [OT "dir"%string; olist oditem l]
  | Ok (OutTar f l) => OL [ofmt f; olist otitem l]
  | Ok (OutZip l) => OL [OT "zip"%string; olist ozitem l]
  end.

(* an input entry with run-length encoded content *)
Definition E (path : bytes) (k : kind) (parts : list (N * N)) (x : bool) (target : bytes)
           (mtime : Z) (filt : bool) : entry :=
  mkE path k (expand parts) x target mtime filt.

Definition run_case (es : list entry) (format : option fmt) (dest : bytes) (root subdir : option bytes)
           (pft filtered : bool) (rev_ts : Z) (pre : dest_state) : obs :=
  ooutput (export es format dest root subdir pft filtered rev_ts (-1) pre).

Definition run_root_name (dest : bytes) : obs :=
  OL [OB (get_root_name dest); ofmt (guess_format dest)].
