(* Model/ThreeWayRun.v -- instantiates the generated merge kernels at nat for the
   translator-validation run (Python ints as values). *)
From Coq Require Import List Arith String.
From BV Require Import Lib.Obs Lib.PyPrim Gen.ThreeWay.
Import ListNotations.

Definition winner_obs (w : winner) : obs :=
  OT (match w with W_this => "this" | W_other => "other" | W_conflict => "conflict" end)%string.

Definition run_three_way (b o t : nat) : obs := winner_obs (three_way nat Nat.eqb b o t).
Definition run_lca (b : nat) (lcas : list nat) (o t : nat) (allow : bool) : obs :=
  winner_obs (lca_multi_way nat Nat.eqb (b, lcas) o t allow).
