(* Model/CmdLine.v -- hand model of breezy/cmdline.py (C50).

   Characters are Unicode code points (N); a Python str is a [list N].
   Every definition names the Python it mirrors.  No proofs here.

   _PushbackSequence   -> the two fields [pushback_buffer]/[iter] of [ctx],
                          [seq_next], [pushback]
   _Whitespace/_Quotes/_Backslash/_Word .process -> [process]
   _Backslash.finish   -> [finish]
   Splitter._get_token -> [loop] + [get_token]
   Splitter.__next__ / split -> [tokens] / [splitter] / [split]

   The Python loops are unbounded `for` loops over an iterator that can grow
   (pushback), so the model loops carry an explicit fuel; running out of fuel
   is a distinct result ([None]) that the theorems prove impossible. *)
From Coq Require Import String NArith List Bool Arith.
From BV Require Import Lib.Bytes Lib.Obs.
Import ListNotations.
Open Scope N_scope.

Definition str := list N.

Definition BS : N := 92.   (* backslash *)
Definition DQ : N := 34.   (* double quote *)
Definition SQ : N := 39.   (* single quote *)
Definition SP : N := 32.   (* space *)

(* _whitespace_match = re.compile(backslash-s, re.UNICODE).match on a 1-character
   str: the code points with Py_UNICODE_ISSPACE (CPython 3.12 / Unicode 15). *)
Definition is_ws (c : N) : bool :=
  ((9 <=? c) && (c <=? 13)) || ((28 <=? c) && (c <=? 32)) ||
  (c =? 133) || (c =? 160) || (c =? 5760) ||
  ((8192 <=? c) && (c <=? 8202)) ||
  (c =? 8232) || (c =? 8233) || (c =? 8239) || (c =? 8287) || (c =? 12288).

(* Splitter.__init__: allowed_quote_chars = DQ (+ SQ if single_quotes_allowed) *)
Definition allowed_quote_chars (sq : bool) : str := if sq then [DQ; SQ] else [DQ].
(* next_char in context.allowed_quote_chars *)
Definition allowed (sq : bool) (c : N) : bool := memb c (allowed_quote_chars sq).

(* the state objects; [exit] is the Python attribute exit_state *)
Inductive state :=
| WS
| Word
| Quotes (quote_char : N) (exit : state)
| Backslash (count : nat) (exit : state).

(* the mutable part of the Splitter: token (list of str pieces, joined at the
   end), quoted, and seq = _PushbackSequence(_iter, _pushback_buffer).
   [pushback_buffer] is kept with the END of the Python list first
   (append = cons, pop() = head). *)
Record ctx := Ctx {
  token : list str;
  quoted : bool;
  pushback_buffer : list N;
  iter : str }.

(* context.token.append(p) *)
Definition append (p : str) (k : ctx) : ctx :=
  Ctx (token k ++ [p]) (quoted k) (pushback_buffer k) (iter k).
(* context.quoted = True *)
Definition set_quoted (k : ctx) : ctx :=
  Ctx (token k) true (pushback_buffer k) (iter k).
(* context.seq.pushback(c) *)
Definition pushback (c : N) (k : ctx) : ctx :=
  Ctx (token k) (quoted k) (c :: pushback_buffer k) (iter k).
(* _PushbackSequence.__next__ ; None = StopIteration *)
Definition seq_next (k : ctx) : option (N * ctx) :=
  match pushback_buffer k with
  | c :: b => Some (c, Ctx (token k) (quoted k) b (iter k))
  | [] => match iter k with
          | c :: r => Some (c, Ctx (token k) (quoted k) [] r)
          | [] => None
          end
  end.

(* state.process(next_char, context); the returned [None] is Python's None
   (end of token) *)
Definition process (sq : bool) (st : state) (c : N) (k : ctx) : option state * ctx :=
  match st with
  | WS =>
      if is_ws c then
        (if (0 <? length (token k))%nat then (None, k) else (Some WS, k))
      else if allowed sq c then (Some (Quotes c WS), set_quoted k)
      else if c =? BS then (Some (Backslash 1 WS), k)
      else (Some Word, append [c] k)
  | Quotes q exit =>
      if c =? BS then (Some (Backslash 1 st), k)
      else if c =? q then (Some exit, append [] k)
      else (Some st, append [c] k)
  | Backslash n exit =>
      if c =? BS then (Some (Backslash (S n) exit), k)
      else if allowed sq c then
        let k1 := append (repeat BS (Nat.div2 n)) k in          (* BS * (count // 2) *)
        let k2 := if Nat.odd n then append [c] k1 else pushback c k1 in
        (Some exit, k2)
      else
        let k1 := if (0 <? n)%nat then append (repeat BS n) k else k in
        (Some exit, pushback c k1)
  | Word =>
      if is_ws c then (None, k)
      else if allowed sq c then (Some (Quotes c Word), k)
      else if c =? BS then (Some (Backslash 1 Word), k)
      else (Some Word, append [c] k)
  end.

(* if state is not None and hasattr(state, finish): state.finish(self) *)
Definition finish (ost : option state) (k : ctx) : ctx :=
  match ost with
  | Some (Backslash n _) => if (0 <? n)%nat then append (repeat BS n) k else k
  | _ => k
  end.

(* for next_char in self.seq: state = state.process(...); if state is None: break
   outer None = out of fuel *)
Fixpoint loop (sq : bool) (fuel : nat) (st : state) (k : ctx) : option (option state * ctx) :=
  match fuel with
  | O => None
  | S f =>
      match seq_next k with
      | None => Some (Some st, k)
      | Some (c, k1) =>
          match process sq st c k1 with
          | (None, k2) => Some (None, k2)
          | (Some st', k2) => loop sq f st' k2
          end
      end
  end.

Definition is_nil {A} (l : list A) : bool := match l with [] => true | _ => false end.

Definition fuel_of (k : ctx) : nat := (2 * length (iter k) + length (pushback_buffer k) + 1)%nat.

(* Splitter._get_token: returns ((quoted, result-or-None), context after) *)
Definition get_token (sq : bool) (k : ctx) : option ((bool * option str) * ctx) :=
  let k0 := Ctx [] false (pushback_buffer k) (iter k) in
  match loop sq (fuel_of k0) WS k0 with
  | None => None
  | Some (ost, k1) =>
      let k2 := finish ost k1 in
      let result := concat (token k2) in                      (* empty-str.join(self.token) *)
      Some ((quoted k2,
             if negb (quoted k2) && is_nil result then None else Some result), k2)
  end.

(* [x for x in splitter]: __next__ raises StopIteration at the first None token *)
Fixpoint tokens (sq : bool) (fuel : nat) (k : ctx) : option (list (bool * str)) :=
  match fuel with
  | O => None
  | S f =>
      match get_token sq k with
      | None => None
      | Some ((_, None), _) => Some []
      | Some ((q, Some t), k') =>
          match tokens sq f k' with
          | None => None
          | Some l => Some ((q, t) :: l)
          end
      end
  end.

(* list(Splitter(command_line, single_quotes_allowed)) *)
Definition splitter (sq : bool) (s : str) : option (list (bool * str)) :=
  tokens sq (S (length s)) (Ctx [] false [] s).

(* cmdline.split(unsplit, single_quotes_allowed) *)
Definition split (sq : bool) (s : str) : option (list str) :=
  match splitter sq s with Some l => Some (map snd l) | None => None end.

(* ---- the documented quoting rule (configuring_breezy.txt, the comments in
   _Backslash.process): an argument is wrapped in double quotes; a run of n
   backslashes is written 2n+1 times before a literal DQ, 2n times before the
   closing DQ and (when single quotes are enabled) before a literal SQ,
   and unchanged before anything else.  [n] = backslashes read but not yet written. *)
Fixpoint qbody (sq : bool) (n : nat) (s : str) : str :=
  match s with
  | [] => repeat BS (2 * n)
  | c :: s' =>
      if c =? BS then qbody sq (S n) s'
      else if c =? DQ then repeat BS (2 * n + 1) ++ DQ :: qbody sq 0 s'
      else if sq && (c =? SQ) then repeat BS (2 * n) ++ SQ :: qbody sq 0 s'
      else repeat BS n ++ c :: qbody sq 0 s'
  end.
Definition quote (sq : bool) (s : str) : str := DQ :: qbody sq 0 s ++ [DQ].

(* SP.join(quote(a) for a in args) *)
Definition quote_join (sq : bool) (args : list str) : str := join [SP] (map (quote sq) args).

(* ---- reference notions used by the no-invention / no-loss clauses ---- *)

(* characters that are not part of the quoting syntax *)
Definition ordinary (sq : bool) (c : N) : bool :=
  negb (is_ws c) && negb (allowed sq c) && negb (c =? BS).

(* plain whitespace splitting, Python's s.split() *)
Fixpoint words (cur : str) (s : str) : list str :=
  match s with
  | [] => if is_nil cur then [] else [cur]
  | c :: s' =>
      if is_ws c then (if is_nil cur then words [] s' else cur :: words [] s')
      else words (cur ++ [c]) s'
  end.

(* ---- observations for the correspondence run ---- *)
(* a str is observed as OB (its code points) when they are all < 256 and as a
   list of integers otherwise (the harness does the same) *)
Definition ostr (s : str) : obs :=
  if forallb (fun c => c <? 256) s then OB s else OL (map oN s).
Definition otok (t : bool * str) : obs := OL [obool (fst t); ostr (snd t)].

(* [list(Splitter(s, sq)), split(s, sq) == [t for q, t in list(Splitter(s, sq))]] *)
Definition run_case (sq : bool) (s : str) : obs :=
  match splitter sq s, split sq s with
  | Some l, Some r => OL [OL (map otok l); obool (list_eqb (list_eqb N.eqb) (map snd l) r)]
  | _, _ => OE "OutOfFuel"
  end.

(* [line, split(line, sq)] for line = SP.join(quote(a) for a in args) *)
Definition run_rt (sq : bool) (args : list str) : obs :=
  let line := quote_join sq args in
  match split sq line with
  | Some r => OL [ostr line; OL (map ostr r)]
  | None => OE "OutOfFuel"
  end.

(* the harness batches items of one kind and flag into one case *)
Definition run_cases (sq : bool) (ss : list str) : obs := OL (map (run_case sq) ss).
Definition run_rts (sq : bool) (l : list (list str)) : obs := OL (map (run_rt sq) l).
