(* Model/Transform14.v -- hand model of the TreeTransform bookkeeping, conflict detection,
   conflict resolution, preview tree and (node-level) apply for C14.

   Modelled code:
     breezy/transform.py      TreeTransform.{create_path, adjust_path, delete_contents, cancel_deletion,
                              set_executability, unversion_file, final_kind, final_parent, final_name,
                              path_changed, by_parent}, FinalPaths, resolve_conflicts, conflict_pass,
                              resolve_duplicate_id / _duplicate / _parent_loop / _missing_parent /
                              _unversioned_parent / _non_directory_parent / _versioning_no_contents,
                              _reparent_transform_children, PreviewTree.{_path2trans_id, _all_children,
                              kind, is_executable}
     breezy/bzr/transform.py  TreeTransformBase.{tree_file_id, final_file_id, final_is_versioned,
                              inactive_file_id, find_raw_conflicts, _add_tree_children (its error case),
                              _parent_loops, _unversioned_parents, _improper_versioning,
                              _executability_conflicts, _overwrite_conflicts, _duplicate_entries,
                              _parent_type_conflicts, _new_entry, new_file, new_directory,
                              _get_potential_orphans (default policy)},
                              DiskTreeTransform.{create_file, create_directory, cancel_creation},
                              InventoryTreeTransform.{version_file, cancel_versioning, _duplicate_ids,
                              find_raw_conflicts, apply (node level), _inventory_altered,
                              _generate_inventory_delta}, InventoryPreviewTree.{path2id, extras,
                              _make_inv_entries, iter_entries_by_dir, get_file}
   (the code as of 3ace332: the preview repairs 2ecf5bb, 33f6199 and the resolver repairs 4df7934, 3ace332 included)
   Conventions: trans id k is the Python string "new-k"; every base-tree path has a trans id (entry i of
   [base] has trans id i, entry 0 is the root); ROOT_PARENT is [None] in [option tid]; python dicts are
   insertion-ordered association lists; python sets are duplicate-free lists (only used order-free).
   Environment (validated by the correspondence run): apply_inventory_delta (bzrformats), the working
   tree's get_file/is_executable/extras, the effect of the rename sequence of apply on the disk (node
   level: a node that is not itself renamed stays in its physical parent).
   No proofs here. *)
From Coq Require Import List Bool Arith NArith ZArith String.
From BV Require Import Lib.Bytes Lib.Obs.
Import ListNotations.
Open Scope list_scope.
Open Scope nat_scope.

Definition tid := nat.
Definition fid := nat.
Definition name := list N.
Inductive kind := KFile | KDir.
Definition kind_eqb (a b : kind) : bool :=
  match a, b with KFile, KFile => true | KDir, KDir => true | _, _ => false end.
Definition okind_eqb (a b : option kind) : bool :=
  match a, b with None, None => true | Some x, Some y => kind_eqb x y | _, _ => false end.
Definition onat_eqb (a b : option nat) : bool :=
  match a, b with None, None => true | Some x, Some y => Nat.eqb x y | _, _ => false end.

(* ---- the base (working) tree: entry i has trans id i *)
Record bnode := mkB {
  b_parent : nat; b_name : name; b_kind : kind; b_content : list N; b_exec : bool; b_fid : option fid }.
Definition root_node : bnode := mkB 0 [] KDir [] false (Some 0).

(* ---- dict / set helpers *)
Fixpoint aget {V} (k : nat) (l : list (nat * V)) : option V :=
  match l with [] => None | (k', v) :: l' => if Nat.eqb k' k then Some v else aget k l' end.
Definition ahas {V} (k : nat) (l : list (nat * V)) : bool :=
  match aget k l with Some _ => true | None => false end.
Fixpoint aset {V} (k : nat) (v : V) (l : list (nat * V)) : list (nat * V) :=
  match l with
  | [] => [(k, v)]
  | (k', v') :: l' => if Nat.eqb k' k then (k, v) :: l' else (k', v') :: aset k v l'
  end.
Fixpoint adel {V} (k : nat) (l : list (nat * V)) : list (nat * V) :=
  match l with [] => [] | (k', v) :: l' => if Nat.eqb k' k then l' else (k', v) :: adel k l' end.
Definition memn (k : nat) (l : list nat) : bool := existsb (Nat.eqb k) l.
Definition addn (k : nat) (l : list nat) : list nat := if memn k l then l else l ++ [k].
Definition deln (k : nat) (l : list nat) : list nat := filter (fun x => negb (Nat.eqb k x)) l.

(* ---- the transform *)
Record tt := mkT {
  next_id : nat;
  new_name : list (tid * name);
  new_parent : list (tid * tid);
  new_contents : list (tid * (kind * list N));
  removed_contents : list tid;
  new_id : list (tid * fid);
  removed_id : list tid;
  new_exec : list (tid * bool) }.

Definition init_tt (base : list bnode) : tt := mkT (List.length base) [] [] [] [] [] [] [].

Inductive res (A : Type) := Ok (a : A) | Er (e : string).
Arguments Ok {A}. Arguments Er {A}.
Definition bind {A B} (r : res A) (f : A -> res B) : res B :=
  match r with Ok a => f a | Er e => Er e end.

Section Base.
Variable base : list bnode.

Definition is_tree (x : tid) : bool := x <? List.length base.
Definition tree_kind (x : tid) : option kind := option_map b_kind (nth_error base x).
Definition tree_file_id (x : tid) : option fid :=
  match nth_error base x with Some b => b_fid b | None => None end.
(* get_tree_parent: ROOT_PARENT for the root *)
Definition tree_parent (x : tid) : option tid :=
  if Nat.eqb x 0 then None else option_map b_parent (nth_error base x).
Definition tree_name (x : tid) : name :=
  match nth_error base x with Some b => b_name b | None => [] end.

Definition final_kind (t : tt) (x : tid) : option kind :=
  match aget x (new_contents t) with
  | Some (k, _) => Some k
  | None => if memn x (removed_contents t) then None else tree_kind x
  end.
Definition final_parent (t : tt) (x : tid) : option tid :=
  match aget x (new_parent t) with Some p => Some p | None => tree_parent x end.
Definition final_name (t : tt) (x : tid) : name :=
  match aget x (new_name t) with Some n => n | None => tree_name x end.
Definition final_file_id (t : tt) (x : tid) : option fid :=
  match aget x (new_id t) with
  | Some f => Some f
  | None => if memn x (removed_id t) then None else tree_file_id x
  end.
Definition versioned (t : tt) (x : tid) : bool :=
  match final_file_id t x with Some _ => true | None => false end.
Definition path_changed (t : tt) (x : tid) : bool := ahas x (new_name t) || ahas x (new_parent t).

(* ---- operations (the public TreeTransform API) *)
Definition op_create_path (n : name) (p : tid) (t : tt) : tt * tid :=
  (mkT (S (next_id t)) (new_name t ++ [(next_id t, n)]) (new_parent t ++ [(next_id t, p)])
       (new_contents t) (removed_contents t) (new_id t) (removed_id t) (new_exec t), next_id t).
Definition op_adjust_path (n : name) (p : tid) (x : tid) (t : tt) : res tt :=
  if Nat.eqb x 0 then Er "CantMoveRoot"
  else Ok (mkT (next_id t) (aset x n (new_name t)) (aset x p (new_parent t))
               (new_contents t) (removed_contents t) (new_id t) (removed_id t) (new_exec t)).
Definition op_create (k : kind) (c : list N) (x : tid) (t : tt) : res tt :=
  if ahas x (new_contents t) then Er "DuplicateKey"
  else Ok (mkT (next_id t) (new_name t) (new_parent t) (new_contents t ++ [(x, (k, c))])
               (removed_contents t) (new_id t) (removed_id t) (new_exec t)).
Definition op_cancel_creation (x : tid) (t : tt) : res tt :=
  if ahas x (new_contents t)
  then Ok (mkT (next_id t) (new_name t) (new_parent t) (adel x (new_contents t))
               (removed_contents t) (new_id t) (removed_id t) (new_exec t))
  else Er "KeyError".
Definition op_delete_contents (x : tid) (t : tt) : tt :=
  match tree_kind x with
  | Some _ => mkT (next_id t) (new_name t) (new_parent t) (new_contents t)
                  (addn x (removed_contents t)) (new_id t) (removed_id t) (new_exec t)
  | None => t
  end.
Definition op_cancel_deletion (x : tid) (t : tt) : res tt :=
  if memn x (removed_contents t)
  then Ok (mkT (next_id t) (new_name t) (new_parent t) (new_contents t)
               (deln x (removed_contents t)) (new_id t) (removed_id t) (new_exec t))
  else Er "KeyError".
Definition op_version_file (x : tid) (f : fid) (t : tt) : res tt :=
  if ahas x (new_id t) then Er "DuplicateKey"
  else if existsb (fun kv => Nat.eqb (snd kv) f) (new_id t) then Er "DuplicateKey"
  else Ok (mkT (next_id t) (new_name t) (new_parent t) (new_contents t) (removed_contents t)
               (new_id t ++ [(x, f)]) (removed_id t) (new_exec t)).
Definition op_cancel_versioning (x : tid) (t : tt) : res tt :=
  if ahas x (new_id t)
  then Ok (mkT (next_id t) (new_name t) (new_parent t) (new_contents t) (removed_contents t)
               (adel x (new_id t)) (removed_id t) (new_exec t))
  else Er "KeyError".
Definition op_unversion (x : tid) (t : tt) : tt :=
  mkT (next_id t) (new_name t) (new_parent t) (new_contents t) (removed_contents t)
      (new_id t) (addn x (removed_id t)) (new_exec t).
Definition op_set_exec (e : option bool) (x : tid) (t : tt) : res tt :=
  match e with
  | None => if ahas x (new_exec t)
            then Ok (mkT (next_id t) (new_name t) (new_parent t) (new_contents t) (removed_contents t)
                         (new_id t) (removed_id t) (adel x (new_exec t)))
            else Er "KeyError"
  | Some b => if ahas x (new_exec t) then Er "DuplicateKey"
              else Ok (mkT (next_id t) (new_name t) (new_parent t) (new_contents t) (removed_contents t)
                           (new_id t) (removed_id t) (new_exec t ++ [(x, b)]))
  end.
(* _new_entry + create_* (+ set_executability) *)
Definition op_new (k : kind) (n : name) (p : tid) (c : list N) (f : option fid) (e : option bool)
           (t : tt) : res (tt * tid) :=
  let '(t1, x) := op_create_path n p t in
  bind (match f with Some f' => op_version_file x f' t1 | None => Ok t1 end) (fun t2 =>
  bind (op_create k c x t2) (fun t3 =>
  bind (match e with Some b => op_set_exec (Some b) x t3 | None => Ok t3 end) (fun t4 =>
  Ok (t4, x)))).

Inductive op :=
| OCreatePath (n : name) (p : tid)
| ONewFile (n : name) (p : tid) (c : list N) (f : option fid) (e : option bool)
| ONewDir (n : name) (p : tid) (f : option fid)
| OCreateFile (c : list N) (x : tid)
| OCreateDir (x : tid)
| ODelete (x : tid)
| OAdjust (n : name) (p : tid) (x : tid)
| OVersion (x : tid) (f : fid)
| OUnversion (x : tid)
| OExec (e : option bool) (x : tid)
| OCancelCreation (x : tid)
| OCancelDeletion (x : tid)
| OCancelVersioning (x : tid).

Definition run_op (o : op) (t : tt) : res tt :=
  match o with
  | OCreatePath n p => Ok (fst (op_create_path n p t))
  | ONewFile n p c f e => bind (op_new KFile n p c f e t) (fun r => Ok (fst r))
  | ONewDir n p f => bind (op_new KDir n p [] f None t) (fun r => Ok (fst r))
  | OCreateFile c x => op_create KFile c x t
  | OCreateDir x => op_create KDir [] x t
  | ODelete x => Ok (op_delete_contents x t)
  | OAdjust n p x => op_adjust_path n p x t
  | OVersion x f => op_version_file x f t
  | OUnversion x => Ok (op_unversion x t)
  | OExec e x => op_set_exec e x t
  | OCancelCreation x => op_cancel_creation x t
  | OCancelDeletion x => op_cancel_deletion x t
  | OCancelVersioning x => op_cancel_versioning x t
  end.

(* run the ops; on an exception report its class and the index of the op *)
Fixpoint run_ops (i : nat) (ops : list op) (t : tt) : tt + (string * nat) :=
  match ops with
  | [] => inl t
  | o :: ops' => match run_op o t with Ok t' => run_ops (S i) ops' t' | Er e => inr (e, i) end
  end.

(* ---- by_parent: parent -> children, in first-occurrence order of the parents *)
Definition bp_items (t : tt) : list (tid * option tid) :=
  map (fun kv => (fst kv, Some (snd kv))) (new_parent t)
  ++ map (fun x => (x, final_parent t x)) (seq 0 (List.length base)).
Fixpoint bp_add (p : option tid) (c : tid) (m : list (option tid * list tid))
  : list (option tid * list tid) :=
  match m with
  | [] => [(p, [c])]
  | (q, cs) :: m' => if onat_eqb p q then (q, addn c cs) :: m' else (q, cs) :: bp_add p c m'
  end.
Definition by_parent (t : tt) : list (option tid * list tid) :=
  fold_left (fun m it => bp_add (snd it) (fst it) m) (bp_items t) [].
Fixpoint bp_get (p : option tid) (m : list (option tid * list tid)) : option (list tid) :=
  match m with [] => None | (q, cs) :: m' => if onat_eqb p q then Some cs else bp_get p m' end.

(* ---- raw conflicts *)
Inductive conflict :=
| CUnversionedParent (x : tid)
| CParentLoop (x : tid)
| CDuplicate (last x : tid) (n : name)
| CMissingParent (x : tid)
| CNonDirParent (x : tid)
| CVersioningNoContents (x : tid)
| CUnversionedExec (x : tid)
| CNonFileExec (x : tid)
| COverwrite (x : tid) (n : name)
| CDuplicateId (old x : tid).

(* _unversioned_parents *)
Definition unversioned_parents (t : tt) (bp : list (option tid * list tid)) : list conflict :=
  flat_map (fun pc => match fst pc with
                      | None => []
                      | Some p => if versioned t p then []
                                  else if existsb (versioned t) (snd pc) then [CUnversionedParent p] else []
                      end) bp.

(* _parent_loops: one walk per key of _new_parent; the fuel bounds the size of [seen] *)
Fixpoint loop_walk (t : tt) (fuel : nat) (x : tid) (p : option tid) (seen : list tid) : bool :=
  match fuel with
  | 0 => false
  | S f => match p with
           | None => false
           | Some p' => let seen' := p' :: seen in
                        let q := final_parent t p' in
                        if onat_eqb q (Some x) then true
                        else match q with
                             | Some q' => if memn q' seen' then false else loop_walk t f x q seen'
                             | None => false
                             end
           end
  end.
Definition parent_loops (t : tt) : list conflict :=
  flat_map (fun kv => if loop_walk t (S (next_id t)) (fst kv) (Some (fst kv)) []
                      then [CParentLoop (fst kv)] else []) (new_parent t).

(* sorting: python compares (name, "new-k") tuples; names by code point, trans ids as strings *)
Fixpoint digits_aux (fuel n : nat) (acc : list Z) : list Z :=
  match fuel with
  | 0 => acc
  | S f => if n <? 10 then Z.of_nat n :: acc else digits_aux f (n / 10) (Z.of_nat (n mod 10) :: acc)
  end.
Definition digits (n : nat) : list Z := digits_aux (S n) n [].
Fixpoint lex_leb (a b : list Z) : bool :=
  match a, b with
  | [], _ => true
  | _ :: _, [] => false
  | x :: a', y :: b' => if Z.ltb x y then true else if Z.ltb y x then false else lex_leb a' b'
  end.
Section Sort.
  Context {A : Type} (key : A -> list Z).
  Fixpoint insert_by (a : A) (l : list A) : list A :=
    match l with
    | [] => [a]
    | b :: l' => if lex_leb (key a) (key b) then a :: l else b :: insert_by a l'
    end.
  Definition sort_by (l : list A) : list A := fold_right insert_by [] l.
End Sort.
Definition zname (n : name) : list Z := map Z.of_N n.
Definition name_tid_key (nx : name * tid) : list Z := zname (fst nx) ++ [(-1)%Z] ++ digits (snd nx).

(* _duplicate_entries *)
Fixpoint dup_scan (t : tt) (l : list (name * tid)) (last : option (name * tid)) : list conflict :=
  match l with
  | [] => []
  | (n, x) :: l' =>
      if (match final_kind t x with None => true | Some _ => false end) && negb (versioned t x)
      then dup_scan t l' last
      else (match last with
            | Some (ln, lx) => if bytes_eqb n ln then [CDuplicate lx x n] else []
            | None => []
            end) ++ dup_scan t l' (Some (n, x))
  end.
Definition duplicate_entries (t : tt) (bp : list (option tid * list tid)) : list conflict :=
  match new_name t, new_parent t with
  | [], [] => []
  | _, _ => flat_map (fun pc => dup_scan t (sort_by name_tid_key
                                              (map (fun c => (final_name t c, c)) (snd pc))) None) bp
  end.

(* _parent_type_conflicts *)
Definition parent_type_conflicts (t : tt) (bp : list (option tid * list tid)) : list conflict :=
  flat_map (fun pc => match fst pc with
                      | None => []
                      | Some p =>
                          if existsb (fun c => match final_kind t c with Some _ => true | None => false end)
                                     (snd pc)
                          then match final_kind t p with
                               | None => [CMissingParent p]
                               | Some KDir => []
                               | Some KFile => [CNonDirParent p]
                               end
                          else []
                      end) bp.

Definition improper_versioning (t : tt) : list conflict :=
  flat_map (fun kv => match final_kind t (fst kv) with
                      | None => [CVersioningNoContents (fst kv)]
                      | Some _ => []
                      end) (new_id t).
Definition executability_conflicts (t : tt) : list conflict :=
  flat_map (fun kv => if negb (versioned t (fst kv)) then [CUnversionedExec (fst kv)]
                      else match final_kind t (fst kv) with
                           | Some KFile => []
                           | _ => [CNonFileExec (fst kv)]
                           end) (new_exec t).
Definition overwrite_conflicts (t : tt) : list conflict :=
  flat_map (fun kv => match tree_kind (fst kv) with
                      | None => []
                      | Some _ => if memn (fst kv) (removed_contents t) then []
                                  else [COverwrite (fst kv) (final_name t (fst kv))]
                      end) (new_contents t).
(* the base trans id holding a file id *)
Definition tid_of_fid (f : fid) : option tid :=
  find (fun x => onat_eqb (tree_file_id x) (Some f)) (seq 0 (List.length base)).
Definition duplicate_ids (t : tt) : list conflict :=
  flat_map (fun kv => match tid_of_fid (snd kv) with
                      | Some old => if existsb (fun r => onat_eqb (tree_file_id r) (Some (snd kv)))
                                               (removed_id t)
                                    then [] else [CDuplicateId old (fst kv)]
                      | None => []
                      end) (new_id t).

(* _add_tree_children asks the tree for the stored kind of every tree path in _removed_id: NoSuchFile
   for an unversioned one *)
Definition add_tree_children_fails (t : tt) : bool :=
  existsb (fun x => is_tree x && negb (match tree_file_id x with Some _ => true | None => false end))
          (removed_id t).

Definition raw_conflicts_list (t : tt) : list conflict :=
  let bp := by_parent t in
  unversioned_parents t bp ++ parent_loops t ++ duplicate_entries t bp ++ parent_type_conflicts t bp
  ++ improper_versioning t ++ executability_conflicts t ++ overwrite_conflicts t ++ duplicate_ids t.
Definition raw_conflicts (t : tt) : res (list conflict) :=
  if add_tree_children_fails t then Er "NoSuchFile" else Ok (raw_conflicts_list t).

(* ---- paths *)
Section PathVia.
  Context (parent : nat -> option (option nat * name)).   (* None: broken; (None, _): this is the root *)
  Fixpoint path_via (fuel : nat) (x : nat) : option (list name) :=
    match fuel with
    | 0 => None
    | S f => match parent x with
             | None => None
             | Some (None, _) => Some []
             | Some (Some p, n) => option_map (fun pp => pp ++ [n]) (path_via f p)
             end
    end.
End PathVia.

(* FinalPaths.get_path *)
Definition final_path (t : tt) (x : tid) : option (list name) :=
  path_via (fun y => if Nat.eqb y 0 then Some (None, [])
                     else match final_parent t y with
                          | Some p => Some (Some p, final_name t y)
                          | None => None
                          end) (S (next_id t)) x.
Definition base_path (x : tid) : option (list name) :=
  path_via (fun y => if Nat.eqb y 0 then Some (None, [])
                     else match nth_error base y with
                          | Some b => Some (Some (b_parent b), b_name b)
                          | None => None
                          end) (S (List.length base)) x.
(* a fabricated file id (gen_file_id: name-timestamp-random); the harness maps it to 1000 + trans id *)
Definition gen_fid (x : tid) : fid := 1000 + x.

(* ---- resolvers.  A yielded conflict tuple is (type code, message code, trans ids) *)
Definition rc := list Z.
Definition zt (x : tid) : Z := Z.of_nat x.
Definition moved_suffix : name := [46; 109; 111; 118; 101; 100]%N.   (* ".moved" *)
Definition new_suffix : name := [46; 110; 101; 119]%N.               (* ".new" *)

Definition resolve_one (c : conflict) (t : tt) : res (tt * list rc) :=
  match c with
  | CDuplicateId old x => Ok (op_unversion old t, [[10; 1; zt old; zt x]%Z])
  | CDuplicate last x _ =>
      match final_parent t last with
      | None => Er "Unexpected"
      | Some fp =>
          let '(existing, newf) := if path_changed t last then (x, last) else (last, x) in
          bind (op_adjust_path (final_name t existing ++ moved_suffix) fp existing t) (fun t' =>
          Ok (t', [[3; 2; zt existing; zt newf]%Z]))
      end
  | CParentLoop cur =>
      (* cur is a key of _new_parent: the while loop does not iterate *)
      if path_changed t cur then
        match final_parent t cur with
        | None => Er "Unexpected"
        | Some fp =>
            if is_tree cur then
              match tree_parent cur with
              | Some tp => bind (op_adjust_path (final_name t cur) tp cur t) (fun t' =>
                           Ok (t', [[2; 3; zt cur; zt fp]%Z]))
              | None => Er "Unexpected"
              end
            else Er "KeyError"
        end
      else Er "Unexpected"
  | CMissingParent x =>
      if memn x (removed_contents t)
      then (* _get_potential_orphans: self.by_parent()[dir_id] -- KeyError when an earlier resolver of the
              same pass took the last child away; with the default policy the deletion is always cancelled *)
           match bp_get (Some x) (by_parent t) with
           | None => Er "KeyError"
           | Some _ => bind (op_cancel_deletion x t) (fun t' => Ok (t', [[12; 4; zt x]%Z]))
           end
      else bind (op_create KDir [] x t) (fun t' => Ok (t', [[4; 5; zt x]%Z]))
  | CUnversionedParent x =>
      match tree_file_id x with
      | Some f => bind (op_version_file x f t) (fun t' => Ok (t', [[1; 6; zt x]%Z]))
      | None =>
          (* since 4df7934 / 3ace332: a directory that never had a file id gets a fresh one, fabricated from
             its final NAME (gen_file_id); the final path is not needed, so a pending parent loop is harmless *)
          bind (op_version_file x (gen_fid x) t) (fun t' => Ok (t', [[1; 6; zt x]%Z]))
      end
  | CNonDirParent p =>
      match final_parent t p with
      | None => Er "Unexpected"
      | Some pp =>
          let pfid := final_file_id t p in
          bind (op_new KDir (final_name t p ++ new_suffix) pp [] pfid None t) (fun r =>
          let '(t1, nd) := r in
          match bp_get (Some p) (by_parent t1) with
          | None => Er "KeyError"
          | Some children =>
              bind (fold_left (fun acc c => bind acc (fun t' => op_adjust_path (final_name t' c) nd c t'))
                              children (Ok t1)) (fun t2 =>
              Ok (match pfid with Some _ => op_unversion p t2 | None => t2 end, [[5; 5; zt nd]%Z]))
          end)
      end
  | CVersioningNoContents x => bind (op_cancel_versioning x t) (fun t' => Ok (t', []))
  | _ => Ok (t, [])
  end.

(* conflict_pass: the conflicts were computed before the pass *)
Fixpoint conflict_pass (cs : list conflict) (t : tt) (acc : list rc) : res (tt * list rc) :=
  match cs with
  | [] => Ok (t, acc)
  | c :: cs' => bind (resolve_one c t) (fun r => conflict_pass cs' (fst r) (acc ++ snd r))
  end.

Inductive outcome :=
| Clean (t : tt) (newc : list rc)
| Malformed
| Raised (e : string).

(* resolve_conflicts: [for n in range(fuel)] *)
Fixpoint resolve (fuel : nat) (t : tt) (acc : list rc) : outcome :=
  match fuel with
  | 0 => Malformed
  | S f => match raw_conflicts t with
           | Er e => Raised e
           | Ok [] => Clean t acc
           | Ok cs => match conflict_pass cs t [] with
                      | Er e => Raised e
                      | Ok (t', newc) => resolve f t' (acc ++ newc)
                      end
           end
  end.
Definition resolve_conflicts (t : tt) : outcome := resolve 10 t [].

Fixpoint path_eqb (a b : list name) : bool :=
  match a, b with
  | [], [] => true
  | x :: a', y :: b' => bytes_eqb x y && path_eqb a' b'
  | _, _ => false
  end.
Definition opath_eqb (a : option (list name)) (b : list name) : bool :=
  match a with Some p => path_eqb p b | None => false end.
(* ---- the preview tree *)
(* PreviewTree._path2trans_id: descend from the root through _all_children (= every trans id whose final
   parent is the current one), first child with the right final name *)
Definition all_children (t : tt) (p : tid) : list tid :=
  filter (fun x => onat_eqb (final_parent t x) (Some p)) (seq 0 (next_id t)).
Inductive lookup := LNone | LAmbiguous | LOne (y : tid).
(* a trans id that is neither on disk nor versioned in the end *)
Definition dead (t : tt) (x : tid) : bool :=
  (match final_kind t x with None => true | Some _ => false end) && negb (versioned t x).
(* PreviewTree._path2trans_id (since 33f6199): the first LIVE child with the name; a dead one only when
   nothing else matches.  More than one candidate: the answer of the code depends on the iteration order
   of a set (among dead candidates of the last segment the choice is unobservable). *)
Fixpoint path2tid (t : tt) (segs : list name) (cur : tid) : lookup :=
  match segs with
  | [] => LOne cur
  | s :: segs' =>
      let m := filter (fun c => bytes_eqb (final_name t c) s) (all_children t cur) in
      match filter (fun c => negb (dead t c)) m with
      | [c] => path2tid t segs' c
      | _ :: _ :: _ => LAmbiguous
      | [] => match m with
              | [] => LNone
              | [c] => path2tid t segs' c
              | _ => match segs' with [] => LNone | _ => LAmbiguous end
              end
      end
  end.

Definition unreadable : list Z := [(-2)%Z].
(* InventoryPreviewTree.get_file(path).read() (since 2ecf5bb) for the trans id y the path resolves to:
   new contents from limbo, otherwise the original tree's file at the trans id's OLD path *)
Definition preview_content (t : tt) (y : tid) : list Z :=
  match aget y (new_contents t) with
  | Some (KFile, c) => map Z.of_N c
  | Some (KDir, _) => unreadable
  | None => if memn y (removed_contents t) then unreadable
            else match nth_error base y with
                 | Some b => match b_kind b with KFile => map Z.of_N (b_content b) | KDir => unreadable end
                 | None => unreadable
                 end
  end.
(* PreviewTree.is_executable(path) (since 2ecf5bb): _new_executability, else the mode the entry has in the
   original tree at its old path *)
Definition preview_exec (t : tt) (y : tid) : bool :=
  match aget y (new_exec t) with
  | Some b => b
  | None => match nth_error base y with
            | Some b => match b_kind b with KFile => b_exec b | KDir => false end
            | None => false
            end
  end.

(* a listing row: path bytes ++ [-1; kind; exec; fid+1; -1] ++ content *)
Definition zpath (p : list name) : list Z := zname (join [47%N] p).
Definition zkind (k : option kind) : Z :=
  match k with None => 0 | Some KFile => 1 | Some KDir => 2 end%Z.
Definition zfid (f : option fid) : Z := match f with None => 0%Z | Some f' => Z.of_nat (S f') end.
Definition zbool (b : bool) : Z := if b then 1%Z else 0%Z.
Definition mkrow (p : list name) (k : option kind) (e : Z) (f : option fid) (c : list Z) : list Z :=
  zpath p ++ [(-1)%Z; zkind k; e; zfid f; (-1)%Z] ++ c.

(* the paths the preview tree lists: iter_entries_by_dir (versioned) and extras() *)
Definition base_extra (x : tid) : bool :=
  is_tree x && negb (match tree_file_id x with Some _ => true | None => false end).
Definition preview_paths (t : tt) : list (list name) :=
  flat_map (fun x => match final_path t x with
                     | Some p => if versioned t x
                                 || ((base_extra x || ahas x (new_contents t) || memn x (removed_id t))
                                     && negb (versioned t x))
                                 then [p] else []
                     | None => []
                     end) (seq 0 (next_id t)).
Definition preview_row (t : tt) (p : list name) : list (list Z) :=
  match path2tid t p 0 with
  | LNone => []
  | LAmbiguous => [zpath p ++ [(-1)%Z; (-3)%Z]]
  | LOne y =>
      let k := final_kind t y in
      let f := final_file_id t y in
      match k, f with
      | None, None => []
      | _, _ => [mkrow p k (match k with Some KFile => zbool (preview_exec t y) | _ => 0%Z end) f
                       (match k with Some KFile => preview_content t y | _ => [] end)]
      end
  end.
Fixpoint dedup_rows (l : list (list Z)) : list (list Z) :=
  match l with
  | a :: ((b :: _) as l') => if lex_leb a b && lex_leb b a then dedup_rows l' else a :: dedup_rows l'
  | _ => l
  end.
Definition preview_listing (t : tt) : list (list Z) :=
  dedup_rows (sort_by (fun r => r) (flat_map (preview_row t) (preview_paths t))).

(* ---- apply, node level.  A physical node is (true, x) = the new contents of x (built in limbo) or
   (false, x) = the base node of tree path x. *)
Definition phys := (bool * tid)%type.
Definition enc (n : phys) : nat := if fst n then S (2 * snd n) else 2 * snd n.
Definition dec (k : nat) : phys := (Nat.odd k, k / 2).
(* the node FinalPaths(x) denotes once apply is done *)
Definition tid_node (t : tt) (x : tid) : option phys :=
  if ahas x (new_contents t) then Some (true, x)
  else if memn x (removed_contents t) then None
  else if is_tree x then Some (false, x) else None.
(* where a node ends up: (container, name); None = not in the tree any more *)
Definition container (t : tt) (n : phys) : option (option phys * name) :=
  let x := snd n in
  if fst n then
    match final_parent t x with
    | Some p => match tid_node t p with Some c => Some (Some c, final_name t x) | None => None end
    | None => None
    end
  else if Nat.eqb x 0 then (if memn 0 (removed_contents t) then None else Some (None, []))
  else if memn x (removed_contents t) then None
  else if path_changed t x then
    match final_parent t x with
    | Some p => match tid_node t p with Some c => Some (Some c, final_name t x) | None => None end
    | None => None
    end
  else match tree_parent x with
       | Some p => Some (Some (false, p), tree_name x)     (* stays inside its physical parent *)
       | None => None
       end.
Definition node_path (t : tt) (n : phys) : option (list name) :=
  path_via (fun k => match container t (dec k) with
                     | Some (Some c, nm) => Some (Some (enc c), nm)
                     | Some (None, nm) => Some (None, nm)
                     | None => None
                     end) (S (2 * S (next_id t))) (enc n).
Definition node_kind (t : tt) (n : phys) : option kind :=
  if fst n then option_map fst (aget (snd n) (new_contents t)) else tree_kind (snd n).
Definition node_content (t : tt) (n : phys) : list N :=
  if fst n then match aget (snd n) (new_contents t) with Some (_, c) => c | None => [] end
  else match nth_error base (snd n) with Some b => b_content b | None => [] end.
(* mode: create_file copies the mode of the old file of the same trans id (_set_mode); then
   _set_executability for the keys of _new_executability, addressed by final path *)
Definition node_exec (t : tt) (n : phys) : bool :=
  let x := snd n in
  let dflt := match nth_error base x with
              | Some b => match b_kind b with KFile => b_exec b | KDir => false end
              | None => false
              end in
  match aget x (new_exec t) with
  | Some b => if onat_eqb (option_map enc (tid_node t x)) (Some (enc n)) then b else dflt
  | None => dflt
  end.
Definition all_nodes (t : tt) : list phys :=
  flat_map (fun x => (if is_tree x then [(false, x)] else [])
                     ++ (if ahas x (new_contents t) then [(true, x)] else [])) (seq 0 (next_id t)).

(* apply_deletions fails (rmdir of a non-empty directory) when a node that was neither deleted nor
   renamed sat in a deleted directory *)
Definition late_failure (t : tt) : bool :=
  existsb (fun y => negb (Nat.eqb y 0) && negb (memn y (removed_contents t)) && negb (path_changed t y)
                    && match tree_parent y with Some p => memn p (removed_contents t) | None => false end)
          (seq 0 (List.length base)).

(* the inventory *)
Record ient := mkI { i_parent : option fid; i_name : name; i_kind : kind }.
Definition base_inv_entry (f : fid) : option ient :=
  match tid_of_fid f with
  | Some x => match nth_error base x with
              | Some b => Some (mkI (if Nat.eqb x 0 then None else tree_file_id (b_parent b))
                                    (b_name b) (b_kind b))
              | None => None
              end
  | None => None
  end.
(* _inventory_altered (as a set of trans ids) *)
Definition new_file_id_set (t : tt) : list tid :=
  map fst (filter (fun kv => negb (onat_eqb (Some (snd kv)) (tree_file_id (fst kv)))) (new_id t)).
Definition inventory_altered (t : tt) : list tid :=
  filter (fun x => ahas x (new_name t) || ahas x (new_parent t) || memn x (new_file_id_set t)
                   || ahas x (new_exec t)
                   || (memn x (removed_contents t) && ahas x (new_contents t)
                       && negb (okind_eqb (tree_kind x) (final_kind t x)))
                   || (is_tree x && negb (Nat.eqb x 0)
                       && match tree_parent x with Some p => memn p (new_file_id_set t) | None => false end))
         (seq 0 (next_id t)).
(* _generate_inventory_delta *)
Definition delta_removes (t : tt) : list fid :=
  flat_map (fun x => match tree_file_id x with
                     | Some f => if existsb (fun kv => Nat.eqb (snd kv) f) (new_id t) then [] else [f]
                     | None => []
                     end) (removed_id t).
Definition delta_adds (t : tt) : list (fid * ient) :=
  flat_map (fun x => match final_file_id t x with
                     | None => []
                     | Some f =>
                         match (match final_kind t x with
                                | Some k => Some k
                                | None => option_map i_kind (base_inv_entry f)
                                end) with
                         | None => []
                         | Some k => [(f, mkI (match final_parent t x with
                                               | Some p => final_file_id t p
                                               | None => None
                                               end) (final_name t x) k)]
                         end
                     end) (inventory_altered t).
(* apply_inventory_delta (bzrformats): old entries of deleted / re-added ids go, new entries come *)
Definition applied_inv_entry (t : tt) (f : fid) : option ient :=
  match aget f (delta_adds t) with
  | Some e => Some e
  | None => if memn f (delta_removes t) then None else base_inv_entry f
  end.
Definition all_fids (t : tt) : list fid :=
  flat_map (fun x => match tree_file_id x with Some f => [f] | None => [] end) (seq 0 (List.length base))
  ++ map snd (new_id t).
(* apply_inventory_delta (dirstate update_by_delta) refuses a delta in which a written entry has no
   directory parent or two entries share parent and name (InconsistentDelta; raised after the files were
   moved).  Entries the delta does not mention follow their parent; below a parent that is no directory
   any more they are dropped silently. *)
Definition ient_sibling_eqb (a b : ient) : bool :=
  onat_eqb (i_parent a) (i_parent b) && bytes_eqb (i_name a) (i_name b).
Definition parent_is_dir (t : tt) (e : ient) : bool :=
  match i_parent e with
  | None => true
  | Some g => match applied_inv_entry t g with
              | Some pe => kind_eqb (i_kind pe) KDir
              | None => false
              end
  end.
Definition written (t : tt) (f : fid) : bool := ahas f (delta_adds t).
Definition inv_inconsistent (t : tt) : bool :=
  existsb (fun f => match applied_inv_entry t f with
                    | None => false
                    | Some e =>
                        (written t f && negb (parent_is_dir t e))
                        || existsb (fun f' => negb (Nat.eqb f f')
                                              && match applied_inv_entry t f' with
                                                 | Some e' => ient_sibling_eqb e e'
                                                 | None => false
                                                 end) (all_fids t)
                    end) (all_fids t).
Definition inv_after (t : tt) (f : fid) : option ient :=
  if inv_inconsistent t then base_inv_entry f
  else match applied_inv_entry t f with
       | Some e => if written t f || parent_is_dir t e then Some e else None
       | None => None
       end.
Definition inv_path (t : tt) (f : fid) : option (list name) :=
  path_via (fun g => match inv_after t g with
                     | Some e => Some (i_parent e, i_name e)
                     | None => None
                     end) (S (List.length (all_fids t))) f.

(* _generate_inventory_delta looks up the tree path of every member of _removed_id: KeyError for a trans
   id that has none (raised before anything is touched) *)
Definition delta_fails (t : tt) : bool := existsb (fun x => negb (is_tree x)) (removed_id t).
Definition apply_status (t : tt) : option string :=
  if delta_fails t then Some "KeyError"%string
  else if inv_inconsistent t then Some "InconsistentDelta"%string
  else if late_failure t then Some "OSError"%string else None.

(* the working tree after apply: every disk node and every inventory entry, joined by path *)
Definition applied_listing (t : tt) : list (list Z) :=
  let disk := flat_map (fun n => match node_path t n with
                                 | Some p => [(p, n)]
                                 | None => []
                                 end) (all_nodes t) in
  let inv := flat_map (fun f => match inv_path t f with Some p => [(p, f)] | None => [] end)
                      (all_fids t) in
  let fid_at p := option_map snd (find (fun pf => path_eqb (fst pf) p) inv) in
  let disk_rows := map (fun pn => let '(p, n) := pn in
                                  let k := node_kind t n in
                                  mkrow p k (match k with Some KFile => zbool (node_exec t n) | _ => 0%Z end)
                                        (fid_at p)
                                        (match k with Some KFile => map Z.of_N (node_content t n) | _ => [] end))
                       disk in
  let inv_rows := flat_map (fun pf => if existsb (fun pn => path_eqb (fst pn) (fst pf)) disk then []
                                      else [mkrow (fst pf) None 0%Z (Some (snd pf)) []]) inv in
  dedup_rows (sort_by (fun r => r) (disk_rows ++ inv_rows)).

(* ---- observation *)
Definition conflict_row (c : conflict) : list Z :=
  match c with
  | CUnversionedParent x => [1; zt x]
  | CParentLoop x => [2; zt x]
  | CDuplicate l x n => [3; zt l; zt x; -1] ++ zname n
  | CMissingParent x => [4; zt x]
  | CNonDirParent x => [5; zt x]
  | CVersioningNoContents x => [6; zt x]
  | CUnversionedExec x => [7; zt x]
  | CNonFileExec x => [8; zt x]
  | COverwrite x n => [9; zt x; -1] ++ zname n
  | CDuplicateId o x => [10; zt o; zt x]
  end%Z.
Definition orows (l : list (list Z)) : obs := OL (map (fun r => OL (map OZ r)) l).
Definition osorted (l : list (list Z)) : obs := orows (dedup_rows (sort_by (fun r => r) l)).

Definition run_from (t : tt) : obs :=
  match raw_conflicts t with
  | Er e => OL [OT "ok"; OE e]
  | Ok raw0 =>
      let o0 := osorted (map conflict_row raw0) in
      match resolve_conflicts t with
      | Malformed => OL [OT "ok"; o0; OE "MalformedTransform"; OT "untouched"]
      | Raised e => OL [OT "ok"; o0; OE e; OT "untouched"]
      | Clean t' newc =>
          OL [OT "ok"; o0; OT "clean"; osorted newc;
              osorted (map conflict_row (raw_conflicts_list t'));
              orows (preview_listing t');
              (match apply_status t' with Some e => OE e | None => OT "applied" end);
              orows (if delta_fails t' then applied_listing (init_tt base) else applied_listing t')]
      end
  end.
End Base.

Definition run_case (base0 : list bnode) (ops : list op) : obs :=
  let base := root_node :: base0 in
  match run_ops base 0 ops (init_tt base) with
  | inr (e, i) => OL [OE e; OZ (Z.of_nat i)]
  | inl t => run_from base t
  end.
