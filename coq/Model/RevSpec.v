(* Model/RevSpec.v -- hand model of revision numbers, dotted revision numbers
   and revision specifiers (C22), on Lib/Dag + Lib/DagMergeSort.

   breezy/bzr/branch.py (a 2a branch is a BzrBranch7 <= BzrBranch8):
     BzrBranch8.get_rev_id                     -> get_rev_id
     BzrBranch8.revision_id_to_revno           -> revision_id_to_revno
   breezy/branch.py:
     Branch._gen_revno_map                     -> revno_map          (dict comprehension)
     Branch._do_dotted_revno_to_revision_id    -> dotted_revno_to_revision_id  (list filter over .items())
     Branch._do_revision_id_to_dotted_revno    -> revision_id_to_dotted_revno
     Branch.iter_merge_sorted_revisions        -> iter_merge_sorted_revisions
     Branch._filter_merge_sorted_revisions     -> filter_merge_sorted
     Branch._filter_start_non_ancestors        -> filter_start_non_ancestors
   breezy/revisionspec.py:
     RevisionInfo, RevisionSpec._match_on_and_check, RevisionSpec_revno / _dwim
     (numbers), _revid, _last, _before, _tag, _ancestor, _mainline
                                               -> match_on / in_history / as_revision_id

   A branch is (graph, tip, tags); its recorded revno is the length of the
   left-hand history of the tip (a consistent branch without a ghost on its
   left-hand history: hypothesis of this model, established by C21).  The
   revision caches of the Branch object (_partial_revision_history_cache,
   _revision_id_to_revno_cache, ...) are not modelled: they do not change
   results (the harness asks several questions of one Branch object).

   Environment (compiled vcsgraph, validated by the correspondence run):
     KnownGraph.merge_sort     = Lib/DagMergeSort.merge_sort
     iter_lefthand_ancestry    = Lib/Dag.lefthand
     Graph.find_unique_lca     = find_unique_lca   (iterated heads of the common ancestors)
     Graph.find_lefthand_merger= find_lefthand_merger
     Graph.find_unique_ancestors = Lib/Dag.find_unique_ancestors
   No proofs here. *)
From Coq Require Import String List Arith Bool ZArith.
From BV Require Import Lib.Obs Lib.Dag Lib.DagMergeSort.
Import ListNotations.

Inductive error :=
| NoSuchRevision | RevnoOutOfBounds | InvalidRevisionSpec | NoSuchTag | NoCommits
| NoCommonAncestor.
Inductive result (A : Type) := Ok (a : A) | Err (e : error).
Arguments Ok {A} a.
Arguments Err {A} e.

Definition bind {A B} (r : result A) (f : A -> result B) : result B :=
  match r with Ok a => f a | Err e => Err e end.

(* tags: name (a number n stands for the tag "t<n>") -> revision id *)
Record branch := mkBr { br_g : dag; br_tip : option revid; br_tags : list (nat * revid) }.

(* iter_lefthand_ancestry(tip, (NULL,)): newest first *)
Definition lh (b : branch) : list revid := lefthand_opt (br_g b) (br_tip b).
(* last_revision_info()[0] of a consistent branch *)
Definition last_revno (b : branch) : nat := length (lh b).
(* Branch._revision_history(): oldest first *)
Definition history (b : branch) : list revid := rev (lh b).

(* ---- mainline numbers ----------------------------------------------------- *)

(* BzrBranch8.get_rev_id(revno); None = "null:" *)
Definition get_rev_id (b : branch) (n : Z) : result (option revid) :=
  if (n =? 0)%Z then Ok None
  else if (n <=? 0)%Z || (Z.of_nat (last_revno b) <? n)%Z then Err RevnoOutOfBounds
  else
    (* index = last_revno - revno into the partial history cache (newest first) *)
    match nth_error (lh b) (last_revno b - Z.to_nat n) with
    | Some r => Ok (Some r)
    | None => Err NoSuchRevision
    end.

(* list.index *)
Fixpoint index_of (x : revid) (l : list revid) : option nat :=
  match l with
  | [] => None
  | y :: l' => if y =? x then Some 0 else option_map S (index_of x l')
  end.

(* BzrBranch8.revision_id_to_revno: position in the left-hand history *)
Definition revision_id_to_revno (b : branch) (r : option revid) : result nat :=
  match r with
  | None => Ok 0
  | Some r => match index_of r (lh b) with
              | Some i => Ok (last_revno b - i)
              | None => Err NoSuchRevision
              end
  end.

(* ---- iter_merge_sorted_revisions ---------------------------------------------- *)

Definition ms4 := (ms_entry * bool)%type.         (* (key, depth, revno), end_of_merge *)
Definition m_id (e : ms4) : revid := e_id (fst e).
Definition m_depth (e : ms4) : nat := e_depth (fst e).
Definition m_revno (e : ms4) : revno := e_revno (fst e).

Inductive stop_rule := Exclude | Include | WithMerges | WithMergesNoCommon.

(* skip to the start revision (which stays in the iterator) *)
Fixpoint drop_until (start : revid) (l : list ms4) : list ms4 :=
  match l with
  | [] => []
  | e :: l' => if m_id e =? start then l else drop_until start l'
  end.
Fixpoint take_excl (stop : revid) (l : list ms4) : list ms4 :=
  match l with
  | [] => []
  | e :: l' => if m_id e =? stop then [] else e :: take_excl stop l'
  end.
Fixpoint take_incl (stop : revid) (l : list ms4) : list ms4 :=
  match l with
  | [] => []
  | e :: l' => if m_id e =? stop then [e] else e :: take_incl stop l'
  end.

(* stop_rule == 'with-merges': the loop after left_parent has been computed.
   rev.parent_ids = parents g (ghosts included, no null) *)
Fixpoint with_merges_loop (g : dag) (stop : revid) (left_parent : option revid)
         (reached : bool) (whitelist : list revid) (l : list ms4) : list ms4 :=
  match l with
  | [] => []
  | e :: l' =>
      if match left_parent with Some p => m_id e =? p | None => false end then []
      else if negb reached || memb (m_id e) whitelist then
        if (reached || (m_id e =? stop)) && negb (match parents g (m_id e) with [] => true | _ => false end)
        then e :: with_merges_loop g stop left_parent true (whitelist ++ parents g (m_id e)) l'
        else e :: with_merges_loop g stop left_parent reached whitelist l'
      else with_merges_loop g stop left_parent reached whitelist l'
  end.

Definition filter_merge_sorted (g : dag) (ms : list ms4) (start stop : option revid) (rule : stop_rule)
  : list ms4 :=
  let l := match start with None => ms | Some s => drop_until s ms end in
  match stop with
  | None => l
  | Some st =>
      match rule with
      | Exclude => take_excl st l
      | Include => take_incl st l
      | WithMergesNoCommon =>
          (* graph.find_unique_ancestors(start_revision_id, [stop_revision_id]);
             callers always give a start revision with this rule *)
          match start with
          | Some s => filter (fun e => memb (m_id e) (find_unique_ancestors g s [st])) l
          | None => []
          end
      | WithMerges =>
          with_merges_loop g st (match parents g st with p :: _ => Some p | [] => None end) false [] l
      end
  end.

(* whitelist.remove(rev_id) *)
Definition remove_id (x : revid) (l : list revid) : list revid := filter (fun y => negb (y =? x)) l.

Fixpoint fsna_loop (g : dag) (clean : bool) (whitelist : list revid) (l : list ms4) : list ms4 :=
  match l with
  | [] => []
  | e :: l' =>
      if clean then e :: fsna_loop g true whitelist l'
      else if memb (m_id e) whitelist then
        e :: fsna_loop g (m_depth e =? 0) (remove_id (m_id e) whitelist ++ parents g (m_id e)) l'
      else fsna_loop g false whitelist l'
  end.

(* get_parent_map gives a root the parent tuple ("null:",), so the
   "no parents" return of the code is dead; an empty whitelist filters
   everything out, which is what the live path does for a root as well *)
Definition filter_start_non_ancestors (g : dag) (l : list ms4) : list ms4 :=
  match l with
  | [] => []
  | first :: rest =>
      if m_depth first =? 0 then first :: rest
      else first :: fsna_loop g false (parents g (m_id first)) rest
  end.

Definition iter_merge_sorted_revisions (b : branch) (start stop : option revid) (rule : stop_rule)
           (forward : bool) : list ms4 :=
  let filtered := filter_start_non_ancestors (br_g b)
                    (filter_merge_sorted (br_g b) (merge_sort (br_g b) (br_tip b)) start stop rule) in
  if forward then rev filtered else filtered.

(* ---- the revno map and the dotted lookups --------------------------------------- *)

(* d[k] = v on an insertion-ordered dict *)
Fixpoint dict_set (k : revid) (v : revno) (m : list (revid * revno)) : list (revid * revno) :=
  match m with
  | [] => [(k, v)]
  | (k', v') :: m' => if k' =? k then (k, v) :: m' else (k', v') :: dict_set k v m'
  end.
Fixpoint dict_get (k : revid) (m : list (revid * revno)) : option revno :=
  match m with
  | [] => None
  | (k', v) :: m' => if k' =? k then Some v else dict_get k m'
  end.

(* {rev_id: revno for rev_id, depth, revno, end_of_merge in <merge sorted list>} *)
Definition revno_map_of (l : list ms4) : list (revid * revno) :=
  fold_left (fun m e => dict_set (m_id e) (m_revno e) m) l [].

(* [revision_id for revision_id, this_revno in map.items() if revno == this_revno];
   exactly one -> it, otherwise NoSuchRevision *)
Definition ids_with_revno (m : list (revid * revno)) (d : revno) : list revid :=
  map fst (filter (fun kv => revno_eqb d (snd kv)) m).
Definition lookup_dotted (m : list (revid * revno)) (d : revno) : result revid :=
  match ids_with_revno m d with
  | [r] => Ok r
  | _ => Err NoSuchRevision
  end.

Definition revno_map (b : branch) : list (revid * revno) :=
  revno_map_of (iter_merge_sorted_revisions b None None Exclude false).

(* _do_dotted_revno_to_revision_id *)
Definition dotted_revno_to_revision_id (b : branch) (d : revno) : result (option revid) :=
  match d with
  | [n] => get_rev_id b (Z.of_nat n)
  | _ => bind (lookup_dotted (revno_map b) d) (fun r => Ok (Some r))
  end.

(* _do_revision_id_to_dotted_revno: the mainline first, then the map *)
Definition revision_id_to_dotted_revno (b : branch) (r : option revid) : result revno :=
  match revision_id_to_revno b r with
  | Ok n => Ok [n]
  | Err _ =>
      match r with
      | Some r' => match dict_get r' (revno_map b) with
                   | Some d => Ok d
                   | None => Err NoSuchRevision
                   end
      | None => Err NoSuchRevision
      end
  end.

(* ---- graph queries of the specifiers ----------------------------------------------- *)

(* Graph.find_lca(keys...): the heads of the common ancestors *)
Definition common_ancestors (g : dag) (keys : list revid) : list revid :=
  filter (fun x => forallb (fun k => is_ancestor g x k) keys) (ancestors g keys).
Definition find_lca (g : dag) (keys : list revid) : list revid := heads g (common_ancestors g keys).

(* Graph.find_unique_lca: repeat find_lca until one is left; None = "null:" *)
Fixpoint unique_lca_fuel (g : dag) (fuel : nat) (keys : list revid) : option revid :=
  match fuel with
  | 0 => None
  | S f => match find_lca g keys with
           | [] => None
           | [x] => Some x
           | l => unique_lca_fuel g f l
           end
  end.
Definition find_unique_lca (g : dag) (a b : revid) : option revid :=
  unique_lca_fuel g (S (S (length g))) [a; b].

(* Graph.find_lefthand_merger(merged, tip): walk the left-hand history of the
   tip while the candidate descends from merged; the last such candidate *)
Fixpoint merger_walk (g : dag) (m : revid) (l : list revid) (last : option revid) : option revid :=
  match l with
  | [] => last
  | c :: rest => if is_ancestor g m c then merger_walk g m rest (Some c) else last
  end.
Definition find_lefthand_merger (g : dag) (m : revid) (tip : option revid) : option revid :=
  merger_walk g m (lefthand_opt g tip) None.

(* ---- specifiers ------------------------------------------------------------------------ *)

Inductive spec :=
| SRevno (n : Z)               (* "revno:n", "n", "-n" *)
| SDotted (d : revno)          (* "a.b.c" (at least two components) *)
| SRevid (r : revid)           (* "revid:..." *)
| SLast (n : option Z)         (* "last:n", "last:" *)
| SBefore (s : spec)           (* "before:..." *)
| STag (t : nat)               (* "tag:t<n>" *)
| SAncestor (other : option revid)   (* "ancestor:<branch whose tip is other>" *)
| SMainline (s : spec)         (* "mainline:..." *)
| SRevnoAt (n : Z) (other : option revid).
                               (* "revno:n:<location of a branch whose tip is other>": the number is
                                  resolved in THAT branch (RevisionSpec_revno._lookup opens it) *)

(* RevisionInfo: (revno, rev_id); the revno may be absent (computed lazily) *)
Definition info := (option nat * option revid)%type.

Definition catch_invalid {A} (r : result A) : result A :=
  match r with
  | Err NoSuchRevision | Err RevnoOutOfBounds => Err InvalidRevisionSpec
  | _ => r
  end.

Fixpoint tag_lookup (t : nat) (tags : list (nat * revid)) : option revid :=
  match tags with
  | [] => None
  | (t', r) :: rest => if t' =? t then Some r else tag_lookup t rest
  end.

(* RevisionSpec_revno._lookup for a plain number *)
Definition lookup_revno (b : branch) (n : Z) : result (nat * option revid) :=
  let last := Z.of_nat (last_revno b) in
  let n' := if (n <? 0)%Z then (if (last <=? - n)%Z then 1%Z else (last + n + 1)%Z) else n in
  bind (catch_invalid (get_rev_id b n')) (fun r => Ok (Z.to_nat n', r)).

(* RevisionSpec_last._revno_and_revision_id *)
Definition lookup_last (b : branch) (n : option Z) : result (nat * option revid) :=
  match n with
  | None => if last_revno b =? 0 then Err NoCommits else Ok (last_revno b, br_tip b)
  | Some off =>
      if (off <=? 0)%Z then Err InvalidRevisionSpec
      else let n' := (Z.of_nat (last_revno b) - off + 1)%Z in
           bind (catch_invalid (get_rev_id b n')) (fun r => Ok (Z.to_nat n', r))
  end.

(* RevisionSpec_ancestor._find_revision_id *)
Definition lookup_ancestor (b : branch) (other : option revid) : result revid :=
  match br_tip b, other with
  | None, _ => Err NoCommits
  | _, None => Err NoCommits
  | Some a, Some o => match find_unique_lca (br_g b) a o with
                      | Some r => Ok r
                      | None => Err NoCommonAncestor
                      end
  end.

(* spec._as_revision_id(branch) *)
Fixpoint as_revision_id (b : branch) (s : spec) : result (option revid) :=
  match s with
  | SRevno n => bind (lookup_revno b n) (fun p => Ok (snd p))
  | SDotted d => catch_invalid (dotted_revno_to_revision_id b d)
  | SRevid r => Ok (Some r)
  | SLast n => bind (lookup_last b n) (fun p => Ok (snd p))
  | SBefore s' =>
      bind (as_revision_id b s') (fun base =>
        match base with
        | None => Err InvalidRevisionSpec                (* cannot go before the null: revision *)
        | Some r =>
            if present (br_g b) r
            then match parents (br_g b) r with
                 | [] => Ok None                          (* the parent map of a root is ("null:",) *)
                 | p :: _ => Ok (Some p)
                 end
            else Err InvalidRevisionSpec                  (* ghost or unknown revision id *)
        end)
  | STag t => match tag_lookup t (br_tags b) with Some r => Ok (Some r) | None => Err NoSuchTag end
  | SAncestor o => bind (lookup_ancestor b o) (fun r => Ok (Some r))
  | SRevnoAt n o => bind (lookup_revno (mkBr (br_g b) o (br_tags b)) n) (fun p => Ok (snd p))
  | SMainline s' =>
      bind (as_revision_id b s') (fun r =>
        match r with
        | None => Ok None       (* "null:" ends every left-hand history: find_lefthand_merger gives it back *)
        | Some r' => match find_lefthand_merger (br_g b) r' (br_tip b) with
                     | Some m => Ok (Some m)
                     | None => Err InvalidRevisionSpec
                     end
        end)
  end.

(* RevisionInfo.revno: given, or computed from the id (None when not on the mainline) *)
Definition info_revno (b : branch) (i : info) : option nat :=
  match fst i with
  | Some n => Some n
  | None => match revision_id_to_revno b (snd i) with Ok n => Some n | Err _ => None end
  end.

(* RevisionInfo.__bool__: repository.has_revision(rev_id) ("null:" is always there) *)
Definition info_valid (b : branch) (i : info) : bool :=
  match snd i with None => true | Some r => present (br_g b) r end.

(* spec._match_on(branch, None) *)
Fixpoint match_on (b : branch) (s : spec) : result info :=
  match s with
  | SRevno n =>
      (* a bare number goes through RevisionSpec_dwim, which runs in_history
         of RevisionSpec_revno: the same result for a valid number *)
      bind (lookup_revno b n) (fun p => Ok (Some (fst p), snd p))
  | SDotted d => bind (catch_invalid (dotted_revno_to_revision_id b d)) (fun r => Ok (None, r))
  | SRevid r => Ok (None, Some r)
  | SLast n => bind (lookup_last b n) (fun p => Ok (Some (fst p), snd p))
  | SBefore s' =>
      bind (match_on b s') (fun r =>
        match info_revno b r with
        | Some 0 => Err InvalidRevisionSpec
        | None =>
            (* branch.repository.get_revision(r.rev_id).parent_ids *)
            match snd r with
            | None => Err NoSuchRevision
            | Some x => if present (br_g b) x
                        then Ok (None, match parents (br_g b) x with [] => None | p :: _ => Some p end)
                        else Err NoSuchRevision
            end
        | Some (S n) =>
            bind (catch_invalid (get_rev_id b (Z.of_nat n))) (fun x => Ok (Some n, x))
        end)
  | STag t => match tag_lookup t (br_tags b) with Some r => Ok (None, Some r) | None => Err NoSuchTag end
  | SAncestor o => bind (lookup_ancestor b o) (fun r => Ok (None, Some r))
  | SRevnoAt n o => bind (lookup_revno (mkBr (br_g b) o (br_tags b)) n) (fun p => Ok (Some (fst p), snd p))
  | SMainline s' => bind (as_revision_id b (SMainline s')) (fun r => Ok (None, r))
  end.

(* spec.in_history(branch) = _match_on_and_check; observed as (revno, rev_id) *)
Definition in_history (b : branch) (s : spec) : result info :=
  bind (match_on b s) (fun i =>
    if info_valid b i then Ok (info_revno b i, snd i) else Err InvalidRevisionSpec).

(* ---- observations ------------------------------------------------------------------------ *)

Definition err_name (e : error) : string :=
  match e with
  | NoSuchRevision => "NoSuchRevision" | RevnoOutOfBounds => "RevnoOutOfBounds"
  | InvalidRevisionSpec => "InvalidRevisionSpec" | NoSuchTag => "NoSuchTag"
  | NoCommits => "NoCommits" | NoCommonAncestor => "NoCommonAncestor"
  end.
Definition ores {A} (f : A -> obs) (r : result A) : obs :=
  match r with Ok a => f a | Err e => OE (err_name e) end.
Definition orev (r : option revid) : obs := oopt onat r.     (* None = "null:" *)
Definition orevno (d : revno) : obs := olist onat d.
Definition oms4 (e : ms4) : obs := OL [onat (m_id e); onat (m_depth e); orevno (m_revno e); obool (snd e)].

(* kind "ms": KnownGraph.merge_sort through iter_merge_sorted_revisions() *)
Definition run_ms (g : dag) (tip : option revid) : obs := olist oms4 (merge_sort g tip).

(* kind "iter": iter_merge_sorted_revisions(start, stop, rule, direction) *)
Definition run_iter (g : dag) (tip : option revid) (start stop : option revid) (rule : stop_rule)
           (forward : bool) : obs :=
  olist oms4 (iter_merge_sorted_revisions (mkBr g tip []) start stop rule forward).

(* kind "num": for every revision r of the list: revision_id_to_revno,
   revision_id_to_dotted_revno; for every number / dotted revno: get_rev_id,
   dotted_revno_to_revision_id *)
Definition run_num (g : dag) (tip : option revid) (rs : list revid) (ns : list Z) (ds : list revno) : obs :=
  let b := mkBr g tip [] in
  OL [ olist (fun r => OL [ores onat (revision_id_to_revno b (Some r));
                           ores orevno (revision_id_to_dotted_revno b (Some r))]) rs;
       olist (fun n => ores orev (get_rev_id b n)) ns;
       olist (fun d => ores orev (dotted_revno_to_revision_id b d)) ds ].

(* kind "spec": in_history and as_revision_id of one specifier *)
Definition oinfo (i : info) : obs := OL [oopt onat (fst i); orev (snd i)].
Definition run_spec (g : dag) (tip : option revid) (tags : list (nat * revid)) (s : spec) : obs :=
  let b := mkBr g tip tags in
  OL [ores oinfo (in_history b s); ores orev (as_revision_id b s)].

(* kind "graph": the environment functions used by ancestor: and mainline: *)
Definition run_graph (g : dag) (a b : revid) (tip : option revid) : obs :=
  OL [orev (find_unique_lca g a b); orev (find_lefthand_merger g a tip)].

(* kind "seq": questions asked of ONE locked Branch object, interleaved with tip
   changes (set_last_revision_info / pull --overwrite): every answer is the answer
   for the tip of that moment -- the caches of the Branch object must not show *)
Inductive step :=
| QSpec (s : spec)             (* in_history and as_revision_id *)
| QDotted (r : revid)          (* revision_id_to_dotted_revno *)
| QId (d : revno)              (* dotted_revno_to_revision_id *)
| QRevno (r : revid)           (* revision_id_to_revno *)
| SetTip (t : option revid)    (* the branch tip moves (this Branch object, write-locked) *)
| OtherTip (t : option revid). (* ANOTHER Branch object moves the tip while this one holds its read
                                  lock: the reader keeps answering for the tip it saw first *)

Fixpoint run_steps (g : dag) (tags : list (nat * revid)) (tip : option revid) (steps : list step) : list obs :=
  match steps with
  | [] => []
  | st :: rest =>
      let b := mkBr g tip tags in
      match st with
      | QSpec s => OL [ores oinfo (in_history b s); ores orev (as_revision_id b s)] :: run_steps g tags tip rest
      | QDotted r => ores orevno (revision_id_to_dotted_revno b (Some r)) :: run_steps g tags tip rest
      | QId d => ores orev (dotted_revno_to_revision_id b d) :: run_steps g tags tip rest
      | QRevno r => ores onat (revision_id_to_revno b (Some r)) :: run_steps g tags tip rest
      | SetTip t => OT "tip" :: run_steps g tags t rest
      | OtherTip _ => OT "tip" :: run_steps g tags tip rest
      end
  end.
Definition run_seq (g : dag) (tip : option revid) (tags : list (nat * revid)) (steps : list step) : obs :=
  OL (run_steps g tags tip steps).
