(* Model/ShelfTree.v -- hand model for C15 (part 3: tree level).
   breezy/shelf.py : ShelfCreator.iter_shelvable (what is offered), shelve_rename,
     shelve_modify_target, shelve_lines(target lines) / shelve_content_change, shelve_creation,
     shelve_deletion/_shelve_creation (work_transform AND shelf_transform side), transform()
     (MalformedTransform when the resulting tree has raw conflicts), and Unshelver.make_merger +
     Merge3Merger (three-way merge base = basis, other = shelf preview, this = tree) restricted
     to the trivial per-field three-way decisions that occur when the shelf is merged back.
   A tree is a function from file ids to entries (root = id 0, implicit, never changed) together with
   a finite id domain.  The changes selected for shelving are a predicate  tag -> id -> bool ; per
   id they are applied in iter_shelvable order (rename, then content), as Shelver.run does.
   What is NOT modelled (see notes/C15.md): the executable bit after UNSHELVE of a touched file
   (masked in the correspondence run, checked by the oracle: finding C15-exec-bit), conflict
   resolution of a malformed shelf preview ([SShelfNotWf]: finding C15-open-selection), and
   shelve_deletion's existing_path branch (since 1d3d426 taken only for an UNVERSIONED leftover at the
   deleted file's path; the trees considered here have no unversioned files).  No proofs here. *)
From Coq Require Import NArith List Bool String.
From BV Require Import Lib.Bytes Lib.Obs.
Import ListNotations.
Open Scope N_scope.

Inductive kind := KFile (content : bytes) | KDir | KLink (target : bytes).
Record entry := Entry { eparent : N; ename : bytes; ekind : kind; eexec : bool }.
Definition tree := N -> option entry.

Inductive ctag := CAdd | CDel | CRen | CKind | CText | CTarget.
Definition sel := ctag -> bool.      (* the selection, at one id *)

Definition loc_eqb (a b : entry) : bool :=
  (eparent a =? eparent b) && bytes_eqb (ename a) (ename b).

Definition kind_eqb (a b : kind) : bool :=
  match a, b with
  | KFile x, KFile y => bytes_eqb x y
  | KDir, KDir => true
  | KLink x, KLink y => bytes_eqb x y
  | _, _ => false
  end.

Definition is_file (k : kind) : bool := match k with KFile _ => true | _ => false end.
Definition is_dir (k : kind) : bool := match k with KDir => true | _ => false end.

(* iter_shelvable, the else branch: which content-ish change is offered for an id present on both sides.
   Note the symlink case: 'modify target' is offered whenever iter_changes reports the entry,
   i.e. also for a renamed symlink whose target is unchanged. *)
Definition ctag_of (eb ew : entry) : option ctag :=
  match ekind eb, ekind ew with
  | KFile c1, KFile c2 => if bytes_eqb c1 c2 then None else Some CText
  | KLink t1, KLink t2 => if loc_eqb eb ew && bytes_eqb t1 t2 then None else Some CTarget
  | KDir, KDir => None
  | _, _ => Some CKind
  end.

Definition offered_at (b w : option entry) : list ctag :=
  match b, w with
  | None, None => []
  | None, Some _ => [CAdd]
  | Some _, None => [CDel]
  | Some eb, Some ew =>
      (if loc_eqb eb ew then [] else [CRen]) ++
      (match ctag_of eb ew with Some t => [t] | None => [] end)
  end.

Definition ren_sel (s : sel) (eb ew : entry) : bool := s CRen && negb (loc_eqb eb ew).
Definition con_sel (s : sel) (eb ew : entry) : bool :=
  match ctag_of eb ew with Some t => s t | None => false end.

(* the entry of one id in (work tree after transform(), shelf preview tree).
   exec of the work side: delete_contents + create_file keeps the mode of the existing working file
   when that is a regular file (_set_mode), otherwise the new file is not executable; a re-created
   deleted file is not executable either (create_from_tree sets no mode). *)
Definition shelve_at (b w : option entry) (s : sel) : option entry * option entry :=
  match b, w with
  | None, None => (None, None)
  | None, Some ew => if s CAdd then (None, Some ew) else (Some ew, None)
  | Some eb, None =>
      if s CDel then (Some (Entry (eparent eb) (ename eb) (ekind eb) false), None)
      else (None, Some eb)
  | Some eb, Some ew =>
      let ren := ren_sel s eb ew in
      let con := con_sel s eb ew in
      (Some (Entry (if ren then eparent eb else eparent ew) (if ren then ename eb else ename ew)
                   (if con then ekind eb else ekind ew)
                   (if con then is_file (ekind eb) && is_file (ekind ew) && eexec ew else eexec ew)),
       Some (Entry (if ren then eparent ew else eparent eb) (if ren then ename ew else ename eb)
                   (if con then ekind ew else ekind eb)
                   (eexec eb)))
  end.

Definition selection := ctag -> N -> bool.
Definition work_of (basis wt : tree) (s : selection) : tree :=
  fun i => fst (shelve_at (basis i) (wt i) (fun t => s t i)).
Definition shelf_of (basis wt : tree) (s : selection) : tree :=
  fun i => snd (shelve_at (basis i) (wt i) (fun t => s t i)).

(* ---- well-formedness of a tree over a finite id domain (what _check_malformed /
   find_raw_conflicts enforce: parents exist and are directories, no duplicate names in a
   directory, no parent loops) ---- *)
Definition shape := (N * bytes * bool)%type.     (* parent, name, is a directory *)
Definition shape_of (t : tree) (i : N) : option shape :=
  match t i with Some e => Some (eparent e, ename e, is_dir (ekind e)) | None => None end.

Definition shapes (dom : list N) (t : tree) : list (N * shape) :=
  flat_map (fun i => match shape_of t i with Some sh => [(i, sh)] | None => [] end) dom.

Fixpoint find_shape (i : N) (l : list (N * shape)) : option shape :=
  match l with
  | [] => None
  | (j, sh) :: r => if i =? j then Some sh else find_shape i r
  end.

Fixpoint climbs (fuel : nat) (l : list (N * shape)) (i : N) : bool :=
  if i =? 0 then true else
  match fuel with
  | O => false
  | S f => match find_shape i l with
           | Some (p, _, _) => climbs f l p
           | None => true
           end
  end.

Fixpoint no_dup_names (l : list (N * shape)) : bool :=
  match l with
  | [] => true
  | (_, (p, n, _)) :: r =>
      negb (existsb (fun x => match x with (_, (p2, n2, _)) => (p =? p2) && bytes_eqb n n2 end) r)
      && no_dup_names r
  end.

Definition wf_shapes (l : list (N * shape)) : bool :=
  forallb (fun x => match x with (i, (p, _, _)) =>
             negb (i =? 0) &&
             ((p =? 0) || match find_shape p l with Some (_, _, d) => d | None => false end) end) l
  && no_dup_names l
  && forallb (fun x => climbs (List.length l) l (fst x)) l.

Definition wfb (dom : list N) (t : tree) : bool := wf_shapes (shapes dom t).

Inductive sres := SShelfNotWf | SMalformed | SOk (work shelf : tree).

(* shelve_changes: write_shelf runs resolve_conflicts on the shelf transform first (outcome not
   modelled when the shelf preview is ill-formed: it may rewrite the shelf or crash), then
   creator.transform() applies the work transform (MalformedTransform when ill-formed) *)
Definition shelve (dom : list N) (basis wt : tree) (s : selection) : sres :=
  if negb (wfb dom (shelf_of basis wt s)) then SShelfNotWf
  else if wfb dom (work_of basis wt s) then SOk (work_of basis wt s) (shelf_of basis wt s)
  else SMalformed.

(* ---- unshelve: Merge3Merger with base = basis, other = shelf preview, this = tree ---- *)
Definition three_way {A} (eqb : A -> A -> bool) (base other this : A) : option A :=
  if eqb base other then Some this
  else if eqb this other then Some this
  else if eqb this base then Some other
  else None.

Definition loc_of (e : entry) : N * bytes := (eparent e, ename e).
Definition locp_eqb (a b : N * bytes) : bool := (fst a =? fst b) && bytes_eqb (snd a) (snd b).

(* None = a conflict; Some r = the merged entry (or absence) *)
Definition merge_at (b o t : option entry) : option (option entry) :=
  match b, o, t with
  | None, None, _ => Some t                                   (* untouched by other *)
  | None, Some eo, None => Some (Some eo)                     (* added by other *)
  | None, Some _, Some _ => None
  | Some eb, None, None => Some None
  | Some eb, None, Some et =>                                 (* deleted by other *)
      if kind_eqb (ekind et) (ekind eb) then Some None else None
  | Some eb, Some eo, None =>
      if locp_eqb (loc_of eo) (loc_of eb) && kind_eqb (ekind eo) (ekind eb) then Some None else None
  | Some eb, Some eo, Some et =>
      match three_way locp_eqb (loc_of eb) (loc_of eo) (loc_of et),
            three_way kind_eqb (ekind eb) (ekind eo) (ekind et) with
      | Some (p, n), Some k => Some (Some (Entry p n k (eexec et)))
      | _, _ => None
      end
  end.

Inductive ures := UShelfNotWf | UConflict | UOk (t : tree).

Definition merged (basis shelf work : tree) : tree :=
  fun i => match merge_at (basis i) (shelf i) (work i) with Some r => r | None => None end.

Definition unshelve (dom : list N) (basis shelf work : tree) : ures :=
  if negb (wfb dom shelf) then UShelfNotWf
  else if forallb (fun i => match merge_at (basis i) (shelf i) (work i) with Some _ => true | None => false end) dom
          && wfb dom (merged basis shelf work)
       then UOk (merged basis shelf work)
       else UConflict.

(* ---- differences between two entries of one id, by field (the executable bit only counts
   between two regular files, as in iter_changes) ---- *)
Inductive field := FExist | FLoc | FContent | FExec.
Definition delta_at (b w : option entry) : list field :=
  match b, w with
  | None, None => []
  | None, Some _ | Some _, None => [FExist]
  | Some eb, Some ew =>
      (if loc_eqb eb ew then [] else [FLoc]) ++
      (if kind_eqb (ekind eb) (ekind ew) then [] else [FContent]) ++
      (if is_file (ekind eb) && is_file (ekind ew) && negb (Bool.eqb (eexec eb) (eexec ew))
       then [FExec] else [])
  end.

(* which fields the selection at one id covers *)
Definition covers (b w : option entry) (s : sel) (f : field) : bool :=
  match b, w with
  | None, Some _ => match f with FExist => s CAdd | _ => false end
  | Some _, None => match f with FExist => s CDel | _ => false end
  | Some eb, Some ew =>
      match f with
      | FLoc => ren_sel s eb ew
      | FContent => con_sel s eb ew
      | _ => false
      end
  | None, None => false
  end.

(* the selections whose shelving disturbs an executable bit (see the refutation): shelving the
   deletion of an executable file, or a kind change whose basis side is an executable file *)
Definition exec_safe (b w : option entry) (s : sel) : bool :=
  match b, w with
  | Some eb, None => negb (s CDel && is_file (ekind eb) && eexec eb)
  | Some eb, Some ew => negb (con_sel s eb ew && is_file (ekind eb) && negb (is_file (ekind ew)) && eexec eb)
  | _, _ => true
  end.

Definition strip_exec (o : option entry) : option entry :=
  match o with Some e => Some (Entry (eparent e) (ename e) (ekind e) false) | None => None end.

(* ---- observation for the correspondence run (kind "tree") ---- *)
Fixpoint lookup (i : N) (l : list (N * entry)) : option entry :=
  match l with
  | [] => None
  | (j, e) :: r => if i =? j then Some e else lookup i r
  end.
Definition of_list (l : list (N * entry)) : tree := fun i => lookup i l.

Definition ctag_eqb (a b : ctag) : bool :=
  match a, b with
  | CAdd, CAdd | CDel, CDel | CRen, CRen | CKind, CKind | CText, CText | CTarget, CTarget => true
  | _, _ => false
  end.
Definition sel_of (l : list (ctag * N)) : selection :=
  fun t i => existsb (fun x => ctag_eqb (fst x) t && (snd x =? i)) l.

Definition ctag_obs (t : ctag) : obs :=
  oN (match t with CAdd => 0 | CDel => 1 | CRen => 2 | CKind => 3 | CText => 4 | CTarget => 5 end).

Definition entry_obs (mask : bool) (i : N) (e : entry) : obs :=
  OL [oN i; oN (eparent e); OB (ename e);
      OB (match ekind e with KFile _ => [102] | KDir => [100] | KLink _ => [108] end);
      OB (match ekind e with KFile c => c | KDir => [] | KLink t => t end);
      obool (if mask then false else eexec e)].

Definition tree_obs (dom : list N) (masked : N -> bool) (t : tree) : obs :=
  OL (flat_map (fun i => match t i with Some e => [entry_obs (masked i) i e] | None => [] end) dom).

Definition touched (s : selection) (i : N) : bool :=
  s CAdd i || s CDel i || s CRen i || s CKind i || s CText i || s CTarget i.

(* [fault]: the shelf file raises ENOSPC while write_shelf serialises the shelf.  shelve_changes writes
   the shelf BEFORE creator.transform(), so the error surfaces with the tree untouched (also when the
   work transform would have been refused) and the partial shelf file is deleted.
   After a failed shelve the last component is the (unchanged) working tree.
   observation: offered changes; outcome of shelve_changes; the shelf ids present afterwards (the
   shelf file is removed again when the work transform is refused, b9aec9c); outcome of unshelve *)
Definition run_tree (fault : bool) (dom : list N) (basisL wtL : list (N * entry)) (selL : list (ctag * N)) : obs :=
  let basis := of_list basisL in let wt := of_list wtL in let s := sel_of selL in
  let off := OL (flat_map (fun i => map (fun t => OL [oN i; ctag_obs t]) (offered_at (basis i) (wt i))) dom) in
  match shelve dom basis wt s with
  | SShelfNotWf => OL [off; OT "shelf-not-wf"%string; ON; ON]
  | _ => if fault then OL [off; OE "OSError"%string; OL []; tree_obs dom (fun _ => false) wt] else
  match shelve dom basis wt s with
  | SShelfNotWf => ON
  | SMalformed => OL [off; OE "MalformedTransform"%string; OL []; tree_obs dom (fun _ => false) wt]
  | SOk work shelf =>
      OL [off; tree_obs dom (fun _ => false) work; OL [oN 1];
          match unshelve dom basis shelf work with
          | UShelfNotWf => OT "shelf-not-wf"%string
          | UConflict => OT "conflict"%string
          | UOk t => tree_obs dom (touched s) t
          end]
  end
  end.
