(* Model/Eol.v -- hand model of breezy/filters/eol.py (C45).
   _to_lf_converter, _to_crlf_converter, _eol_filter_stack_map (POSIX branch:
   _native_output = _to_lf_converter), filtered_output_bytes / filtered_input_file
   for a one-filter stack. *)
From Coq Require Import ZArith NArith List Bool String.
From BV Require Import Lib.Bytes Lib.Obs.
Import ListNotations.
Open Scope N_scope.

Definition CR : N := 13.
Definition LF : N := 10.
Definition NUL : N := 0.

Definition has_nul (s : bytes) : bool := memb NUL s.

Definition starts_lf (s : bytes) : bool :=
  match s with c :: _ => c =? LF | [] => false end.

(* content.replace(b"\r\n", b"\n") *)
Fixpoint crlf_to_lf (s : bytes) : bytes :=
  match s with
  | [] => []
  | c :: s' => if (c =? CR) && starts_lf s' then crlf_to_lf s' else c :: crlf_to_lf s'
  end.

(* re.sub(rb"(?<!\r)\n", b"\r\n", content): the look-behind inspects the
   *original* previous byte *)
Fixpoint lf_to_crlf_aux (prev_cr : bool) (s : bytes) : bytes :=
  match s with
  | [] => []
  | c :: s' => if (c =? LF) && negb prev_cr
               then CR :: LF :: lf_to_crlf_aux false s'
               else c :: lf_to_crlf_aux (c =? CR) s'
  end.
Definition lf_to_crlf (s : bytes) : bytes := lf_to_crlf_aux false s.

Definition to_lf_converter (content : bytes) : bytes :=
  if has_nul content then content else crlf_to_lf content.
Definition to_crlf_converter (content : bytes) : bytes :=
  if has_nul content then content else lf_to_crlf content.

Inductive setting := Exact | Native | Lf | Crlf | NativeCrlfRepo | LfCrlfRepo | CrlfCrlfRepo.

Definition native_output := to_lf_converter.   (* sys.platform != "win32" *)

(* ContentFilter(reader, writer); None = empty stack *)
Definition filter_of (s : setting) : option ((bytes -> bytes) * (bytes -> bytes)) :=
  match s with
  | Exact => None
  | Native => Some (to_lf_converter, native_output)
  | Lf => Some (to_lf_converter, to_lf_converter)
  | Crlf => Some (to_lf_converter, to_crlf_converter)
  | NativeCrlfRepo => Some (to_crlf_converter, native_output)
  | LfCrlfRepo => Some (to_crlf_converter, to_lf_converter)
  | CrlfCrlfRepo => Some (to_crlf_converter, to_crlf_converter)
  end.

(* disk -> repository (filtered_input_file) *)
Definition reader (s : setting) (x : bytes) : bytes :=
  match filter_of s with Some (r, _) => r x | None => x end.
(* repository -> disk (filtered_output_bytes) *)
Definition writer (s : setting) (x : bytes) : bytes :=
  match filter_of s with Some (_, w) => w x | None => x end.

Definition canonical (s : setting) (x : bytes) : Prop := reader s x = x.
Definition canonicalb (s : setting) (x : bytes) : bool := bytes_eqb (reader s x) x.

Definition lf_in_repo (s : setting) : bool :=
  match s with Exact | Native | Lf | Crlf => true | _ => false end.

(* the guard the round trip needs for the *-with-crlf-in-repo settings *)
Definition no_crcrlf (x : bytes) : bool := negb (containsb [CR; CR; LF] x).

(* what the correspondence run observes: written bytes, re-read bytes, reader on raw *)
Definition run_case (s : setting) (x : bytes) : obs :=
  OL [OB (writer s x); OB (reader s (writer s x)); OB (reader s x)].

(* a fresh checkout: bytes on disk, and whether the tree reports the file unchanged
   (ContentFilterAwareSHA1Provider hashes reader(disk) and compares with the stored text) *)
Definition run_checkout (s : setting) (x : bytes) : obs :=
  OL [OB (writer s x); obool (bytes_eqb (reader s (writer s x)) x)].

(* ---- large inputs (run-length encoded so that the generated case files stay small) ---- *)
Fixpoint checksum_aux (i acc : Z) (x : bytes) : Z :=
  match x with
  | [] => acc
  | b :: x' => checksum_aux (i + 1) ((acc + (i mod 251 + 1) * Z.of_N b) mod 1000003)%Z x'
  end%Z.
Definition digest (x : bytes) : obs := OL [oN (N.of_nat (List.length x)); OZ (checksum_aux 0 0 x)].

Definition expand (parts : list (N * N)) : bytes :=
  List.concat (map (fun p => repeat (fst p) (N.to_nat (snd p))) parts).

Definition run_big (s : setting) (parts : list (N * N)) : obs :=
  let x := expand parts in
  OL [digest (writer s x); digest (reader s (writer s x)); digest (reader s x);
      obool (bytes_eqb (reader s (writer s x)) x)].

Definition run_checkout_big (s : setting) (parts : list (N * N)) : obs :=
  let x := expand parts in
  OL [digest (writer s x); obool (bytes_eqb (reader s (writer s x)) x)].

(* internal_size_sha_file_byname on the written file: canonical size, and the sha1 is that of the
   canonical bytes (SHA-1 itself is not modelled: the harness compares with hashlib on reader(disk)) *)
Definition run_sha_big (s : setting) (parts : list (N * N)) : obs :=
  let x := expand parts in
  OL [oN (N.of_nat (List.length (reader s (writer s x)))); obool true].
