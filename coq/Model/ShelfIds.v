(* Model/ShelfIds.v -- hand model for C15 (part 1: shelf id allocation).
   breezy/shelf.py : ShelfManager.get_shelf_filename, get_shelf_ids, active_shelves, last_shelf,
                     new_shelf, delete_shelf (and read_shelf's NoSuchShelfId).
   The shelf directory is modelled by its listing (a list of file names, bytes = utf-8 of the
   str names).  Environment: Python re (the pattern  shelf-([1-9][0-9]* )  used with .fullmatch
   since 56cc459, i.e. the WHOLE name must match), int, sorted, percent-d formatting -- modelled by [match_shelf],
   [parse_dec], [list_max]/[N.max] and [print_dec]; validated by the correspondence run.
   No proofs here. *)
From Coq Require Import NArith List Bool ZArith String.
From BV Require Import Lib.Bytes Lib.Obs Lib.DecBytes.
Import ListNotations.
Open Scope N_scope.

(* the bytes of shelf- *)
Definition PREFIX : bytes := [115; 104; 101; 108; 102; 45].

(* get_shelf_filename: shelf-%d *)
Definition shelf_name (n : N) : bytes := PREFIX ++ print_dec n.

Fixpoint strip_prefix (p s : bytes) : option bytes :=
  match p, s with
  | [], _ => Some s
  | a :: p', b :: s' => if a =? b then strip_prefix p' s' else None
  | _ :: _, [] => None
  end.

(* the greedy [0-9]* *)
Fixpoint take_digits (s : bytes) : bytes :=
  match s with
  | c :: r => if is_dec_char c then c :: take_digits r else []
  | [] => []
  end.

(* matcher.fullmatch(filename); int(match.group(1)): the whole name is "shelf-", a digit 1-9 and
   then digits only (shelf-12.bak, shelf-1x, shelf-01 are not shelves). *)
Definition match_shelf (fn : bytes) : option N :=
  match strip_prefix PREFIX fn with
  | Some (c :: r) =>
      if (49 <=? c) && (c <=? 57) && forallb is_dec_char r then parse_dec (c :: r) else None
  | _ => None
  end.

(* the same with re.match (anchored at the start only), the behaviour before 56cc459 *)
Definition match_shelf_old (fn : bytes) : option N :=
  match strip_prefix PREFIX fn with
  | Some (c :: r) => if (49 <=? c) && (c <=? 57) then parse_dec (c :: take_digits r) else None
  | _ => None
  end.

(* get_shelf_ids(filenames): the for loop with append *)
Definition get_shelf_ids (filenames : list bytes) : list N :=
  flat_map (fun f => match match_shelf f with Some n => [n] | None => [] end) filenames.

Definition list_max (l : list N) : N := fold_right N.max 0 l.

(* last_shelf: active = sorted(ids); active[-1] if len(active) > 0 else None.
   The last element of a sorted non-empty list is its maximum. *)
Definition last_of (ids : list N) : option N :=
  match ids with [] => None | _ => Some (list_max ids) end.
Definition last_shelf (dir : list bytes) : option N := last_of (get_shelf_ids dir).

(* new_shelf: next_shelf = 1 if last_shelf is None else last_shelf + 1 *)
Definition next_of (ids : list N) : N :=
  match last_of ids with None => 1 | Some l => l + 1 end.
Definition next_shelf (dir : list bytes) : N := next_of (get_shelf_ids dir).

Definition name_eqb (a b : bytes) : bool := list_eqb N.eqb a b.
Definition has_name (dir : list bytes) (f : bytes) : bool := existsb (name_eqb f) dir.
Definition del_name (dir : list bytes) (f : bytes) : list bytes := filter (fun g => negb (name_eqb f g)) dir.

(* operations on the shelf directory *)
Inductive op := ONew | ODelete (n : N) | ORead (n : N).
Inductive res := RNew (n : N) | ROk | RNoSuchFile | RNoSuchShelfId.

(* new_shelf opens shelf-<next> with wb (creates or truncates); delete_shelf is transport.delete
   (NoSuchFile when absent); read_shelf raises NoSuchShelfId when the file is absent. *)
Definition step (dir : list bytes) (o : op) : list bytes * res :=
  match o with
  | ONew => let n := next_shelf dir in
            let f := shelf_name n in
            ((if has_name dir f then dir else dir ++ [f]), RNew n)
  | ODelete n => let f := shelf_name n in
                 if has_name dir f then (del_name dir f, ROk) else (dir, RNoSuchFile)
  | ORead n => if has_name dir (shelf_name n) then (dir, ROk) else (dir, RNoSuchShelfId)
  end.

Fixpoint run (dir : list bytes) (ops : list op) : list bytes * list res :=
  match ops with
  | [] => (dir, [])
  | o :: r => let '(d1, x) := step dir o in
              let '(d2, xs) := run d1 r in (d2, x :: xs)
  end.

(* ---- the abstract machine on id sets (what the theorems are stated on) ---- *)
Definition astep (ids : list N) (o : op) : list N * res :=
  match o with
  | ONew => let n := next_of ids in (ids ++ [n], RNew n)
  | ODelete n => if existsb (N.eqb n) ids then (filter (fun m => negb (n =? m)) ids, ROk)
                 else (ids, RNoSuchFile)
  | ORead n => if existsb (N.eqb n) ids then (ids, ROk) else (ids, RNoSuchShelfId)
  end.

Fixpoint arun (ids : list N) (ops : list op) : list N * list res :=
  match ops with
  | [] => (ids, [])
  | o :: r => let '(d1, x) := astep ids o in
              let '(d2, xs) := arun d1 r in (d2, x :: xs)
  end.

(* ---- observations ---- *)
Definition res_obs (r : res) : obs :=
  match r with
  | RNew n => oN n
  | ROk => OT "ok"%string
  | RNoSuchFile => OE "NoSuchFile"%string
  | RNoSuchShelfId => OE "NoSuchShelfId"%string
  end.

(* kind "ids": get_shelf_ids(filenames), sorted active list, last_shelf *)
Definition run_ids (filenames : list bytes) : obs :=
  OL [olist oN (get_shelf_ids filenames); oopt oN (last_shelf filenames); oN (next_shelf filenames)].

(* kind "idops": a sequence of operations on a directory that initially holds [dir0];
   observation: the results and the final sorted id list *)
Fixpoint insert_sorted (n : N) (l : list N) : list N :=
  match l with [] => [n] | m :: r => if n <=? m then n :: l else m :: insert_sorted n r end.
Definition sort_ids (l : list N) : list N := fold_right insert_sorted [] l.

Definition run_idops (dir0 : list bytes) (ops : list op) : obs :=
  let '(d, rs) := run dir0 ops in
  OL [olist res_obs rs; olist oN (sort_ids (get_shelf_ids d))].
