(* Model/ShaMap.v -- C38: the bzr<->git SHA map and its four cache backends
   (breezy/git/cache.py).  Definitions only.

   One update = everything one CacheUpdater receives for one revision:
   add_object for blobs/trees (in call order), add_object for the commit, finish().
   Scripts bracket updates with write groups and re-open the persistent backends.

     spec      [s_*]   ideal map: three last-wins tables, lookup_git_sha derived from them
     Dict      DictGitShaMap + DictCacheUpdater     : _by_revid, _by_fileid (ONE table shared by blobs
                                                      and trees), _by_sha[sha][key]
     Sqlite    SqliteGitShaMap + SqliteCacheUpdater : commits(unique revid), blobs(unique fileid,revid),
                                                      trees(unique sha1; unique fileid,revid); rows are
                                                      written by finish() with REPLACE; lookup_git_sha and
                                                      sha1s are SELECTs over the tables
     Index     IndexGitShaMap + IndexCacheUpdater   : btree keys ("git",sha,X) ("commit",revid,X)
                                                      ("blob",fileid,revid), _add_node never overwrites
     Tdb       TdbGitShaMap + TdbCacheUpdater       : "commit\0revid", "blob\0fileid\0revid" overwrite,
                                                      "git\0sha" entries are appended *)
From Coq Require Import NArith List Bool String.
From BV Require Import Lib.Bytes Lib.Obs Lib.SortUniq.
Import ListNotations.
Open Scope N_scope.

Definition fkey := (bytes * bytes)%type.        (* (file id, revision) *)

Record obj := { o_tree : bool; o_sha : bytes; o_key : fkey }.     (* a blob (false) or tree (true) *)
Record upd := { u_revid : bytes; u_sha : bytes; u_tree : bytes; u_test : option bytes;
                u_objs : list obj }.

Inductive entry :=
| ECommit (revid tree : bytes) (test : option bytes)
| EBlob (k : fkey)
| ETree (k : fkey).

(* ---- association lists with the two update disciplines ------------------------ *)
Section AList.
  Context {K V : Type} (eqb : K -> K -> bool).
  Fixpoint alookup (k : K) (t : list (K * V)) : option V :=
    match t with
    | [] => None
    | (k', v) :: r => if eqb k' k then Some v else alookup k r
    end.
  Fixpoint aremove (k : K) (t : list (K * V)) : list (K * V) :=
    match t with
    | [] => []
    | (k', v) :: r => if eqb k' k then aremove k r else (k', v) :: aremove k r
    end.
  (* last wins: dict assignment / REPLACE on a unique key / tdb store *)
  Definition aset (k : K) (v : V) (t : list (K * V)) : list (K * V) := aremove k t ++ [(k, v)].
  (* first wins: IndexGitShaMap._add_node *)
  Definition aadd (k : K) (v : V) (t : list (K * V)) : list (K * V) :=
    match alookup k t with Some _ => t | None => t ++ [(k, v)] end.
  Definition aput (first : bool) := if first then aadd else aset.
  Definition build (first : bool) (bs : list (K * V)) : list (K * V) :=
    fold_left (fun t kv => aput first (fst kv) (snd kv) t) bs [].
End AList.

Definition fkey_eqb (a b : fkey) : bool := bytes_eqb (fst a) (fst b) && bytes_eqb (snd a) (snd b).

(* ---- bindings contributed by a list of updates --------------------------------- *)
Definition commit_bindings (l : list upd) : list (bytes * (bytes * bytes * option bytes)) :=
  map (fun u => (u_revid u, (u_sha u, u_tree u, u_test u))) l.
Definition obj_bindings (which : obj -> bool) (l : list upd) : list (fkey * bytes) :=
  flat_map (fun u => map (fun o => (o_key o, o_sha o)) (filter which (u_objs u))) l.
Definition is_blob (o : obj) := negb (o_tree o).
Definition is_tree (o : obj) := o_tree o.
Definition any_obj (o : obj) := true.

(* (sha, entry) pairs in call order: blobs/trees as received, the commit last *)
Definition git_bindings (l : list upd) : list (bytes * entry) :=
  flat_map (fun u => map (fun o => (o_sha o, if o_tree o then ETree (o_key o) else EBlob (o_key o))) (u_objs u)
                     ++ [(u_sha u, ECommit (u_revid u) (u_tree u) (u_test u))]) l.

(* ---- the specification ----------------------------------------------------------- *)
Definition s_commits l := build bytes_eqb false (commit_bindings l).
Definition s_blobs l := build fkey_eqb false (obj_bindings is_blob l).
Definition s_trees l := build fkey_eqb false (obj_bindings is_tree l).
Definition s_lookup_commit l r : option bytes := option_map (fun x => fst (fst x)) (alookup bytes_eqb r (s_commits l)).
Definition s_lookup_blob l k : option bytes := alookup fkey_eqb k (s_blobs l).
Definition s_lookup_tree l k : option bytes := alookup fkey_eqb k (s_trees l).
Definition s_revids l : list bytes := map fst (s_commits l).
Definition s_lookup_git_sha l (s : bytes) : list entry :=
  map (fun c => ECommit (fst c) (snd (fst (snd c))) (snd (snd c)))
      (filter (fun c => bytes_eqb (fst (fst (snd c))) s) (s_commits l)) ++
  map (fun b => EBlob (fst b)) (filter (fun b => bytes_eqb (snd b) s) (s_blobs l)) ++
  map (fun b => ETree (fst b)) (filter (fun b => bytes_eqb (snd b) s) (s_trees l)).
Definition s_sha1s l : list bytes :=
  map (fun c => fst (fst (snd c))) (s_commits l) ++ map snd (s_blobs l) ++ map snd (s_trees l).
Definition memb_bytes (x : bytes) (l : list bytes) : bool := existsb (bytes_eqb x) l.
Definition missing (revids rs : list bytes) : list bytes := filter (fun r => negb (memb_bytes r revids)) rs.
Definition s_missing l rs := missing (s_revids l) rs.

(* ---- Dict -------------------------------------------------------------------------- *)
Definition d_commits l := build bytes_eqb false (map (fun u => (u_revid u, u_sha u)) l).
Definition d_byfileid l := build fkey_eqb false (obj_bindings any_obj l).     (* blobs AND trees *)
Inductive dkey := DRev (r : bytes) | DKey (k : fkey).
Definition dkey_eqb (a b : dkey) : bool :=
  match a, b with
  | DRev x, DRev y => bytes_eqb x y
  | DKey x, DKey y => fkey_eqb x y
  | _, _ => false
  end.
Definition entry_dkey (e : entry) : dkey :=
  match e with ECommit r _ _ => DRev r | EBlob k => DKey k | ETree k => DKey k end.
(* _by_sha.setdefault(sha, {})[key] = entry *)
Definition d_bysha l : list (bytes * list (dkey * entry)) :=
  fold_left (fun t se =>
    let inner := match alookup bytes_eqb (fst se) t with Some i => i | None => [] end in
    (* a dict keeps the position of an existing key *)
    let inner' := match alookup dkey_eqb (entry_dkey (snd se)) inner with
                  | Some _ => map (fun kv => if dkey_eqb (fst kv) (entry_dkey (snd se)) then (fst kv, snd se) else kv) inner
                  | None => inner ++ [(entry_dkey (snd se), snd se)]
                  end in
    match alookup bytes_eqb (fst se) t with
    | Some _ => map (fun kv => if bytes_eqb (fst kv) (fst se) then (fst kv, inner') else kv) t
    | None => t ++ [(fst se, inner')]
    end) (git_bindings l) [].
Definition d_lookup_commit l r := alookup bytes_eqb r (d_commits l).
Definition d_lookup_blob l k := alookup fkey_eqb k (d_byfileid l).
Definition d_lookup_tree l k := alookup fkey_eqb k (d_byfileid l).
Definition d_lookup_git_sha l s : option (list entry) :=
  option_map (map snd) (alookup bytes_eqb s (d_bysha l)).
Definition d_revids l : list bytes :=
  flat_map (fun se => flat_map (fun ke => match snd ke with ECommit r _ _ => [r] | _ => [] end) (snd se)) (d_bysha l).
Definition d_sha1s l : list bytes := map fst (d_bysha l).

(* ---- Sqlite -------------------------------------------------------------------------- *)
Record sq := { q_commits : list (bytes * (bytes * bytes * option bytes));   (* revid -> sha, tree, testament *)
               q_blobs : list (fkey * bytes); q_trees : list (fkey * bytes) }.
(* REPLACE into trees: rows conflicting on sha1 OR on (fileid, revid) are deleted first *)
Definition q_put_tree (k : fkey) (s : bytes) (t : list (fkey * bytes)) : list (fkey * bytes) :=
  filter (fun row => negb (fkey_eqb (fst row) k) && negb (bytes_eqb (snd row) s)) t ++ [(k, s)].
Definition q_finish (st : sq) (u : upd) : sq :=
  {| q_trees := fold_left (fun t o => q_put_tree (o_key o) (o_sha o) t) (filter is_tree (u_objs u)) (q_trees st);
     q_blobs := fold_left (fun t o => aset fkey_eqb (o_key o) (o_sha o) t) (filter is_blob (u_objs u)) (q_blobs st);
     q_commits := aset bytes_eqb (u_revid u) (u_sha u, u_tree u, u_test u) (q_commits st) |}.
Definition q_state l : sq := fold_left q_finish l {| q_commits := []; q_blobs := []; q_trees := [] |}.
Definition q_lookup_commit l r := option_map (fun x => fst (fst x)) (alookup bytes_eqb r (q_commits (q_state l))).
Definition q_lookup_blob l k := alookup fkey_eqb k (q_blobs (q_state l)).
Definition q_lookup_tree l k := alookup fkey_eqb k (q_trees (q_state l)).
Definition q_lookup_git_sha l s : option (list entry) :=
  let st := q_state l in
  let r := map (fun c => ECommit (fst c) (snd (fst (snd c))) (snd (snd c)))
               (filter (fun c => bytes_eqb (fst (fst (snd c))) s) (q_commits st)) ++
           map (fun b => EBlob (fst b)) (filter (fun b => bytes_eqb (snd b) s) (q_blobs st)) ++
           map (fun b => ETree (fst b)) (filter (fun b => bytes_eqb (snd b) s) (q_trees st)) in
  match r with [] => None | _ => Some r end.
Definition q_revids l := map fst (q_commits (q_state l)).
(* sha1s(): select sha1 from blobs, commits, trees (since 5287cc0 the bytes are yielded as read) *)
Definition q_sha1s l : list bytes :=
  map snd (q_blobs (q_state l)) ++ map (fun c => fst (fst (snd c))) (q_commits (q_state l)) ++
  map snd (q_trees (q_state l)).
Definition q_nrows l := (List.length (q_commits (q_state l)) + List.length (q_blobs (q_state l)) + List.length (q_trees (q_state l)))%nat.

(* ---- Index --------------------------------------------------------------------------- *)
Definition i_commits l := build bytes_eqb true (map (fun u => (u_revid u, u_sha u)) l).
Definition i_blobs l := build fkey_eqb true (obj_bindings is_blob l).
Definition i_git l := build bytes_eqb true (git_bindings l).
Definition i_lookup_commit l r := alookup bytes_eqb r (i_commits l).
Definition i_lookup_blob l k := alookup fkey_eqb k (i_blobs l).
Definition i_lookup_git_sha l s : option (list entry) := option_map (fun e => [e]) (alookup bytes_eqb s (i_git l)).
Definition i_revids l := map fst (i_commits l).
Definition i_sha1s l := map fst (i_git l).

(* ---- Tdb ----------------------------------------------------------------------------- *)
Definition t_commits l := build bytes_eqb false (map (fun u => (u_revid u, u_sha u)) l).
Definition t_blobs l := build fkey_eqb false (obj_bindings is_blob l).
Definition t_lookup_commit l r := alookup bytes_eqb r (t_commits l).
Definition t_lookup_blob l k := alookup fkey_eqb k (t_blobs l).
Definition t_lookup_git_sha l s : option (list entry) :=
  match map snd (filter (fun se => bytes_eqb (fst se) s) (git_bindings l)) with
  | [] => None | r => Some r end.
Definition t_revids l := map fst (t_commits l).
Definition t_sha1s l := map fst (git_bindings l).

(* ---- write groups and re-opening ------------------------------------------------------- *)
Inductive op := Begin | Add (u : upd) | Commit | Abort | Reopen.
Inductive backend := BDict | BSqlite | BIndex | BTdb.
(* (committed updates, pending updates) *)
Definition bstate := (list upd * list upd)%type.
Definition step (b : backend) (st : bstate) (o : op) : bstate :=
  let '(done, pend) := st in
  match b, o with
  | BDict, Add u => (done ++ [u], [])
  | BDict, _ => st
  | _, Begin => st
  | _, Add u => (done, pend ++ [u])
  | _, Commit => (done ++ pend, [])
  | BSqlite, Abort => st                       (* SqliteGitShaMap inherits the no-op abort_write_group *)
  | _, Abort => (done, [])
  | _, Reopen => (done, [])                    (* uncommitted data does not survive *)
  end.
Definition run_ops (b : backend) (ops : list op) : bstate := fold_left (step b) ops ([], []).
Definition visible (st : bstate) : list upd := fst st ++ snd st.

(* ---- observations ------------------------------------------------------------------------ *)
Definition oentry (e : entry) : bytes * obs :=
  match e with
  | ECommit r t v => ([99] ++ r, OL [OT "commit"; OB r; OB t; oopt OB v])
  | EBlob k => ([98] ++ fst k ++ [0] ++ snd k, OL [OT "blob"; OB (fst k); OB (snd k)])
  | ETree k => ([116] ++ fst k ++ [0] ++ snd k, OL [OT "tree"; OB (fst k); OB (snd k)])
  end.
Fixpoint dedup_sorted (l : list (bytes * obs)) : list (bytes * obs) :=
  match l with
  | a :: ((b :: _) as r) => if bytes_eqb (fst a) (fst b) then dedup_sorted r else a :: dedup_sorted r
  | _ => l
  end.
Definition oentries (o : option (list entry)) : obs :=
  match o with
  | None => ON
  | Some es => OL (map snd (dedup_sorted (isort (fun x => fst x) (map oentry es))))
  end.
Fixpoint dedup_b (l : list bytes) : list bytes :=
  match l with
  | a :: ((b :: _) as r) => if bytes_eqb a b then dedup_b r else a :: dedup_b r
  | _ => l
  end.
Definition oset (l : list bytes) : obs := OL (map OB (dedup_b (isort (fun x => x) l))).

Record queries := { qr : list bytes; qb : list fkey; qt : list fkey; qs : list bytes; qm : list bytes }.

Definition answers (b : backend) (st : bstate) (q : queries) : obs :=
  let l := visible st in
  match b with
  | BDict =>
      OL [OL (map (fun r => oopt OB (d_lookup_commit l r)) (qr q));
          OL (map (fun k => oopt OB (d_lookup_blob l k)) (qb q));
          OL (map (fun k => oopt OB (d_lookup_tree l k)) (qt q));
          OL (map (fun s => oentries (d_lookup_git_sha l s)) (qs q));
          oset (d_revids l); oset (d_sha1s l); oset (missing (d_revids l) (qm q))]
  | BSqlite =>
      OL [OL (map (fun r => oopt OB (q_lookup_commit l r)) (qr q));
          OL (map (fun k => oopt OB (q_lookup_blob l k)) (qb q));
          OL (map (fun k => oopt OB (q_lookup_tree l k)) (qt q));
          OL (map (fun s => oentries (q_lookup_git_sha l s)) (qs q));
          oset (q_revids l);
          oset (q_sha1s l);
          oset (missing (q_revids l) (qm q))]
  | BIndex =>
      OL [OL (map (fun r => oopt OB (i_lookup_commit l r)) (qr q));
          OL (map (fun k => oopt OB (i_lookup_blob l k)) (qb q));
          OL (map (fun _ => OT "unsupported") (qt q));
          OL (map (fun s => oentries (i_lookup_git_sha l s)) (qs q));
          oset (i_revids l); oset (i_sha1s l);
          (* missing_revisions looks at the committed indices only, not at the open builder *)
          oset (missing (i_revids (fst st)) (qm q))]
  | BTdb =>
      OL [OL (map (fun r => oopt OB (t_lookup_commit l r)) (qr q));
          OL (map (fun k => oopt OB (t_lookup_blob l k)) (qb q));
          OL (map (fun _ => OT "unsupported") (qt q));
          OL (map (fun s => oentries (t_lookup_git_sha l s)) (qs q));
          oset (t_revids l); oset (t_sha1s l); oset (missing (t_revids l) (qm q))]
  end.

Definition spec_answers (l : list upd) (q : queries) : obs :=
  OL [OL (map (fun r => oopt OB (s_lookup_commit l r)) (qr q));
      OL (map (fun k => oopt OB (s_lookup_blob l k)) (qb q));
      OL (map (fun k => oopt OB (s_lookup_tree l k)) (qt q));
      OL (map (fun s => oentries (match s_lookup_git_sha l s with [] => None | r => Some r end)) (qs q));
      oset (s_revids l); oset (s_sha1s l); oset (s_missing l (qm q))].

(* a script, then the same queries on every backend; the spec sees the updates of committed groups *)
Definition run_case (ops : list op) (q : queries) : obs :=
  OL [answers BDict (run_ops BDict ops) q; answers BSqlite (run_ops BSqlite ops) q;
      answers BIndex (run_ops BIndex ops) q; answers BTdb (run_ops BTdb ops) q].
