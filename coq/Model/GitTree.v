(* Model/GitTree.v -- C35: export of a Bazaar tree as git blobs/trees, its
   incremental variant, and the import of git trees.  Definitions only.

   Models (breezy/git):
     object_store.directory_to_tree        -> [dir_entries] / [to_git]
     object_store._tree_to_objects         -> [first_loop], [dirty_dirs], [leaf_id], [incr_tree],
                                              [incremental], [yields]
     object_store._revision_to_objects     -> the "pointless commit" branch of [incremental]
     mapping.entry_mode / object_mode      -> [entry_mode]
     fetch.import_git_tree/import_git_blob -> [of_git], [um_of]  (tree shape, kinds, exec bits,
                                              symlink targets, unusual modes; text-revision
                                              bookkeeping is C02's subject and is not modelled)
   Environment (outside /repo) modelled here and validated by the correspondence run:
     dulwich Tree serialisation order (sorted_tree_items: directories sort as name+"/")
                                           -> [gsort]
     bzrformats CHKInventory.iter_changes  -> [changes]   (by file id)
     inventory child order (by name)       -> [nsort]
   SHA-1 never appears: object ids are an abstract type [sha] with [Hb]/[Ht]
   (Section parameters); the correspondence run instantiates them with the
   Merkle structure itself ([gobj]), which is trivially injective. *)
From Coq Require Import NArith List Bool String.
From BV Require Import Lib.Bytes Lib.Obs Lib.SortUniq.
Import ListNotations.
Open Scope N_scope.

Definition name := bytes.
Definition path := list name.        (* [] is the tree root *)
Definition key := (bytes * bytes)%type.   (* (file id, revision in which the text was last changed) *)

(* ---- trees --------------------------------------------------------------- *)
Inductive etree :=                    (* a Bazaar tree without ids *)
| EFile (c : bytes) (x : bool)
| ELink (t : bytes)
| EDir (ch : list (name * etree)).

Inductive ktree :=                    (* ... with (file id, revision) on every entry *)
| KFile (k : key) (c : bytes) (x : bool)
| KLink (k : key) (t : bytes)
| KDir (k : key) (ch : list (name * ktree)).

Fixpoint erase (t : ktree) : etree :=
  match t with
  | KFile _ c x => EFile c x
  | KLink _ t => ELink t
  | KDir _ ch => EDir (map (fun nc => (fst nc, erase (snd nc))) ch)
  end.

Inductive gobj :=                     (* deep Merkle structure of git objects *)
| GBlob (d : bytes)
| GTree (es : list (N * name * gobj)).

(* ---- modes --------------------------------------------------------------- *)
Definition M_DIR : N := 16384.        (* 0o040000 *)
Definition M_REG : N := 33188.        (* 0o100644 *)
Definition M_EXE : N := 33261.        (* 0o100755 *)
Definition M_LNK : N := 40960.        (* 0o120000 *)
Definition M_GITLINK : N := 57344.    (* 0o160000 *)
Definition ifmt (m : N) : N := N.land m 61440.   (* S_IFMT = 0o170000 *)
Definition is_dir_mode (m : N) : bool := ifmt m =? 16384.
Definition is_lnk_mode (m : N) : bool := ifmt m =? 40960.
Definition is_reg_mode (m : N) : bool := ifmt m =? 32768.
Definition mode_exec (m : N) : bool := negb (N.land m 73 =? 0).   (* 0o111 *)
Definition standard_mode (m : N) : bool :=
  (m =? M_DIR) || (m =? M_REG) || (m =? M_LNK) || (m =? M_EXE) || (m =? M_GITLINK).

Definition entry_mode (t : etree) : N :=
  match t with
  | EDir _ => M_DIR
  | ELink _ => M_LNK
  | EFile _ x => if x then M_EXE else M_REG
  end.

Definition DOTGIT : bytes := [46; 103; 105; 116].
Definition banned (n : name) : bool := bytes_eqb n DOTGIT.   (* BANNED_FILENAMES *)

(* ---- orders -------------------------------------------------------------- *)
Definition gkey (e : N * name * gobj) : bytes :=
  let '(m, n, _) := e in if is_dir_mode m then n ++ [47] else n.
Definition gsort (es : list (N * name * gobj)) := isort gkey es.
Definition nsort {A} (ch : list (name * A)) := isort (fun nc => fst nc) ch.

Fixpoint path_eqb (p q : path) : bool :=
  match p, q with
  | [], [] => true
  | a :: p', b :: q' => bytes_eqb a b && path_eqb p' q'
  | _, _ => false
  end.
Definition umap := list (path * N).
Fixpoint um_get (um : umap) (p : path) : option N :=
  match um with
  | [] => None
  | (q, m) :: r => if path_eqb q p then Some m else um_get r p
  end.
Definition mode_of (um : umap) (p : path) (t : etree) : N :=
  match um_get um p with Some m => m | None => entry_mode t end.

(* ---- from-scratch export: directory_to_tree over the whole tree ----------- *)
Fixpoint to_git (um : umap) (allow_empty : bool) (p : path) (t : etree) {struct t} : option gobj :=
  match t with
  | EFile c _ => Some (GBlob c)
  | ELink tg => Some (GBlob tg)
  | EDir ch =>
      let es :=
        (fix go (l : list (name * etree)) : list (N * name * gobj) :=
           match l with
           | [] => []
           | (n, c) :: r =>
               if banned n then go r
               else match to_git um false (p ++ [n]) c with
                    | Some g => (mode_of um (p ++ [n]) c, n, g) :: go r
                    | None => go r
                    end
           end) ch in
      match es with
      | [] => if allow_empty then Some (GTree []) else None
      | _ => Some (GTree (gsort es))
      end
  end.
Definition to_git_root (um : umap) (t : etree) : gobj :=
  match to_git um true [] t with Some g => g | None => GTree [] end.

(* what the round trip preserves: everything except empty directories and banned names *)
Fixpoint drop_empty (top : bool) (t : etree) : option etree :=
  match t with
  | EDir ch =>
      let ch' :=
        (fix go (l : list (name * etree)) : list (name * etree) :=
           match l with
           | [] => []
           | (n, c) :: r =>
               if banned n then go r
               else match drop_empty false c with
                    | Some c' => (n, c') :: go r
                    | None => go r
                    end
           end) ch in
      match ch' with
      | [] => if top then Some (EDir []) else None
      | _ => Some (EDir ch')
      end
  | _ => Some t
  end.

(* ---- import: import_git_tree / import_git_blob ---------------------------- *)
Fixpoint of_git (m : N) (g : gobj) {struct g} : etree :=
  match g with
  | GBlob d => if is_lnk_mode m then ELink d else EFile d (mode_exec m)
  | GTree es =>
      EDir (nsort
        ((fix go (l : list (N * name * gobj)) : list (name * etree) :=
            match l with
            | [] => []
            | (cm, n, c) :: r => (n, of_git cm c) :: go r
            end) es))
  end.

Fixpoint um_of (p : path) (g : gobj) {struct g} : umap :=
  match g with
  | GBlob _ => []
  | GTree es =>
      (fix go (l : list (N * name * gobj)) : umap :=
         match l with
         | [] => []
         | (cm, n, c) :: r =>
             um_of (p ++ [n]) c ++
             (if standard_mode cm then [] else [(p ++ [n], cm)]) ++ go r
         end) es
  end.

(* ---- flat view, lookups --------------------------------------------------- *)
Definition k_key (t : ktree) : key :=
  match t with KFile k _ _ | KLink k _ | KDir k _ => k end.
Definition k_kind (t : ktree) : N :=      (* 0 directory, 1 file, 2 symlink *)
  match t with KDir _ _ => 0 | KFile _ _ _ => 1 | KLink _ _ => 2 end.
Definition k_data (t : ktree) : bytes :=
  match t with KDir _ _ => [] | KFile _ c _ => c | KLink _ tg => tg end.
Definition k_exec (t : ktree) : bool :=
  match t with KFile _ _ x => x | _ => false end.

Record fent := { f_path : path; f_pfid : bytes; f_name : name; f_node : ktree }.

Fixpoint flatten (p : path) (pfid : bytes) (n : name) (t : ktree) {struct t} : list fent :=
  {| f_path := p; f_pfid := pfid; f_name := n; f_node := t |} ::
  match t with
  | KDir k ch =>
      (fix go (l : list (name * ktree)) : list fent :=
         match l with
         | [] => []
         | (cn, c) :: r => flatten (p ++ [cn]) (fst k) cn c ++ go r
         end) ch
  | _ => []
  end.
Definition flat (t : ktree) : list fent := flatten [] [] [] t.

Definition f_fid (e : fent) : bytes := fst (k_key (f_node e)).
Fixpoint find_fid (fid : bytes) (l : list fent) : option fent :=
  match l with
  | [] => None
  | e :: r => if bytes_eqb (f_fid e) fid then Some e else find_fid fid r
  end.
Fixpoint find_path (p : path) (l : list fent) : option fent :=
  match l with
  | [] => None
  | e :: r => if path_eqb (f_path e) p then Some e else find_path p r
  end.

(* ---- iter_changes (by file id) -------------------------------------------- *)
Record change := {
  c_old : option path; c_new : option path; c_name : option name;
  c_kind : option N; c_fid : bytes; c_cc : bool (* changed_content *);
  (* where the directory the entry left is NOW (InterTree.find_target_path of dirname(old path)); only for
     entries whose path changed *)
  c_odn : option path }.

Definition ent_differs (b e : fent) : bool :=
  negb (bytes_eqb (f_pfid b) (f_pfid e)) || negb (bytes_eqb (f_name b) (f_name e)) ||
  negb (k_kind (f_node b) =? k_kind (f_node e)) ||
  negb (bytes_eqb (k_data (f_node b)) (k_data (f_node e))) ||
  negb (Bool.eqb (k_exec (f_node b)) (k_exec (f_node e))).
Definition content_differs (b e : fent) : bool :=
  negb (k_kind (f_node b) =? k_kind (f_node e)) ||
  negb (bytes_eqb (k_data (f_node b)) (k_data (f_node e))).

Definition changes (base : list fent) (t : list fent) : list change :=
  flat_map (fun e =>
    match find_fid (f_fid e) base with
    | None => [{| c_old := None; c_new := Some (f_path e); c_name := Some (f_name e);
                  c_kind := Some (k_kind (f_node e)); c_fid := f_fid e; c_cc := true; c_odn := None |}]
    | Some b => if ent_differs b e
                then [{| c_old := Some (f_path b); c_new := Some (f_path e); c_name := Some (f_name e);
                         c_kind := Some (k_kind (f_node e)); c_fid := f_fid e;
                         c_cc := content_differs b e;
                         c_odn := if path_eqb (f_path b) (f_path e) then None
                                  else option_map f_path (find_fid (f_pfid b) t) |}]
                else []
    end) t ++
  flat_map (fun b =>
    match find_fid (f_fid b) t with
    | None => [{| c_old := Some (f_path b); c_new := None; c_name := None;
                  c_kind := None; c_fid := f_fid b; c_cc := true;
                  c_odn := option_map f_path (find_fid (f_pfid b) t) |}]
    | Some _ => []
    end) base.

Definition c_banned (c : change) : bool :=
  match c_name c with Some n => banned n | None => false end.
(* change.name[0] in BANNED_FILENAMES *)
Definition c_old_banned (c : change) : bool :=
  match c_old c with Some p => banned (last p []) | None => false end.

Definition dirname (p : path) : path := removelast p.

(* every proper ancestor directory of p, and p itself *)
Fixpoint prefixes (p : path) : list path :=
  match p with
  | [] => [[]]
  | a :: r => [] :: map (cons a) (prefixes r)
  end.

Definition opt_list {A} (o : option A) : list A := match o with Some x => [x] | None => [] end.

(* dirty_dirs after the closure loop (as a list; duplicates harmless) *)
Definition dirty_dirs (cs : list change) (um : umap) : list path :=
  (* a change whose new name is banned is not exported, but (since 4f049bc) the directories it left
     and entered are dirty all the same *)
  flat_map (fun c => flat_map (fun p => prefixes (dirname p)) (opt_list (c_old c) ++ opt_list (c_new c))
                     (* the directory an entry left may itself have been renamed: its new path is dirty too *)
                     ++ flat_map prefixes (opt_list (c_odn c))) cs
  ++ flat_map (fun pm => prefixes (dirname (fst pm))) um.

(* ---- the incremental conversion ------------------------------------------- *)
Section Incremental.
  Variable sha : Type.
  Variable Hb : bytes -> sha.                       (* id of a blob *)
  Variable Ht : list (N * name * sha) -> sha.       (* id of a tree given its (sorted) entries *)

  Fixpoint gid (g : gobj) : sha :=
    match g with
    | GBlob d => Hb d
    | GTree es =>
        Ht ((fix go (l : list (N * name * gobj)) : list (N * name * sha) :=
               match l with
               | [] => []
               | (m, n, c) :: r => (m, n, gid c) :: go r
               end) es)
    end.

  Variable cache : key -> option sha.               (* idmap.lookup_blob_id; None = KeyError *)
  Variable others : list (list fent).               (* parent_trees[1:], flattened *)

  (* find_unchanged_parent_ie *)
  Fixpoint find_unchanged (ps : list (list fent)) (fid : bytes) (kind : N) (data : bytes) : option key :=
    match ps with
    | [] => None
    | pt :: r =>
        match find_fid fid pt with
        | Some e => if (k_kind (f_node e) =? kind) && bytes_eqb (k_data (f_node e)) data
                    then Some (k_key (f_node e))
                    else find_unchanged r fid kind data
        | None => find_unchanged r fid kind data
        end
    end.

  (* first loop + "fetch contents of the blobs that were changed":
     (path, id, yielded?) for every changed file/symlink *)
  Definition first_loop (cs : list change) (t : list fent) : list (path * sha * bool) :=
    flat_map (fun c =>
      if c_banned c then [] else
      match c_new c with
      | None => []
      | Some p =>
          match find_path p t with
          | None => []
          | Some e =>
              let d := k_data (f_node e) in
              match k_kind (f_node e) with
              | 1 => match find_unchanged others (c_fid c) 1 d with
                     | Some pk =>
                         match cache pk with
                         | Some id => [(p, id, false)]
                         | None => if c_cc c then [(p, Hb d, true)] else [(p, Hb d, false)]
                         end
                     | None => [(p, Hb d, true)]
                     end
              | 2 => [(p, Hb d,
                       match find_unchanged others (c_fid c) 2 d with
                       | Some _ => false
                       (* since 1182025: a symlink that used to have a banned name was never exported *)
                       | None => c_cc c || c_old_banned c end)]
              | _ => []
              end
          end
      end) cs.

  Fixpoint sm_get (sm : list (path * sha * bool)) (p : path) : option sha :=
    match sm with
    | [] => None
    | (q, id, _) :: r => match sm_get r p with         (* dict: the last assignment wins *)
                         | Some x => Some x
                         | None => if path_eqb q p then Some id else None
                         end
    end.

  Variable sm : list (path * sha * bool).
  Variable um : umap.

  (* ie_to_hexsha for files and symlinks *)
  Definition leaf_id (p : path) (k : key) (d : bytes) : sha :=
    match sm_get sm p with
    | Some id => id
    | None => match cache k with Some id => id | None => Hb d end
    end.

  (* ie_to_hexsha for directories = directory_to_tree with ie_to_hexsha (a shamap hit for a
     directory is the memoised value of this very function) *)
  Fixpoint incr_tree (allow_empty : bool) (p : path) (t : ktree) {struct t} : option sha :=
    match t with
    | KFile k c _ => Some (leaf_id p k c)
    | KLink k tg => Some (leaf_id p k tg)
    | KDir _ ch =>
        let es :=
          (fix go (l : list (name * ktree)) : list (N * name * sha) :=
             match l with
             | [] => []
             | (n, c) :: r =>
                 if banned n then go r
                 else match incr_tree false (p ++ [n]) c with
                      | Some i => (mode_of um (p ++ [n]) (erase c), n, i) :: go r
                      | None => go r
                      end
             end) ch in
        match es with
        | [] => if allow_empty then Some (Ht []) else None
        | _ => Some (Ht (isort (fun e => let '(m, n, _) := e in if is_dir_mode m then n ++ [47] else n) es))
        end
    end.
End Incremental.

Arguments gid {sha}. Arguments find_unchanged : clear implicits.
Arguments first_loop {sha}. Arguments sm_get {sha}. Arguments leaf_id {sha}. Arguments incr_tree {sha}.

Section Incr2.
  Variable sha : Type.
  Variable Hb : bytes -> sha.
  Variable Ht : list (N * name * sha) -> sha.

  (* _tree_to_objects + the root handling of _revision_to_objects:
     [parent_root] is the root tree id of the left-hand parent (None: no parent) *)
  Definition incremental (cache : key -> option sha) (others : list (list fent)) (cs : list change)
             (um : umap) (parent_root : option sha) (t : ktree) : sha :=
    match dirty_dirs cs um with
    | [] => match parent_root with Some r => r | None => Ht [] end
    | _ => let sm := first_loop Hb cache others cs (flat t) in
           match incr_tree Hb Ht cache sm um true [] t with Some r => r | None => Ht [] end
    end.
End Incr2.
Arguments incremental {sha}.

(* ---- concrete instance used by the correspondence run: ids ARE structures --- *)
Definition HbG (d : bytes) : gobj := GBlob d.
Definition HtG (es : list (N * name * gobj)) : gobj := GTree es.

Fixpoint obs_g (g : gobj) : obs :=
  match g with
  | GBlob d => OB d
  | GTree es =>
      OL ((fix go (l : list (N * name * gobj)) : list obs :=
             match l with
             | [] => []
             | (m, n, c) :: r => OL [oN m; OB n; obs_g c] :: go r
             end) es)
  end.

Definition join_path (p : path) : bytes := join [47] p.

(* listing of a Bazaar tree: (path, kind, data, exec) in path order, root omitted *)
Fixpoint listing (p : path) (t : etree) {struct t} : list (bytes * obs) :=
  match t with
  | EFile c x => [(join_path p, OL [OB (join_path p); OT "file"; OB c; obool x])]
  | ELink tg => [(join_path p, OL [OB (join_path p); OT "symlink"; OB tg; obool false])]
  | EDir ch =>
      (match p with [] => [] | _ => [(join_path p, OL [OB (join_path p); OT "directory"; OB []; obool false])] end) ++
      (fix go (l : list (name * etree)) : list (bytes * obs) :=
         match l with
         | [] => []
         | (n, c) :: r => listing (p ++ [n]) c ++ go r
         end) ch
  end.
Definition olisting (t : etree) : obs :=
  OL (map snd (isort (fun x => fst x) (listing [] t))).

(* history cases: revision i = (parents (indices < i), tree) *)
Definition hist := list (list nat * ktree).

Definition all_leaf_keys (trees : list ktree) : list (key * bytes) :=
  flat_map (fun t => flat_map (fun e => match f_node e with
                                        | KDir _ _ => []
                                        | n => [(k_key n, k_data n)] end) (flat t)) trees.
Definition key_eqb (a b : key) : bool := bytes_eqb (fst a) (fst b) && bytes_eqb (snd a) (snd b).
Fixpoint assoc_key (l : list (key * bytes)) (k : key) : option bytes :=
  match l with
  | [] => None
  | (k', d) :: r => if key_eqb k' k then Some d else assoc_key r k
  end.

(* the cache after converting revisions 0..i-1: every leaf key of those trees *)
Definition cache_of (trees : list ktree) (k : key) : option gobj :=
  option_map HbG (assoc_key (all_leaf_keys trees) k).

Definition EMPTY_ROOT : ktree := KDir ([], []) [].

Definition is_dir_at (t : list fent) (p : path) : bool :=
  match find_path p t with Some e => k_kind (f_node e) =? 0 | None => false end.

Fixpoint sub_at (p : path) (t : ktree) : option ktree :=
  match p with
  | [] => Some t
  | a :: r => match t with
              | KDir _ ch =>
                  (fix go (l : list (name * ktree)) : option ktree :=
                     match l with
                     | [] => None
                     | (n, c) :: l' => if bytes_eqb n a then sub_at r c else go l'
                     end) ch
              | _ => None
              end
  end.

Fixpoint dedup_paths (l : list path) : list path :=
  match l with
  | [] => []
  | p :: r => if existsb (path_eqb p) r then dedup_paths r else p :: dedup_paths r
  end.

(* paths of the objects _tree_to_objects yields *)
Definition yields (cache : key -> option gobj) (others : list (list fent)) (cs : list change)
           (um : umap) (t : ktree) : list bytes :=
  let sm := first_loop HbG cache others cs (flat t) in
  let blobs := flat_map (fun x => let '(p, _, y) := x in if y : bool then [join_path p] else []) sm in
  let dirs := flat_map (fun d =>
                if is_dir_at (flat t) d then
                  match sub_at d t with
                  | Some st => match incr_tree HbG HtG cache sm um (match d with [] => true | _ => false end) d st with
                               | Some _ => [join_path d] | None => [] end
                  | None => []
                  end
                else []) (dedup_paths (dirty_dirs cs um)) in
  isort (fun x => x) (blobs ++ dirs).

Definition no_dirty_implies_same (cs : list change) (base t : ktree) : bool :=
  match dirty_dirs cs [] with
  | [] => match to_git [] true [] (erase base), to_git [] true [] (erase t) with
          | Some a, Some b => obs_eqb (obs_g a) (obs_g b)
          | _, _ => false
          end
  | _ => true
  end.

(* one native history: for every revision
     [incremental root structure; yielded paths; from-scratch structure; listing of the tree minus
      empty directories; listing after push (of the INCREMENTAL export) + fetch] *)
Fixpoint run_native_aux (done : list ktree) (roots : list gobj) (h : hist) : list obs :=
  match h with
  | [] => []
  | (ps, t) :: r =>
      let ptrees := map (fun i => nth i done EMPTY_ROOT) ps in
      let base := match ptrees with b :: _ => b | [] => EMPTY_ROOT end in
      let basef := match ptrees with _ :: _ => flat base | [] => [] end in
      let others := map flat (tl ptrees) in
      let cs := changes basef (flat t) in
      let cache := cache_of done in
      (* the root tree the left-hand parent was actually exported with *)
      let proot := match ps with p :: _ => Some (nth p roots (GTree [])) | [] => None end in
      let inc := incremental HbG HtG cache others cs [] proot t in
      OL [obs_g inc;
          OL (map OB (yields cache others cs [] t));
          obs_g (to_git_root [] (erase t));
          match drop_empty true (erase t) with Some d => olisting d | None => ON end;
          olisting (of_git M_DIR inc)] :: run_native_aux (done ++ [t]) (roots ++ [inc]) r
  end.
Definition run_native (h : hist) : obs := OL (run_native_aux [] [] h).

(* one git-origin history: for every commit tree
     [listing of the imported Bazaar tree; unusual modes; re-exported structure] *)
Definition oum (um : umap) : obs :=
  OL (map snd (isort (fun x => fst x) (map (fun pm => (join_path (fst pm), OL [OB (join_path (fst pm)); oN (snd pm)])) um))).
Definition run_git (gs : list gobj) : obs :=
  OL (map (fun g => let t := of_git M_DIR g in let um := um_of [] g in
                    OL [olisting t; oum um; obs_g (to_git_root um t)]) gs).
