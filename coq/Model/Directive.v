(* Model/Directive.v -- hand model of the merge-directive codec (C40).

   breezy/merge_directive.py   BaseMergeDirective._to_lines, MergeDirective2.to_lines,
                               MergeDirective.from_lines (the dispatcher), MergeDirective2._from_lines,
                               MergeDirective2.__init__ (NoMergeSource), MergeDirective2._verify_patch
   crates/patch/src/timestamp.rs + crates/patch-py/src/lib.rs
                               format_patch_date, parse_patch_date (the directive's `timestamp` field)
   breezy/bzr/bundle/serializer/v4.py
                               BundleWriter.encode_name, BundleReader.decode_name (record names)

   Environment (outside /repo: bzrformats' compiled rio / rio_patch, Python bytes methods, `re`),
   modelled here from the historical Python source of bzrlib.rio and validated byte for byte by
   the correspondence run:
     rio.Stanza(kwargs) (sorted keys), Stanza.add, Stanza.to_lines, rio_patch.to_patch_lines
     (backslash escaping, 72-column wrapping with the break search, `\r` escaping, the
     trailing-space marker), rio_patch.read_patch_stanza (consumes the iterator up to the blank
     line), rio read_stanza with trim_newline, bytes.splitlines(True), bytes.rstrip,
     re.sub(b"\r\n?", b"\n"), re.sub(b" *\n", b"\n"), re.split(b"(//?)"), chrono's
     "%Y-%m-%d %H:%M:%S" (via Model/OsUtils.v: fmt_fields / parse_dt).
   Strings are modelled as their UTF-8 bytes (every Python str field is valid UTF-8 by
   construction; decode errors of invalid UTF-8 are outside the model).
   The reader is modelled on the writer's image and on clean LF-terminated input only: the
   compiled reader's look-ahead on CRLF-damaged terminator lines is not modelled. *)
From Coq Require Import String Ascii ZArith NArith List Bool.
From BV Require Import Lib.Bytes Lib.Obs Model.OsUtils.
Import ListNotations.
Open Scope N_scope.

Definition CR : N := 13.
Definition TAB : N := 9.
Definition BSL : N := 92.       (* backslash *)
Definition HASH : N := 35.
Definition LOWER_R : N := 114.

Inductive rres (A : Type) : Type :=
| ROk (a : A)
| RErr (e : string).
Arguments ROk {A} a.
Arguments RErr {A} e.

Definition bind {A B} (r : rres A) (f : A -> rres B) : rres B :=
  match r with ROk a => f a | RErr e => RErr e end.

(* ------------------------------------------------------------------ *)
(* 1. rio: Stanza.to_lines / read_stanza                               *)
(* ------------------------------------------------------------------ *)
Definition stanza := list (bytes * bytes).          (* (tag, value) in insertion order *)

(* Stanza.to_lines without the final LF of each line: "tag: v0", then "\t" + v_i *)
Definition rio_item_bodies (item : bytes * bytes) : list bytes :=
  match split1 LF (snd item) with
  | [] => []
  | v0 :: vs => (fst item ++ COLON :: SP :: v0) :: map (fun v => TAB :: v) vs
  end.
Definition rio_bodies (st : stanza) : list bytes := flat_map rio_item_bodies st.

(* rio.valid_tag: ^[-a-zA-Z0-9_]+$ *)
Definition tag_char (c : N) : bool :=
  (c =? DASH) || (c =? 95) || ((48 <=? c) && (c <=? 57)) || ((65 <=? c) && (c <=? 90))
  || ((97 <=? c) && (c <=? 122)).
Definition valid_tag (t : bytes) : bool :=
  match t with [] => false | _ => forallb tag_char t end.

(* trim_newline: drop every trailing LF / CR *)
Fixpoint trim_newline (s : bytes) : bytes :=
  match s with
  | [] => []
  | c :: t => match trim_newline t with
              | [] => if (c =? LF) || (c =? CR) then [] else [c]
              | t' => c :: t'
              end
  end.

(* index of the first ": " *)
Fixpoint find_colon_sp (s : bytes) : option nat :=
  match s with
  | [] => None
  | c :: t => match t with
              | d :: _ => if (c =? COLON) && (d =? SP) then Some O
                          else option_map S (find_colon_sp t)
              | [] => None
              end
  end.

(* reader state: finished items (reversed), current (tag, value so far) *)
Record rstate := { r_done : stanza; r_cur : option (bytes * bytes) }.
Definition r_init : rstate := {| r_done := []; r_cur := None |}.
Definition r_finish (st : rstate) : option stanza :=
  match r_cur st with
  | None => None
  | Some it => Some (rev (it :: r_done st))
  end.

Inductive fed :=
| FStop                       (* blank line: end of stanza *)
| FCont (st : rstate)
| FFail (e : string).

(* one iteration of read_stanza's loop on a logical line *)
Definition feed (st : rstate) (line : bytes) : fed :=
  let l := trim_newline line in
  match l with
  | [] => FStop
  | c :: body =>
      if c =? TAB then
        match r_cur st with
        | None => FFail "ValueError"
        | Some (tag, v) => FCont {| r_done := r_done st; r_cur := Some (tag, v ++ LF :: body) |}
        end
      else
        match find_colon_sp l with
        | None => FFail "ValueError"
        | Some i =>
            let tag := firstn i l in
            if valid_tag tag then
              FCont {| r_done := match r_cur st with Some it => it :: r_done st | None => r_done st end;
                       r_cur := Some (tag, skipn (i + 2) l) |}
            else FFail "ValueError"
        end
  end.

(* ------------------------------------------------------------------ *)
(* 2. rio_patch: to_patch_lines                                        *)
(* ------------------------------------------------------------------ *)
Definition esc_bs (s : bytes) : bytes :=
  flat_map (fun c => if c =? BSL then [BSL; BSL] else [c]) s.
Definition esc_cr (s : bytes) : bytes :=
  flat_map (fun c => if c =? CR then [BSL; LOWER_R] else [c]) s.

(* index of the last occurrence *)
Fixpoint last_index (c : N) (s : bytes) : option nat :=
  match s with
  | [] => None
  | x :: t => match last_index c t with
              | Some i => Some (S i)
              | None => if x =? c then Some O else None
              end
  end.
(* bytes.rfind(c, -20) *)
Definition rfind_tail (c : N) (s : bytes) : Z :=
  match last_index c s with
  | Some i => if (Z.of_nat (length s) - 20 <=? Z.of_nat i)%Z then Z.of_nat i else (-1)%Z
  | None => (-1)%Z
  end.
Definition break_index (part : bytes) : Z :=
  let b1 := rfind_tail SP part in
  let b2 := if (b1 <? 3)%Z then (rfind_tail DASH part + 1)%Z else b1 in
  if (b2 <? 3)%Z then rfind_tail SLASH part else b2.

Definition MAX_RIO_WIDTH : nat := 68.     (* max_width 72 - 4 *)

Definition ends_with (c : N) (s : bytes) : bool :=
  match rev s with x :: _ => x =? c | [] => false end.

(* the (partline, rest of line) chosen by one iteration of the while loop *)
Definition split_piece (line : bytes) : bytes * bytes :=
  let part0 := firstn MAX_RIO_WIDTH line in
  let rest0 := skipn MAX_RIO_WIDTH line in
  match rest0 with
  | [] => (part0, [])
  | _ :: _ =>
      let bi := break_index part0 in
      if (3 <=? bi)%Z
      then (firstn (Z.to_nat bi) part0, skipn (Z.to_nat bi) part0 ++ rest0)
      else (part0, rest0)
  end.

Definition BLANK_CONT : bytes := [HASH; SP; SP; SP; LF].

Fixpoint wrap_loop (fuel : nat) (line : bytes) : list bytes :=
  match fuel with
  | O => []
  | S f =>
      match line with
      | [] => []
      | _ :: _ =>
          let (part, rest) := split_piece line in
          let p := esc_cr part in
          match rest with
          | _ :: _ => (HASH :: SP :: p ++ [BSL; LF]) :: wrap_loop f (SP :: SP :: rest)
          | [] => if ends_with SP p
                  then [HASH :: SP :: p ++ [BSL; LF]; BLANK_CONT]
                  else [HASH :: SP :: p ++ [LF]]
          end
      end
  end.

(* the physical lines of one rio line body *)
Definition wrap_body (body : bytes) : list bytes :=
  let line := esc_bs body in wrap_loop (S (length line)) line.
Definition to_patch_lines (st : stanza) : list bytes := flat_map wrap_body (rio_bodies st).

(* ------------------------------------------------------------------ *)
(* 3. rio_patch: read_patch_stanza                                     *)
(* ------------------------------------------------------------------ *)
(* re.sub(b'\\\\(.|\n)', mapget, line); the compiled reader keeps unknown escapes *)
Fixpoint unescape (s : bytes) : bytes :=
  match s with
  | [] => []
  | c :: t =>
      if c =? BSL then
        match t with
        | [] => [BSL]
        | d :: t' =>
            if d =? BSL then BSL :: unescape t'
            else if d =? LOWER_R then CR :: unescape t'
            else if d =? LF then unescape t'
            else BSL :: d :: unescape t'
        end
      else c :: unescape t
  end.

Definition strip_hash (l : bytes) : option bytes :=
  match l with
  | c :: t => if c =? HASH
              then match t with
                   | d :: t' => if d =? SP then Some t' else Some t
                   | [] => Some []
                   end
              else None
  | [] => None
  end.

(* re.sub(b'\r\n$', b'\n', line) on a line with at most one, final, LF *)
Definition crlf_end (l : bytes) : bytes :=
  match rev l with
  | a :: b :: r => if (a =? LF) && (b =? CR) then rev (LF :: r) else l
  | _ => l
  end.

Definition decode_phys (cont : bool) (ph : bytes) : option bytes :=
  match strip_hash ph with
  | None => None
  | Some l1 =>
      let l2 := if cont && (2 <? length l1)%nat then skipn 2 l1 else l1 in
      Some (unescape (crlf_end l2))
  end.

(* _patch_stanza_iter: the next logical line and the physical lines not yet consumed *)
Fixpoint patch_next (last : option bytes) (lines : list bytes) : option (rres bytes * list bytes) :=
  match lines with
  | [] => match last with Some l => Some (ROk l, []) | None => None end
  | ph :: rest =>
      match decode_phys (match last with Some _ => true | None => false end) ph with
      | None => Some (RErr "ValueError", rest)
      | Some l =>
          let ll := match last with Some a => a ++ l | None => l end in
          if ends_with LF ll then Some (ROk ll, rest) else patch_next (Some ll) rest
      end
  end.

(* read_stanza over the lazy logical-line iterator: returns the stanza and the unread lines *)
Fixpoint read_stanza_loop (fuel : nat) (st : rstate) (lines : list bytes)
  : rres (option stanza) * list bytes :=
  match fuel with
  | O => (RErr "fuel", lines)
  | S f =>
      match patch_next None lines with
      | None => (ROk (r_finish st), [])
      | Some (RErr e, rest) => (RErr e, rest)
      | Some (ROk ll, rest) =>
          match feed st ll with
          | FStop => (ROk (r_finish st), rest)
          | FCont st' => read_stanza_loop f st' rest
          | FFail e => (RErr e, rest)
          end
      end
  end.
Definition read_patch_stanza (lines : list bytes) : rres (option stanza) * list bytes :=
  read_stanza_loop (S (length lines)) r_init lines.

Fixpoint sget (key : bytes) (st : stanza) : option bytes :=
  match st with
  | [] => None
  | (t, v) :: r => if bytes_eqb t key then Some v else sget key r
  end.

(* ------------------------------------------------------------------ *)
(* 4. patch dates (crates/patch/src/timestamp.rs)                      *)
(* ------------------------------------------------------------------ *)
Open Scope Z_scope.

(* format_patch_date(secs, offset) after the pyo3 shim truncated floats to i64.
   None = ValueError (offset not whole minutes, negative local time) or a year
   outside 0..9999 (not modelled: chrono prints a sign). *)
Definition format_patch_date (secs offset : Z) : option bytes :=
  if negb (Z.rem offset 60 =? 0) then None else
  let offset := if secs =? 0 then 0 else offset in
  if secs + offset <? 0 then None else
  let ts := secs + offset in
  let days := ts / 86400 in
  let sod := ts mod 86400 in
  match civil_from_days days with
  | (y, m, d) =>
      if (0 <=? y) && (y <=? 9999) then
        let sign := if 0 <=? offset then PLUS else DASH in
        let hours := Z.abs offset / 3600 in
        let minutes := (Z.abs offset / 60) mod 60 in
        Some (fmt_fields y m d (sod / 3600) ((sod / 60) mod 60) (sod mod 60)
              ++ SP :: sign :: pad2 hours ++ pad2 minutes)
      else None
  end.

(* parse_patch_date on the canonical shape "<19 chars> [+-]HHMM"; the regex is more lenient
   (free field widths, optional blanks): not modelled.  The sign of the "[+-]HH" group applies
   to the minutes as well (repaired 2026-09-22: "-0330" used to give -3*3600 + 30*60). *)
Definition parse_patch_date (s : bytes) : option (Z * Z) :=
  let dt := firstn 19 s in
  match skipn 19 s with
  | [sp; sg; h1; h2; m1; m2] =>
      if (sp =? SP)%N && ((sg =? PLUS)%N || (sg =? DASH)%N) then
        match parse2 h1 h2, parse2 m1 m2 with
        | Some hh, Some mm =>
            let offset_hours := if (sg =? DASH)%N then - hh else hh in
            if (24 <=? Z.abs offset_hours) || (60 <=? mm) then None else
            let offset_minutes := if (sg =? DASH)%N then - mm else mm in
            let offset := offset_hours * 3600 + offset_minutes * 60 in
            match parse_dt dt with
            | Some t => Some (t - offset, offset)
            | None => None
            end
        | _, _ => None
        end
      else None
  | _ => None
  end.

Close Scope Z_scope.

(* ------------------------------------------------------------------ *)
(* 5. MergeDirective2                                                  *)
(* ------------------------------------------------------------------ *)
Record directive := {
  d_revision_id : bytes;
  d_testament_sha1 : option bytes;
  d_time : Z;                        (* whole seconds (floor) *)
  d_nanos : Z;                       (* fractional part of a float time, 0 for an int *)
  d_timezone : Z;
  d_target_branch : bytes;
  d_source_branch : option bytes;
  d_message : option bytes;
  d_base_revision_id : bytes;
  d_patch : option bytes;
  d_bundle : option bytes
}.

Definition FORMAT2 : bytes := asc "Bazaar merge directive format 2 (Bazaar 0.90)".
Definition FORMAT2_OLD : bytes := asc "Bazaar merge directive format 2 (Bazaar 0.19)".
Definition FORMAT1 : bytes := asc "Bazaar merge directive format 1".
Definition HEADER_PREFIX : bytes := asc "# Bazaar merge directive format ".
Definition BEGIN_PATCH : bytes := asc "# Begin patch".
Definition BEGIN_BUNDLE : bytes := asc "# Begin bundle".
Definition K_REVISION_ID : bytes := asc "revision_id".
Definition K_TARGET_BRANCH : bytes := asc "target_branch".
Definition K_TESTAMENT_SHA1 : bytes := asc "testament_sha1".
Definition K_TIMESTAMP : bytes := asc "timestamp".
Definition K_SOURCE_BRANCH : bytes := asc "source_branch".
Definition K_MESSAGE : bytes := asc "message".
Definition K_BASE_REVISION_ID : bytes := asc "base_revision_id".
Definition TERMINATOR : bytes := [HASH; SP; LF].

Definition opt_item (k : bytes) (o : option bytes) : stanza :=
  match o with Some v => [(k, v)] | None => [] end.

(* the stanza built by _to_lines(base_revision=True): Stanza(kwargs) sorts its keys,
   the later stanza.add calls append *)
Definition stanza_of (d : directive) (time_str : bytes) : stanza :=
  [(K_REVISION_ID, d_revision_id d); (K_TARGET_BRANCH, d_target_branch d)]
  ++ opt_item K_TESTAMENT_SHA1 (d_testament_sha1 d)
  ++ [(K_TIMESTAMP, time_str)]
  ++ opt_item K_SOURCE_BRANCH (d_source_branch d)
  ++ opt_item K_MESSAGE (d_message d)
  ++ [(K_BASE_REVISION_ID, d_base_revision_id d)].

(* bytes.splitlines(True): LF, CR and CRLF end a line *)
Fixpoint splitlines_aux (cur : bytes) (s : bytes) : list bytes :=
  match s with
  | [] => match cur with [] => [] | _ => [rev cur] end
  | c :: t =>
      if c =? LF then rev (c :: cur) :: splitlines_aux [] t
      else if c =? CR then
        match t with
        | d :: t' => if d =? LF then rev (d :: c :: cur) :: splitlines_aux [] t'
                     else rev (c :: cur) :: splitlines_aux [] t
        | [] => [rev (c :: cur)]
        end
      else splitlines_aux (c :: cur) t
  end.
Definition splitlines (s : bytes) : list bytes := splitlines_aux [] s.

Definition payload_lines (d : directive) : list bytes :=
  match d_patch d with
  | Some p => (BEGIN_PATCH ++ [LF]) :: splitlines p
  | None => []
  end ++
  match d_bundle d with
  | Some b => (BEGIN_BUNDLE ++ [LF]) :: splitlines b
  | None => []
  end.

(* _to_lines(base_revision=True): header line, the stanza as RIO-patch lines, the blank line *)
Definition head_lines (d : directive) (ts : bytes) : list bytes :=
  (HASH :: SP :: FORMAT2 ++ [LF]) :: to_patch_lines (stanza_of d ts) ++ [TERMINATOR].
(* MergeDirective2.to_lines *)
Definition to_lines (d : directive) : rres (list bytes) :=
  match format_patch_date (d_time d) (d_timezone d) with
  | None => RErr "ValueError"
  | Some ts => ROk (head_lines d ts ++ payload_lines d)
  end.
(* MergeDirective2.__init__ *)
Definition ctor_ok (d : directive) : bool :=
  match d_source_branch d, d_bundle d with None, None => false | _, _ => true end.

(* bytes.rstrip() *)
Definition is_ws (c : N) : bool :=
  (c =? SP) || (c =? TAB) || (c =? LF) || (c =? CR) || (c =? 11) || (c =? 12).
Fixpoint rstrip (s : bytes) : bytes :=
  match s with
  | [] => []
  | c :: t => match rstrip t with
              | [] => if is_ws c then [] else [c]
              | t' => c :: t'
              end
  end.

(* the body of "for line in line_iter" after "# Begin patch" *)
Fixpoint take_patch (acc : list bytes) (lines : list bytes) : list bytes * option (bytes * list bytes) :=
  match lines with
  | [] => (rev acc, None)
  | l :: rest => if prefixb BEGIN_BUNDLE l then (rev acc, Some (l, rest))
                 else take_patch (l :: acc) rest
  end.

Definition all_ascii (s : bytes) : bool := forallb (fun c => c <? 128) s.

(* MergeDirective2._from_lines *)
Definition from_lines2 (lines : list bytes) : rres directive :=
  match read_patch_stanza lines with
  | (RErr e, _) => RErr e
  | (ROk None, _) => RErr "AttributeError"          (* stanza is None *)
  | (ROk (Some st), rest) =>
      let payload : rres (option bytes * option bytes) :=
        match rest with
        | [] => ROk (None, None)
        | start :: more =>
            if prefixb BEGIN_PATCH start then
              match take_patch [] more with
              | (pl, None) => ROk (Some (concat pl), None)
              | (pl, Some (_, bl)) => ROk (Some (concat pl), Some (concat bl))
              end
            else if prefixb BEGIN_BUNDLE start then ROk (None, Some (concat more))
            else RErr "IllegalMergeDirectivePayload"
        end in
      bind payload (fun pb =>
      match sget K_TIMESTAMP st with
      | None => RErr "TypeError"
      | Some ts =>
          match parse_patch_date ts with
          | None => RErr "ValueError"
          | Some (time, timezone) =>
              match sget K_REVISION_ID st, sget K_BASE_REVISION_ID st with
              | Some rid, Some brid =>
                  (* testament_sha1 is a required keyword of MergeDirective2.__init__ *)
                  match sget K_TESTAMENT_SHA1 st with
                  | None => RErr "TypeError"
                  | Some sha =>
                  if all_ascii sha then
                    match sget K_TARGET_BRANCH st with
                    | None => RErr "TypeError"
                    | Some tb =>
                        let sb := sget K_SOURCE_BRANCH st in
                        match sb, snd pb with
                        | None, None => RErr "NoMergeSource"
                        | _, _ =>
                            ROk {| d_revision_id := rid; d_testament_sha1 := Some sha;
                                   d_time := time; d_nanos := 0; d_timezone := timezone;
                                   d_target_branch := tb; d_source_branch := sb;
                                   d_message := sget K_MESSAGE st; d_base_revision_id := brid;
                                   d_patch := fst pb; d_bundle := snd pb |}
                        end
                    end
                  else RErr "UnicodeEncodeError"
                  end
              | _, _ => RErr "KeyError"
              end
          end
      end)
  end.

(* MergeDirective.from_lines: skip to the header line, dispatch on the format string.
   Format 1 directives are not modelled (distinct error). *)
Fixpoint from_lines (lines : list bytes) : rres directive :=
  match lines with
  | [] => RErr "NotAMergeDirective"
  | l :: rest =>
      if prefixb HEADER_PREFIX l then
        let fmt := rstrip (skipn 2 l) in
        if bytes_eqb fmt FORMAT2 || bytes_eqb fmt FORMAT2_OLD then from_lines2 rest
        else if bytes_eqb fmt FORMAT1 then RErr "Format1NotModelled"
        else RErr "KeyError"
      else from_lines rest
  end.

(* a file object iterates LF-terminated lines: from_lines(BytesIO(joined lines)) *)
Fixpoint split_lf_aux (cur : bytes) (s : bytes) : list bytes :=
  match s with
  | [] => match cur with [] => [] | _ => [rev cur] end
  | c :: t => if c =? LF then rev (c :: cur) :: split_lf_aux [] t else split_lf_aux (c :: cur) t
  end.
Definition split_lf (s : bytes) : list bytes := split_lf_aux [] s.
Definition from_text (text : bytes) : rres directive := from_lines (split_lf text).

(* ------------------------------------------------------------------ *)
(* 6. _verify_patch                                                    *)
(* ------------------------------------------------------------------ *)
(* re.sub(b"\r\n?", b"\n", s) *)
Fixpoint norm_eol (s : bytes) : bytes :=
  match s with
  | [] => []
  | c :: t =>
      if c =? CR then
        match t with
        | d :: t' => if d =? LF then LF :: norm_eol t' else LF :: norm_eol t
        | [] => [LF]
        end
      else c :: norm_eol t
  end.
(* re.sub(b" *\n", b"\n", s): a run of blanks directly before a LF disappears *)
Fixpoint strip_trailing_ws (pending : bytes) (s : bytes) : bytes :=
  match s with
  | [] => pending
  | c :: t =>
      if c =? SP then strip_trailing_ws (SP :: pending) t
      else if c =? LF then LF :: strip_trailing_ws [] t
      else pending ++ c :: strip_trailing_ws [] t
  end.
Definition norm_patch (s : bytes) : bytes := strip_trailing_ws [] (norm_eol s).
(* _verify_patch: stored patch against the patch recomputed from the repository *)
Definition verify_patch (stored calculated : bytes) : bool :=
  bytes_eqb (norm_patch calculated) (norm_patch stored).
(* _maybe_verify *)
Definition maybe_verify (stored : option bytes) (calculated : bytes) : string :=
  match stored with
  | None => "inapplicable"
  | Some p => if verify_patch p calculated then "verified" else "failed"
  end.

Definition set_byte (i : nat) (b : N) (s : bytes) : bytes :=
  firstn i s ++ match skipn i s with [] => [] | _ :: t => b :: t end.

(* ------------------------------------------------------------------ *)
(* 7. v4 record names                                                  *)
(* ------------------------------------------------------------------ *)
Definition esc_slash (s : bytes) : bytes :=
  flat_map (fun c => if c =? SLASH then [SLASH; SLASH] else [c]) s.
Definition KINDS : list bytes :=
  [asc "revision"; asc "file"; asc "inventory"; asc "signature"; asc "info"].
(* BundleWriter.encode_name *)
Definition encode_name (kind : bytes) (revision_id file_id : option bytes) : rres bytes :=
  if negb (existsb (bytes_eqb kind) KINDS) then RErr "ValueError" else
  let is_file := bytes_eqb kind (asc "file") in
  let is_info := bytes_eqb kind (asc "info") in
  if is_file && match file_id with None => true | Some _ => false end then RErr "AssertionError" else
  if negb is_file && match file_id with None => false | Some _ => true end then RErr "AssertionError" else
  if is_info && match revision_id with None => false | Some _ => true end then RErr "AssertionError" else
  if negb is_info && match revision_id with None => true | Some _ => false end then RErr "AssertionError" else
  ROk (join [SLASH] (map esc_slash
        (kind :: match revision_id with Some r => [r] | None => [] end
              ++ match file_id with Some f => [f] | None => [] end))).

(* re.split(b"(//?)", name) folded into the names list *)
Fixpoint decode_go (cur : bytes) (acc : list bytes) (s : bytes) : list bytes :=
  match s with
  | [] => rev (rev cur :: acc)
  | c :: t =>
      if c =? SLASH then
        match t with
        | d :: t' => if d =? SLASH then decode_go (SLASH :: cur) acc t'
                     else decode_go [] (rev cur :: acc) t
        | [] => decode_go [] (rev cur :: acc) t
        end
      else decode_go (c :: cur) acc t
  end.
Definition decode_names (name : bytes) : list bytes := decode_go [] [] name.
(* BundleReader.decode_name *)
Definition decode_name (name : bytes) : bytes * option bytes * option bytes :=
  match decode_names name with
  | k :: r :: f :: _ => (k, Some r, Some f)
  | [k; r] => (k, Some r, None)
  | [k] => (k, None, None)
  | [] => ([], None, None)
  end.

(* ------------------------------------------------------------------ *)
(* 8. record integrity over an abstract hash                           *)
(* ------------------------------------------------------------------ *)
Section Hash.
  Variable H : bytes -> bytes.
  (* a bundle record as installed by RevisionInstaller / validated by BundleInfo:
     the content and the sha1 carried next to it *)
  Definition record_ok (text sha : bytes) : bool := bytes_eqb (H text) sha.
  Definition install_record (text sha : bytes) : rres bytes :=
    if record_ok text sha then ROk text else RErr "BadBundle".
End Hash.

(* ------------------------------------------------------------------ *)
(* 9. observations                                                     *)
(* ------------------------------------------------------------------ *)
Definition oerr {A} (f : A -> obs) (r : rres A) : obs :=
  match r with ROk a => f a | RErr e => OE e end.
Definition obytes_opt (o : option bytes) : obs := oopt OB o.
Definition odirective (d : directive) : obs :=
  OL [OB (d_revision_id d); obytes_opt (d_testament_sha1 d); OZ (d_time d); OZ (d_nanos d);
      OZ (d_timezone d); OB (d_target_branch d); obytes_opt (d_source_branch d);
      obytes_opt (d_message d); OB (d_base_revision_id d); obytes_opt (d_patch d);
      obytes_opt (d_bundle d)].

(* case "codec": to_lines, from_lines of them, from_lines of the joined text *)
Definition run_codec (d : directive) : obs :=
  if negb (ctor_ok d) then OE "NoMergeSource" else
  match to_lines d with
  | RErr e => OE e
  | ROk ls => OL [olist OB ls; oerr odirective (from_lines ls); oerr odirective (from_text (concat ls))]
  end.
(* case "tamper": byte i of the payload part of the serialised text replaced by b, then
   from_lines on the text and _maybe_verify against the original patch *)
Definition run_tamper (d : directive) (i : nat) (b : N) : obs :=
  if negb (ctor_ok d) then OE "NoMergeSource" else
  match format_patch_date (d_time d) (d_timezone d) with
  | None => OE "ValueError"
  | Some ts =>
      let head := concat (head_lines d ts) in
      let text' := set_byte (length head + i) b (head ++ concat (payload_lines d)) in
      match from_text text' with
      | RErr e => OE e
      | ROk d' => OL [odirective d';
                      OT (maybe_verify (d_patch d') (match d_patch d with Some p => p | None => [] end))]
      end
  end.
(* case "stanza": the environment layer alone *)
Definition run_stanza (st : stanza) : obs :=
  let ls := to_patch_lines st in
  OL [olist OB ls;
      match read_patch_stanza (ls ++ [TERMINATOR; asc "rest"]) with
      | (RErr e, _) => OE e
      | (ROk o, rest) => OL [oopt (olist (opair OB OB)) o; olist OB rest]
      end].
(* case "date" *)
Definition run_date (secs offset : Z) : obs :=
  match format_patch_date secs offset with
  | None => OE "ValueError"
  | Some s => OL [OB s; match parse_patch_date s with
                        | Some (t, o) => OL [OZ t; OZ o]
                        | None => OE "ValueError"
                        end]
  end.
(* case "verify" *)
Definition run_verify (stored calculated : bytes) : obs :=
  OL [obool (verify_patch stored calculated)].
(* case "name" *)
Definition run_name (kind : bytes) (r f : option bytes) : obs :=
  match encode_name kind r f with
  | RErr e => OE e
  | ROk n => match decode_name n with
            | (k, r', f') => OL [OB n; if all_ascii k then OL [OB k; obytes_opt r'; obytes_opt f']
                                       else OE "UnicodeDecodeError"]
            end
  end.
