(* Model/FastIO.v -- hand model of breezy/plugins/fastimport (C44), tree level.

   Exporter  (exporter.py):   BzrFastExporter._get_filecommands,
                              _process_renames_and_deletes, is_empty_dir, on top of
                              Tree.changes_from (breezy/delta.py:_compare_trees).
   Importer  (bzr_commit_handler.py): CommitHandler.modify_handler/_modify_item,
                              delete_handler/_delete_item, rename_handler/_rename_item,
                              _rename_pending_change, record_new/changed/delete/rename,
                              _add_entry, bzr_file_id_and_new, _ensure_directory,
                              _get_directory_entry, _get_final_delta/_empty_after_delta;
                              revision_store.load_using_delta = apply the delta to the
                              basis inventory (bzrformats Inventory.apply_delta:
                              environment, modelled by [apply_delta]).

   An inventory is a list of entries (id, parent id, name, kind, data, exec); the root
   directory is id 0 and implicit.  Paths are byte strings "a/b/c" as in the code.
   Definitions only; harness/props/_c44_mirror.py is the same text in Python. *)
From Coq Require Import ZArith NArith List Bool String.
From BV Require Import Lib.Bytes Lib.Obs.
Import ListNotations.
Open Scope N_scope.

(* ---------------------------------------------------------------- basics *)

Definition path := bytes.
Definition SLASH : N := 47.

Inductive kind := KFile | KLink | KDir.
Definition kind_eqb (a b : kind) : bool :=
  match a, b with KFile, KFile | KLink, KLink | KDir, KDir => true | _, _ => false end.

Record entry := mkE { e_id : N; e_par : N; e_name : bytes; e_kind : kind; e_data : bytes; e_exec : bool }.
Definition inv := list entry.

Inductive res (A : Type) := Ok (a : A) | Fail (e : string).
Arguments Ok {A} a.
Arguments Fail {A} e.
Definition bind {A B} (r : res A) (f : A -> res B) : res B :=
  match r with Ok a => f a | Fail e => Fail e end.
Notation "'do' x <- r ; k" := (bind r (fun x => k)) (at level 200, x pattern, r at level 100, k at level 200).

Fixpoint bytes_ltb (a b : bytes) : bool :=
  match a, b with
  | [], [] => false
  | [], _ :: _ => true
  | _ :: _, [] => false
  | x :: a', y :: b' => (x <? y) || ((x =? y) && bytes_ltb a' b')
  end.

Definition nonempty (p : bytes) : bool := match p with [] => false | _ => true end.

(* osutils.split: (dirname, basename) at the last "/" *)
Fixpoint span_noslash (l : bytes) : bytes * bytes :=
  match l with
  | [] => ([], [])
  | c :: l' => if c =? SLASH then ([], l) else let '(a, b) := span_noslash l' in (c :: a, b)
  end.
Definition psplit (p : path) : path * bytes :=
  let '(b_rev, rest) := span_noslash (rev p) in
  match rest with
  | [] => ([], p)
  | _ :: d_rev => (rev d_rev, rev b_rev)
  end.
Definition dirname (p : path) : path := fst (psplit p).
Definition pjoin (a b : path) : path := a ++ SLASH :: b.
Definition components (p : path) : list bytes := filter nonempty (split1 SLASH p).

(* association lists standing for Python dicts (insertion ordered) and sets *)
Section Assoc.
  Context {K V : Type} (eqb : K -> K -> bool).
  Fixpoint aget (al : list (K * V)) (k : K) : option V :=
    match al with
    | [] => None
    | (a, b) :: al' => if eqb a k then Some b else aget al' k
    end.
  Definition ahas (al : list (K * V)) (k : K) : bool :=
    match aget al k with Some _ => true | None => false end.
  Definition aset (al : list (K * V)) (k : K) (v : V) : list (K * V) :=
    if ahas al k then map (fun ab => if eqb (fst ab) k then (fst ab, v) else ab) al
    else al ++ [(k, v)].
  Definition adel (al : list (K * V)) (k : K) : list (K * V) :=
    filter (fun ab => negb (eqb (fst ab) k)) al.
End Assoc.
Definition pmem (p : path) (s : list path) : bool := existsb (bytes_eqb p) s.
Definition sadd (s : list path) (p : path) : list path := if pmem p s then s else s ++ [p].
Definition sdel (s : list path) (p : path) : list path := filter (fun q => negb (bytes_eqb q p)) s.

(* ---------------------------------------------------------------- inventories *)

Fixpoint find_entry (v : inv) (i : N) : option entry :=
  match v with
  | [] => None
  | e :: v' => if e_id e =? i then Some e else find_entry v' i
  end.
Definition has_id (v : inv) (i : N) : bool := match find_entry v i with Some _ => true | None => false end.
Fixpoint child_named (v : inv) (par : N) (nm : bytes) : option entry :=
  match v with
  | [] => None
  | e :: v' => if (e_par e =? par) && bytes_eqb (e_name e) nm then Some e else child_named v' par nm
  end.
Definition is_dir (v : inv) (i : N) : bool :=
  if i =? 0 then true
  else match find_entry v i with Some e => kind_eqb (e_kind e) KDir | None => false end.

(* Inventory.path2id *)
Fixpoint walk (v : inv) (cur : N) (comps : list bytes) : option N :=
  match comps with
  | [] => Some cur
  | c :: cs => if is_dir v cur
               then match child_named v cur c with Some e => walk v (e_id e) cs | None => None end
               else None
  end.
Definition path2id (v : inv) (p : path) : option N := walk v 0 (components p).

(* Inventory.id2path; None for a dangling parent chain or a cycle *)
Fixpoint id2path_fuel (fuel : nat) (v : inv) (i : N) : option path :=
  if i =? 0 then Some [] else
  match fuel with
  | O => None
  | S f => match find_entry v i with
           | None => None
           | Some e => match id2path_fuel f v (e_par e) with
                       | None => None
                       | Some [] => Some (e_name e)
                       | Some pp => Some (pjoin pp (e_name e))
                       end
           end
  end.
Definition id2path (v : inv) (i : N) : option path := id2path_fuel (S (List.length v)) v i.

Definition children (v : inv) (i : N) : list entry := filter (fun e => e_par e =? i) v.

Fixpoint insert_by {A} (ltb : A -> A -> bool) (x : A) (l : list A) : list A :=
  match l with
  | [] => [x]
  | y :: l' => if ltb x y then x :: l else y :: insert_by ltb x l'
  end.
Definition sort_by {A} (ltb : A -> A -> bool) (l : list A) : list A := fold_right (insert_by ltb) [] l.

(* iter_entries_by_dir(from_dir=i) without i itself: (relative path, entry) *)
Fixpoint descendants_fuel (fuel : nat) (v : inv) (i : N) : list (path * entry) :=
  match fuel with
  | O => []
  | S f => flat_map (fun e =>
             (e_name e, e) ::
             (if kind_eqb (e_kind e) KDir
              then map (fun pe => (pjoin (e_name e) (fst pe), snd pe)) (descendants_fuel f v (e_id e))
              else []))
             (sort_by (fun a b => bytes_ltb (e_name a) (e_name b)) (children v i))
  end.
Definition descendants (v : inv) (i : N) : list (path * entry) := descendants_fuel (S (List.length v)) v i.

(* what a revision tree shows: (path, mode tag, content / link target), sorted by path *)
Inductive mode := MFile | MExec | MLink | MDir.
Definition mode_of (e : entry) : mode :=
  match e_kind e with
  | KFile => if e_exec e then MExec else MFile
  | KLink => MLink
  | KDir => MDir
  end.
Definition titem := (path * mode * bytes)%type.
Definition titem_of (v : inv) (e : entry) : titem :=
  (match id2path v (e_id e) with Some p => p | None => [] end, mode_of e,
   match e_kind e with KDir => [] | _ => e_data e end).
Definition tree_of (v : inv) : list titem :=
  sort_by (fun a b => bytes_ltb (fst (fst a)) (fst (fst b))) (map (titem_of v) v).

(* ---------------------------------------------------------------- exporter *)

Inductive fcmd :=
| CM (p : path) (m : mode) (d : bytes)
| CD (p : path)
| CR (a b : path).

(* one item of a TreeDelta: id, old path, new path, old entry, new entry *)
Record change := mkC { c_id : N; c_op : path; c_np : path; c_old : option entry; c_new : option entry }.

Definition opath (v : inv) (i : N) : path := match id2path v i with Some p => p | None => [] end.

(* InventoryTreeChange.changed_content for two versioned entries *)
Definition changed_content (o e : entry) : bool :=
  if negb (kind_eqb (e_kind o) (e_kind e)) then true
  else match e_kind e with KDir => false | _ => negb (bytes_eqb (e_data o) (e_data e)) end.
Definition renamed_b (o e : entry) : bool :=
  negb (bytes_eqb (e_name o) (e_name e)) || negb (e_par o =? e_par e).

Definition by_op (a b : change) : bool := bytes_ltb (c_op a) (c_op b).
Definition by_np (a b : change) : bool := bytes_ltb (c_np a) (c_np b).

(* delta.added / removed / renamed / kind_changed / modified of new.changes_from(old), each sorted
   as _compare_trees does (key = old path if any, else new path; paths are unique in a tree) *)
Definition d_added (old new : inv) : list change :=
  sort_by by_np (flat_map (fun e => if has_id old (e_id e) then []
                                     else [mkC (e_id e) [] (opath new (e_id e)) None (Some e)]) new).
Definition both (old new : inv) (f : entry -> entry -> bool) : list change :=
  sort_by by_op (flat_map (fun o => match find_entry new (e_id o) with
                                     | Some e => if f o e then [mkC (e_id o) (opath old (e_id o)) (opath new (e_id o)) (Some o) (Some e)] else []
                                     | None => [] end) old).
Definition d_removed (old new : inv) : list change :=
  sort_by by_op (flat_map (fun o => if has_id new (e_id o) then []
                                     else [mkC (e_id o) (opath old (e_id o)) [] (Some o) None]) old).
Definition d_renamed (old new : inv) : list change := both old new renamed_b.
Definition d_kind_changed (old new : inv) : list change :=
  both old new (fun o e => negb (renamed_b o e) && negb (kind_eqb (e_kind o) (e_kind e))).
Definition d_modified (old new : inv) : list change :=
  both old new (fun o e => negb (renamed_b o e) && kind_eqb (e_kind o) (e_kind e)
                           && (changed_content o e || negb (Bool.eqb (e_exec o) (e_exec e)))).

(* BzrFastExporter.is_empty_dir(tree_old, path) *)
Definition is_empty_dir (v : inv) (p : path) : bool :=
  match path2id v p with
  | Some i => is_dir v i && match children v i with [] => true | _ => false end
  | None => false
  end.

Definition kind_of (o : option entry) : kind := match o with Some e => e_kind e | None => KFile end.
Definition content_or_meta_changed (c : change) : bool :=
  match c_old c, c_new c with
  | Some o, Some e => changed_content o e || negb (Bool.eqb (e_exec o) (e_exec e))
  | _, _ => false
  end.

(* the loop over `renames` of _process_renames_and_deletes; state =
   (file_cmds, modifies, old_to_new keys, must_be_renamed, deleted_paths) *)
Definition rn_state := (list fcmd * list change * list path * list (path * path) * list path)%type.
Definition rename_step (plain : bool) (old : inv) (s : rn_state) (c : change) : rn_state :=
  let '(cmds, mods, o2n, must, dels) := s in
  let emit := negb (kind_eqb (kind_of (c_new c)) KDir) || negb plain in
  let hit := pmem (c_np c) dels in
  let cmds := if hit && emit then cmds ++ [CD (c_np c)] else cmds in
  let dels := if hit then sdel dels (c_np c) else dels in
  if is_empty_dir old (c_op c) then (cmds, mods, o2n, must, dels)
  else
    let o2n := o2n ++ [c_op c] in
    let cmds := if emit then cmds ++ [CR (c_op c) (c_np c)] else cmds in
    let mods := if content_or_meta_changed c then mods ++ [c] else mods in
    (* plain streams: the files and symlinks below a renamed directory (tree_old.walkdirs) must be renamed
       one by one; in a rich stream the directory's own rename carries them *)
    let must := if kind_eqb (kind_of (c_old c)) KDir && kind_eqb (kind_of (c_new c)) KDir && plain
                then fold_left (fun (m : list (path * path)) (pe : path * entry) =>
                                  if kind_eqb (e_kind (snd pe)) KDir then m
                                  else aset bytes_eqb m (pjoin (c_op c) (fst pe)) (pjoin (c_np c) (fst pe)))
                               (descendants old (c_id c)) must
                else must in
    (cmds, mods, o2n, must, dels).

Definition process_renames_and_deletes (plain : bool) (renames deletes : list change) (old : inv)
  : list fcmd * list change :=
  let '(cmds, mods, o2n, must, dels) :=
    fold_left (rename_step plain old) renames ([], [], [], [], map c_op deletes) in
  let implicit := flat_map (fun ab => if pmem (fst ab) o2n || pmem (fst ab) dels then [] else [CR (fst ab) (snd ab)])
                           (sort_by (fun a b => bytes_ltb (fst a) (fst b)) must) in
  let rest := flat_map (fun c => if negb (pmem (c_op c) dels) then []
                                 else if kind_eqb (kind_of (c_old c)) KDir && plain then []
                                 else [CD (c_op c)]) deletes in
  (cmds ++ implicit ++ rest, mods).

Definition modify_cmd (plain : bool) (c : change) : list fcmd :=
  match c_new c with
  | Some e => match e_kind e with
              | KDir => if plain then [] else [CM (c_np c) MDir []]
              | _ => [CM (c_np c) (mode_of e) (e_data e)]
              end
  | None => []
  end.

Definition cmd_path (c : fcmd) : path := match c with CM p _ _ => p | CD p => p | CR a _ => a end.

(* The order of the M commands is not a function of the two trees: kind changes come in the CHK map's
   hash order and file texts in the repository's storage order (tree.iter_files_bytes).  [mpaths] is that
   order as observed in the real stream; commands it does not mention follow in path order. *)
Fixpoint take_path (p : path) (l : list fcmd) : option (fcmd * list fcmd) :=
  match l with
  | [] => None
  | c :: l' => if bytes_eqb (cmd_path c) p then Some (c, l')
               else match take_path p l' with Some (x, r) => Some (x, c :: r) | None => None end
  end.
Fixpoint order_by (mpaths : list path) (mods : list fcmd) : list fcmd :=
  match mpaths with
  | [] => mods
  | p :: ps => match take_path p mods with
               | Some (c, rest) => c :: order_by ps rest
               | None => order_by ps mods
               end
  end.

Definition mod_cmds (plain : bool) (old new : inv) : list fcmd * list fcmd :=
  let '(cmds, rd_mod) := process_renames_and_deletes plain (d_renamed old new) (d_removed old new) old in
  (cmds, flat_map (modify_cmd plain) (d_added old new ++ d_modified old new ++ d_kind_changed old new ++ rd_mod)).

(* a file or symlink that becomes a directory is deleted first (they come in kind_changed = iter_changes
   order: [dpaths], the observed order of the D commands, plays the role of [mpaths]) *)
Definition kind_dels (old new : inv) : list fcmd :=
  flat_map (fun c => if kind_eqb (kind_of (c_new c)) KDir then [CD (c_op c)] else []) (d_kind_changed old new).

(* _get_filecommands: (delete/rename commands in order, M commands in stream order) *)
Definition filecmds (plain : bool) (old new : inv) (mpaths dpaths : list path) : list fcmd * list fcmd :=
  let '(cmds, mods) := mod_cmds plain old new in
  (order_by dpaths (kind_dels old new) ++ cmds,
   order_by mpaths (sort_by (fun a b => bytes_ltb (cmd_path a) (cmd_path b)) mods)).

(* ---------------------------------------------------------------- importer: CommitHandler *)

Definition dentry := (option path * option path * N * option entry)%type.   (* (old, new, file-id, ie) *)

Record st := mkSt {
  basis : inv;                       (* self.basis_inventory *)
  fresh : N;                         (* next generate_ids.gen_file_id *)
  new_ids : list (path * N);         (* self._new_file_ids *)
  mod_ids : list (path * N);         (* self._modified_file_ids *)
  deleted : list path;               (* self._paths_deleted_this_commit *)
  dirents : list (path * entry);     (* self.directory_entries *)
  delta : list (N * dentry);         (* self._delta_entries_by_fileid *)
  maybe_empty : list path            (* self._dirs_that_might_become_empty *)
}.
Definition set_fresh s x := mkSt (basis s) x (new_ids s) (mod_ids s) (deleted s) (dirents s) (delta s) (maybe_empty s).
Definition set_new_ids s x := mkSt (basis s) (fresh s) x (mod_ids s) (deleted s) (dirents s) (delta s) (maybe_empty s).
Definition set_mod_ids s x := mkSt (basis s) (fresh s) (new_ids s) x (deleted s) (dirents s) (delta s) (maybe_empty s).
Definition set_deleted s x := mkSt (basis s) (fresh s) (new_ids s) (mod_ids s) x (dirents s) (delta s) (maybe_empty s).
Definition set_dirents s x := mkSt (basis s) (fresh s) (new_ids s) (mod_ids s) (deleted s) x (delta s) (maybe_empty s).
Definition set_delta s x := mkSt (basis s) (fresh s) (new_ids s) (mod_ids s) (deleted s) (dirents s) x (maybe_empty s).
Definition set_maybe_empty s x := mkSt (basis s) (fresh s) (new_ids s) (mod_ids s) (deleted s) (dirents s) (delta s) x.

Definition note_maybe_empty (s : st) (d : path) : st :=
  if nonempty d then set_maybe_empty s (sadd (maybe_empty s) d) else s.

(* CommitHandler._add_entry *)
Definition add_entry (s : st) (op np : option path) (i : N) (ie : option entry) : res st :=
  let existing := aget N.eqb (delta s) i in
  let op := match existing with Some (eo, _, _, _) => eo | None => op end in
  match np, op with
  | None, None =>
      match existing with
      | Some (_, Some e1, _, _) => Ok (note_maybe_empty (set_delta s (adel N.eqb (delta s) i)) (dirname e1))
      | Some _ => Fail "AssertionError"
      | None => Fail "KeyError"
      end
  | None, Some o => Ok (note_maybe_empty (set_delta s (aset N.eqb (delta s) i (op, np, i, ie))) (dirname o))
  | Some n, Some o =>
      let s := set_delta s (aset N.eqb (delta s) i (op, np, i, ie)) in
      if negb (bytes_eqb o n) && nonempty (dirname o) && negb (bytes_eqb (dirname o) (dirname n))
      then Ok (note_maybe_empty s (dirname o)) else Ok s
  | Some _, None => Ok (set_delta s (aset N.eqb (delta s) i (op, np, i, ie)))
  end.

Definition forget_dir (s : st) (k : kind) (p : path) : st :=
  if kind_eqb k KDir then set_dirents s (adel bytes_eqb (dirents s) p) else s.

(* CommitHandler.record_delete *)
Definition record_delete (s : st) (p : path) (ie : entry) : res st :=
  do s <- add_entry s (Some p) None (e_id ie) None;
  let s := set_deleted s (sadd (deleted s) p) in
  if kind_eqb (e_kind ie) KDir then
    let s := forget_dir s KDir p in
    match find_entry (basis s) (e_id ie) with
    | None => Fail "NoSuchId"
    | Some b =>
        if kind_eqb (e_kind b) KDir then
          (* iter_entries_by_dir(from_dir=id) starts with the directory itself, relative path "" *)
          let s := set_deleted s (sadd (deleted s) (p ++ [SLASH])) in
          fold_left (fun (rs : res st) (pe : path * entry) =>
                       do s <- rs;
                       let cp := pjoin p (fst pe) in
                       do s <- add_entry s (Some cp) None (e_id (snd pe)) None;
                       Ok (forget_dir (set_deleted s (sadd (deleted s) cp)) (e_kind (snd pe)) cp))
                    (descendants (basis s) (e_id ie)) (Ok s)
        else Ok s
    end
  else Ok s.

(* CommitHandler.bzr_file_id_and_new (the loop over the other parent inventories re-reads the basis
   inventory, so merge parents never matter) *)
Definition bzr_file_id (s : st) (p : path) : N * st :=
  let known := if pmem p (deleted s) then None
               else match aget bytes_eqb (mod_ids s) p with
                    | Some i => Some i
                    | None => path2id (basis s) p
                    end in
  match known with
  | Some i => (i, s)
  | None => (fresh s, set_new_ids (set_fresh s (fresh s + 1)) (aset bytes_eqb (new_ids s) p (fresh s)))
  end.

(* CommitHandler._get_directory_entry; None = KeyError *)
Definition get_directory_entry (s : st) (d : path) : option entry * st :=
  match aget bytes_eqb (dirents s) d with
  | Some e => (Some e, s)
  | None =>
      if pmem d (deleted s) then (None, s)
      else match path2id (basis s) d with
           | None => (None, s)
           | Some i => match find_entry (basis s) i with
                       | Some e => if kind_eqb (e_kind e) KDir
                                   then (Some e, set_dirents s (aset bytes_eqb (dirents s) d e))
                                   else (None, s)
                       | None => (None, s)       (* the root: dirname is never "" here *)
                       end
           end
  end.

(* CommitHandler._ensure_directory: (basename, parent id) *)
Fixpoint ensure_directory_fuel (fuel : nat) (s : st) (p : path) : res (bytes * N * st) :=
  let '(d, b) := psplit p in
  if negb (nonempty d) then Ok (b, 0, s) else
  match get_directory_entry s d with
  | (Some ie, s) => Ok (b, e_id ie, s)
  | (None, s) =>
      match fuel with
      | O => Fail "RecursionError"
      | S f =>
          do r <- ensure_directory_fuel f s d;
          let '(dbase, par, s) := r in
          let '(di, s) := bzr_file_id s d in
          let ie := mkE di par dbase KDir [] false in
          let s := set_dirents s (aset bytes_eqb (dirents s) d ie) in
          (* record_delete forgets the directory entry cached above: it is re-seated *)
          do s <- (if has_id (basis s) di
                   then do s <- record_delete s d ie; Ok (set_dirents s (aset bytes_eqb (dirents s) d ie))
                   else Ok s);
          do s <- add_entry s None (Some d) di (Some ie);
          Ok (b, di, s)
      end
  end.
Definition ensure_directory (s : st) (p : path) : res (bytes * N * st) :=
  ensure_directory_fuel (S (List.length p)) s p.

(* CommitHandler._modify_item *)
Definition modify_item (s : st) (p : path) (m : mode) (data : bytes) : res st :=
  if ahas bytes_eqb (new_ids s) p then Ok s else
  do r <- ensure_directory s p;
  let '(base, par, s) := r in
  let '(i, s) := bzr_file_id s p in
  let k := match m with MFile | MExec => KFile | MLink => KLink | MDir => KDir end in
  let ie := mkE i par base k (match m with MDir => [] | _ => data end) (match m with MExec => true | _ => false end) in
  let s := match m with MDir => set_dirents s (aset bytes_eqb (dirents s) p ie) | _ => s end in
  match find_entry (basis s) i with
  | None => add_entry s None (Some p) i (Some ie)                       (* record_new *)
  | Some old =>
      do s <- (if kind_eqb (e_kind old) KDir then record_delete s p old else Ok s);
      do s <- add_entry s (Some p) (Some p) i (Some ie);                (* record_changed *)
      Ok (set_mod_ids s (aset bytes_eqb (mod_ids s) p i))
  end.

(* CommitHandler._delete_item *)
Definition delete_item (s : st) (p : path) : res st :=
  match aget bytes_eqb (new_ids s) p with
  | Some newly =>
      match aget N.eqb (delta s) newly with
      | None => Fail "KeyError"
      | Some (_, _, _, None) => Fail "AttributeError"
      | Some (_, _, _, Some ie) => record_delete s p ie
      end
  | None =>
      match path2id (basis s) p with
      | None => Ok s
      | Some i => match find_entry (basis s) i with
                  | Some ie => record_delete s p ie
                  | None => Fail "RootDelete"
                  end
      end
  end.

(* CommitHandler._rename_pending_change *)
Definition rename_pending_change (s : st) (op np : path) (i : N) : res st :=
  match aget N.eqb (delta s) i with
  | None => Fail "KeyError"
  | Some (_, _, _, None) => Fail "AttributeError"
  | Some (_, _, _, Some old_ie) =>
      do s <- record_delete s op old_ie;
      let s := if ahas bytes_eqb (new_ids s) op then set_new_ids s (adel bytes_eqb (new_ids s) op)
               else set_mod_ids s (adel bytes_eqb (mod_ids s) op) in
      let s := set_new_ids s (aset bytes_eqb (new_ids s) np i) in
      do r <- ensure_directory s np;
      let '(base, par, s) := r in
      add_entry s None (Some np) i (Some (mkE i par base (e_kind old_ie) (e_data old_ie) (e_exec old_ie)))
  end.

(* CommitHandler._rename_item + record_rename (the text of the renamed entry is read from the basis
   revision under its basis path, which exists) *)
Definition rename_item (s : st) (op np : path) : res st :=
  let existing := match aget bytes_eqb (new_ids s) op with
                  | Some i => Some i
                  | None => aget bytes_eqb (mod_ids s) op
                  end in
  match existing with
  | Some i => rename_pending_change s op np i
  | None =>
      match path2id (basis s) op with
      | None => Ok s                                   (* "ignoring rename ... old path does not exist" *)
      | Some i =>
          match find_entry (basis s) i with
          | None => Fail "RootRename"
          | Some ie =>
              do s <- match path2id (basis s) np with
                      | None => Ok s
                      | Some ni => match find_entry (basis s) ni with
                                   | Some nie => record_delete s np nie
                                   | None => Fail "RootDelete"
                                   end
                      end;
              do r <- ensure_directory s np;
              let '(base, par, s) := r in
              let nie := mkE i par base (e_kind ie) (e_data ie) (e_exec ie) in
              do s <- add_entry s (Some op) (Some np) i (Some nie);
              let s := set_mod_ids s (aset bytes_eqb (mod_ids s) np i) in
              let s := set_deleted s (sdel (deleted s) np) in
              Ok (match e_kind nie with KDir => set_dirents s (aset bytes_eqb (dirents s) np nie) | _ => s end)
          end
      end
  end.

Definition handle (s : st) (c : fcmd) : res st :=
  match c with
  | CM p m d => modify_item s p m d
  | CD p => delete_item s p
  | CR a b => rename_item s a b
  end.

(* ---- Inventory.apply_delta / CHKInventory.create_by_apply_delta (environment) ---- *)

Fixpoint nodup_N (l : list N) : bool :=
  match l with [] => true | x :: l' => negb (existsb (N.eqb x) l') && nodup_N l' end.

Definition delta_item_ok (b : inv) (d : dentry) : bool :=
  let '(op, np, i, ie) := d in
  match op with
  | None => negb (has_id b i)
  | Some o => match id2path b i with Some p => has_id b i && bytes_eqb p o | None => false end
  end.

Fixpoint names_unique (v : inv) : bool :=
  match v with
  | [] => true
  | e :: v' => negb (existsb (fun x => (e_par x =? e_par e) && bytes_eqb (e_name x) (e_name e)) v') && names_unique v'
  end.

Definition apply_delta (b : inv) (dl : list dentry) : res inv :=
  if negb (nodup_N (map (fun d => snd (fst d)) dl)) then Fail "InconsistentDelta" else
  if negb (forallb (delta_item_ok b) dl) then Fail "InconsistentDelta" else
  let removed := flat_map (fun d : dentry => match fst (fst (fst d)) with Some _ => [snd (fst d)] | None => [] end) dl in
  let kept := filter (fun e => negb (existsb (N.eqb (e_id e)) removed)) b in
  let v := kept ++ flat_map (fun d : dentry => match snd (fst (fst d)), snd d with
                                               | Some _, Some ie => [ie] | _, _ => [] end) dl in
  if negb (names_unique v) then Fail "InconsistentDelta" else
  if negb (forallb (fun e => is_dir v (e_par e) && match id2path v (e_id e) with Some _ => true | None => false end) v)
  then Fail "InconsistentDelta" else
  if negb (forallb (fun d : dentry => match snd (fst (fst d)) with
                                      | Some n => match id2path v (snd (fst d)) with
                                                  | Some p => bytes_eqb p n | None => false end
                                      | None => true end) dl)
  then Fail "InconsistentDelta" else Ok v.

Definition nonempty_list {A} (l : list A) : bool := match l with [] => false | _ => true end.

(* CommitHandler._get_final_delta: prune directories that the delta leaves empty *)
Definition prune_round (s : st) (dl : list dentry) (cands : list path)
  : res (list dentry * list path) :=
  do nv <- apply_delta (basis s) dl;
  let '(dl, never_born, parents) :=
    fold_left (fun (acc : list dentry * list N * list path) (d : path) =>
                 let '(dl, nb, ps) := acc in
                 match path2id nv d with
                 | None => acc
                 | Some i =>
                     if (i =? 0) || negb (is_dir nv i) || nonempty_list (children nv i) then acc
                     else
                       let '(dl, nb) := match aget bytes_eqb (new_ids s) d with
                                        | Some newly => (dl, nb ++ [newly])
                                        | None => (dl ++ [(Some d, None, i, None)], nb)
                                        end in
                       (dl, nb, if nonempty (dirname d) then sadd ps (dirname d) else ps)
                 end)
              cands (dl, [], []) in
  Ok (filter (fun d : dentry => negb (existsb (N.eqb (snd (fst d))) never_born)) dl, parents).

Fixpoint prune_loop (fuel : nat) (s : st) (dl : list dentry) (cands : list path) : res (list dentry) :=
  match cands, fuel with
  | [], _ => Ok dl
  | _, O => Ok dl
  | _, S f => do r <- prune_round s dl cands; prune_loop f s (fst r) (snd r)
  end.

Definition final_delta (s : st) : res (list dentry) :=
  prune_loop 64 s (map snd (delta s)) (maybe_empty s).

(* one commit: CommitHandler.process = pre_process_files; the file commands; post_process_files *)
Definition import_commit (b : inv) (fr : N) (cmds : list fcmd) : res (inv * N) :=
  do s <- fold_left (fun rs c => do s <- rs; handle s c) cmds (Ok (mkSt b fr [] [] [] [] [] []));
  do dl <- final_delta s;
  do v <- apply_delta b dl;
  Ok (v, fresh s).

(* the imported tree of one step, for the tree-level statements *)
Definition roundtrip_tree (plain : bool) (dst_basis : inv) (fr : N) (old new : inv) (mpaths : list path)
  : res (list titem) :=
  let '(cmds, mods) := filecmds plain old new mpaths [] in
  do r <- import_commit dst_basis fr (cmds ++ mods);
  Ok (tree_of (fst r)).
