(* Model/Jail.v -- hand model of smart-server client path translation (C31).
   Definitions only.

   Anchored code (in /repo, mirrored line by line):
     breezy/bzr/smart/request.py
        SmartServerRequest.__init__ (root_client_path normalisation)   norm_rcp
        SmartServerRequest.translate_client_path                       translate_plain
        SmartServerRequest.transport_from_client_path                  (clone: pf_norm, clone_base)
        _pre_open_hook / setup_jail                                    pre_open_hook
     breezy/bzr/smart/vfs.py
        VfsRequest.translate_client_path                               translate_vfs
          (the translation before commit 54ddefb, kept for the regression theorems: translate_vfs_old)
        GetRequest.do  (backing_transport.get_bytes(relpath))          resolve
     breezy/bzr/smart/server.py
        BzrServerFactory._expand_userdirs                              expand_userdirs
        BzrServerFactory._make_backing_transport                       backing (filter over chroot over local)

   Environment (compiled code in site-packages `dromedary`, NOT in /repo),
   modelled as Gallina functions and validated by the correspondence run:
     urlutils.joinpath("/", arg)        joinpath_root
     urlutils.escape                    escape            (safe set  A-Za-z0-9 - . _ ~ /)
     urlutils.unescape                  unescape          (non-ASCII input -> InvalidURL; percent-decode;
                                                           if the decoded bytes are not UTF-8 the input is returned unchanged)
     PathFilteringTransport / ChrootTransport path handling            pf_norm
        = per segment: %XY of an unreserved byte is decoded, other %XY get
          upper-case hex; then "", "." dropped and ".." resolved, clamped at the root
     LocalTransport.get                 local_open        (unescape, then base ++ path is given to the OS)
     the OS path walk                   os_walk           (over a fixed scratch tree)
     Transport.relpath of the decorator transports                     url_under
     os.path.expanduser                 expanduser        (table of home directories)

   Strings are byte lists: Python `str` values are represented by their UTF-8
   encoding ('/', '.', '%', '~' are ASCII, so split/startswith/slicing agree). *)
From Coq Require Import NArith List Bool String.
From BV Require Import Lib.Bytes Lib.Obs.
Import ListNotations.
Open Scope N_scope.

Definition SLASH : N := 47.
Definition DOT : N := 46.
Definition PCT : N := 37.
Definition TILDE : N := 126.
Definition dotdot : bytes := [46; 46].

Inductive res (A : Type) := Ok (a : A) | Fail (e : string).
Arguments Ok {A} a.
Arguments Fail {A} e.

(* ---------- Python str.split('/') / '/'.join ---------- *)
Fixpoint split_slash (s : bytes) : list bytes :=
  match s with
  | [] => [[]]
  | c :: r =>
      if c =? SLASH then [] :: split_slash r
      else match split_slash r with
           | g :: gs => (c :: g) :: gs
           | [] => [[c]]
           end
  end.

Definition join_slash (l : list bytes) : bytes := join [SLASH] l.

Definition starts_slash (s : bytes) : bool :=
  match s with c :: _ => c =? SLASH | [] => false end.
Definition ends_slash (s : bytes) : bool := starts_slash (rev s).

(* ---------- Python bytes.decode('utf-8') validity (strict) ---------- *)
Definition cont (c : N) : bool := (128 <=? c) && (c <=? 191).
Definition rng (lo hi c : N) : bool := (lo <=? c) && (c <=? hi).

Fixpoint utf8_valid (s : bytes) : bool :=
  match s with
  | [] => true
  | b :: r =>
      if b <? 128 then utf8_valid r
      else if rng 194 223 b then
        match r with c1 :: r1 => cont c1 && utf8_valid r1 | _ => false end
      else if rng 224 239 b then
        match r with
        | c1 :: c2 :: r2 =>
            (if b =? 224 then rng 160 191 c1
             else if b =? 237 then rng 128 159 c1 else cont c1)
            && cont c2 && utf8_valid r2
        | _ => false
        end
      else if rng 240 244 b then
        match r with
        | c1 :: c2 :: c3 :: r3 =>
            (if b =? 240 then rng 144 191 c1
             else if b =? 244 then rng 128 143 c1 else cont c1)
            && cont c2 && cont c3 && utf8_valid r3
        | _ => false
        end
      else false
  end.

(* ---------- percent encoding ---------- *)
Definition is_alnum (c : N) : bool := rng 48 57 c || rng 65 90 c || rng 97 122 c.
(* RFC 3986 unreserved *)
Definition unreserved (c : N) : bool :=
  is_alnum c || (c =? 45) || (c =? 46) || (c =? 95) || (c =? 126).
(* urlutils.escape's safe set: unreserved + '/' *)
Definition safe (c : N) : bool := unreserved c || (c =? SLASH).

Definition hexU (n : N) : N := if n <? 10 then 48 + n else 55 + n.
Definition hexval (c : N) : option N :=
  if rng 48 57 c then Some (c - 48)
  else if rng 65 70 c then Some (c - 55)
  else if rng 97 102 c then Some (c - 87)
  else None.

Definition esc_byte (b : N) : bytes :=
  if safe b then [b] else [PCT; hexU (b / 16); hexU (b mod 16)].
Definition escape (s : bytes) : bytes := flat_map esc_byte s.

Fixpoint pct_decode (s : bytes) : bytes :=
  match s with
  | [] => []
  | c :: t =>
      if c =? PCT then
        match t with
        | a :: b :: r =>
            match hexval a, hexval b with
            | Some x, Some y => (16 * x + y) :: pct_decode r
            | _, _ => c :: pct_decode t
            end
        | _ => c :: pct_decode t
        end
      else c :: pct_decode t
  end.

Definition non_ascii (s : bytes) : bool := existsb (fun c => 128 <=? c) s.

Definition unescape (s : bytes) : res bytes :=
  if non_ascii s then Fail "InvalidURL"
  else let d := pct_decode s in
       if utf8_valid d then Ok d else Ok s.

(* ---------- urlutils.joinpath("/", arg) ---------- *)
(* [rp] is the Python list `path`, reversed (head = last element). *)
Fixpoint joinpath_chunks (rp : list bytes) (chunks : list bytes) : res (list bytes) :=
  match chunks with
  | [] => Ok rp
  | c :: cs =>
      if bytes_eqb c [DOT] then joinpath_chunks rp cs
      else if bytes_eqb c dotdot then
        match rp with
        | [[]] => Fail "InvalidURLJoin"           (* path == [''] : above root *)
        | [] => Fail "IndexError"                  (* pop from empty list (unreachable) *)
        | _ :: rp' => joinpath_chunks rp' cs
        end
      else joinpath_chunks (c :: rp) cs
  end.

Definition joinpath_root (arg : bytes) : res bytes :=
  let rp0 := if starts_slash arg then [] else [[]] in
  match joinpath_chunks rp0 (split_slash arg) with
  | Fail e => Fail e
  | Ok [[]] => Ok [SLASH]
  | Ok rp => Ok (join_slash (rev rp))
  end.

(* ---------- request.py ---------- *)
(* SmartServerRequest.__init__ *)
Definition norm_rcp (r : bytes) : bytes :=
  let r1 := if starts_slash r then r else SLASH :: r in
  if ends_slash r1 then r1 else r1 ++ [SLASH].

(* SmartServerRequest.translate_client_path (root_client_path is not None) *)
Definition translate_plain (rcp0 client_path : bytes) : res bytes :=
  let rcp := norm_rcp rcp0 in
  if negb (utf8_valid client_path) then Fail "UnicodeDecodeError"
  else
    let cp := if starts_slash client_path then client_path else SLASH :: client_path in
    if bytes_eqb (cp ++ [SLASH]) rcp then Ok [DOT]
    else if prefixb rcp cp then
      let path := skipn (List.length rcp) cp in
      match joinpath_root path with
      | Fail e => Fail e
      | Ok relpath =>
          if negb (starts_slash relpath) then Fail "ValueError"
          else Ok (escape (DOT :: relpath))
      end
    else Fail "PathNotChild".

(* vfs.py: VfsRequest.translate_client_path (current code, commit 54ddefb):
       decoded = urlutils.unescape(relpath.decode("utf-8")).encode("utf-8")
       return request.SmartServerRequest.translate_client_path(self, decoded) *)
Definition translate_vfs (rcp0 client_path : bytes) : res bytes :=
  if negb (utf8_valid client_path) then Fail "UnicodeDecodeError"
  else match unescape client_path with
       | Fail e => Fail e
       | Ok d => translate_plain rcp0 d
       end.

(* the translation BEFORE 54ddefb (unescape AFTER the jail check); only the
   regression theorems C31_old_vfs_translation_*_refuted talk about it:
       x = request.SmartServerRequest.translate_client_path(self, relpath)
       return str(urlutils.unescape(x)) *)
Definition translate_vfs_old (rcp0 client_path : bytes) : res bytes :=
  match translate_plain rcp0 client_path with
  | Fail e => Fail e
  | Ok x => unescape x
  end.

(* ---------- dromedary pathfilter / chroot transports (environment) ---------- *)
Definition upc (c : N) : N := if rng 97 102 c then c - 32 else c.

Fixpoint normpct (s : bytes) : bytes :=
  match s with
  | [] => []
  | c :: t =>
      if c =? PCT then
        match t with
        | a :: b :: r =>
            match hexval a, hexval b with
            | Some x, Some y =>
                let v := 16 * x + y in
                if unreserved v then v :: normpct r
                else PCT :: upc a :: upc b :: normpct r
            | _, _ => c :: normpct t
            end
        | _ => c :: normpct t
        end
      else c :: normpct t
  end.

(* "", "." dropped; ".." pops, clamped at the root.  [acc] reversed. *)
Fixpoint resolve_aux (acc : list bytes) (segs : list bytes) : list bytes :=
  match segs with
  | [] => rev acc
  | g :: r =>
      if bytes_eqb g dotdot then resolve_aux (tl acc) r
      else if bytes_eqb g [DOT] || bytes_eqb g [] then resolve_aux acc r
      else resolve_aux (g :: acc) r
  end.
Definition resolve (segs : list bytes) : list bytes := resolve_aux [] segs.

(* relpath -> path below the server root, no leading slash *)
Definition pf_segs (s : bytes) : list bytes := resolve (map normpct (split_slash s)).
Definition pf_norm (s : bytes) : bytes := join_slash (pf_segs s).

(* ---------- server.py ---------- *)
Fixpoint rstrip_slash_rev (r : bytes) : bytes :=
  match r with c :: r' => if c =? SLASH then rstrip_slash_rev r' else r | [] => [] end.
Definition rstrip_slash (s : bytes) : bytes := rev (rstrip_slash_rev (rev s)).

Fixpoint lookup (k : bytes) (t : list (bytes * bytes)) : option bytes :=
  match t with
  | [] => None
  | (k', v) :: t' => if bytes_eqb k k' then Some v else lookup k t'
  end.

Fixpoint span_noslash (s : bytes) : bytes * bytes :=
  match s with
  | [] => ([], [])
  | c :: r => if c =? SLASH then ([], s)
              else let '(a, b) := span_noslash r in (c :: a, b)
  end.

(* posixpath.expanduser with the user database given as a table
   ("" -> $HOME, "name" -> pw_dir) *)
Definition expanduser (homes : list (bytes * bytes)) (p : bytes) : bytes :=
  match p with
  | c :: r =>
      if c =? TILDE then
        let '(name, rest) := span_noslash r in
        match lookup name homes with
        | None => p
        | Some h => match rstrip_slash h ++ rest with [] => [SLASH] | x => x end
        end
      else p
  | [] => p
  end.

Section Backing.
  Variable expander : bytes -> bytes.     (* BzrServerFactory.userdir_expander *)
  Variable base_path : bytes.             (* BzrServerFactory.base_path *)

  (* BzrServerFactory._expand_userdirs *)
  Definition expand_userdirs (path : bytes) : bytes :=
    match path with
    | c :: _ =>
        if c =? TILDE then
          let expanded := expander path in
          let expanded := if ends_slash expanded then expanded else expanded ++ [SLASH] in
          if prefixb base_path expanded then skipn (List.length base_path) expanded
          else path
        else path
    | [] => path
    end.

  (* what the LocalTransport at the bottom of
       filtered(_expand_userdirs) -> chroot -> local
     is asked for, given the relpath handed to the backing transport
     (_make_backing_transport builds exactly this stack) *)
  Definition reached (relpath : bytes) : bytes :=
    pf_norm (expand_userdirs (pf_norm relpath)).

  (* transport_from_client_path: base path of backing_transport.clone(relpath) *)
  Definition clone_base (relpath : bytes) : bytes :=
    match pf_norm relpath with
    | [] => [SLASH]
    | p => SLASH :: p ++ [SLASH]
    end.

  (* LocalTransport.get(relpath): the path segments handed to the OS, relative
     to the served directory *)
  Definition local_open (relpath : bytes) : res (list bytes) :=
    match unescape relpath with
    | Fail e => Fail e
    | Ok d => Ok (split_slash d)
    end.

  (* The whole trip of a client path: rejected, or the OS is asked to walk
     [segs] starting in the served directory. *)
  Definition resolve_plain (rcp client_path : bytes) : res (list bytes) :=
    match translate_plain rcp client_path with
    | Fail e => Fail e
    | Ok relpath => local_open (reached relpath)
    end.

  Definition resolve_vfs (rcp client_path : bytes) : res (list bytes) :=
    match translate_vfs rcp client_path with
    | Fail e => Fail e
    | Ok relpath => local_open (reached relpath)
    end.

  Definition resolve_vfs_old (rcp client_path : bytes) : res (list bytes) :=
    match translate_vfs_old rcp client_path with
    | Fail e => Fail e
    | Ok relpath => local_open (reached relpath)
    end.
End Backing.

(* ---------- "inside the served directory" ---------- *)
(* Lexical walk: depth below the served directory; None = stepped above it. *)
Fixpoint depth_walk (d : nat) (segs : list bytes) : option nat :=
  match segs with
  | [] => Some d
  | g :: r =>
      if bytes_eqb g dotdot then
        match d with O => None | S d' => depth_walk d' r end
      else if bytes_eqb g [DOT] || bytes_eqb g [] then depth_walk d r
      else depth_walk (S d) r
  end.
Definition stays_inside (segs : list bytes) : bool :=
  match depth_walk 0 segs with Some _ => true | None => false end.

(* ---------- OS walk over the scratch tree of the correspondence run ---------- *)
(* A tree is a list of directories and a list of files, each a segment list
   relative to the tree root T.  [cur] is the current directory (reversed). *)
Definition path_eqb (a b : list bytes) : bool := list_eqb bytes_eqb a b.
Definition in_paths (p : list bytes) (l : list (list bytes)) : bool := existsb (path_eqb p) l.

Inductive walk_res := WFile (p : list bytes) | WDir | WMissing | WAbove.

Fixpoint os_walk (dirs files : list (list bytes)) (cur : list bytes) (segs : list bytes) : walk_res :=
  match segs with
  | [] => WDir
  | g :: r =>
      if bytes_eqb g [] || bytes_eqb g [DOT] then os_walk dirs files cur r
      else if bytes_eqb g dotdot then
        match cur with
        | [] => WAbove
        | _ :: cur' => os_walk dirs files cur' r
        end
      else
        let nxt := g :: cur in
        if in_paths (rev nxt) dirs then os_walk dirs files nxt r
        else if in_paths (rev nxt) files then
          match r with [] => WFile (rev nxt) | _ => WMissing end
        else WMissing
  end.

(* ---------- _pre_open_hook ---------- *)
(* A transport URL is (server id, normalised path segments); Transport.relpath
   of the decorator transports succeeds iff same server and path prefix. *)
Fixpoint seg_prefix (a b : list bytes) : bool :=
  match a, b with
  | [], _ => true
  | x :: a', y :: b' => bytes_eqb x y && seg_prefix a' b'
  | _, _ => false
  end.
Definition url_under (root url : N * list bytes) : bool :=
  (fst root =? fst url) && seg_prefix (snd root) (snd url).
(* _pre_open_hook: None = no jail installed *)
Definition pre_open_hook (allowed : option (list (N * list bytes))) (url : N * list bytes) : bool :=
  match allowed with
  | None => true
  | Some l => existsb (fun a => url_under a url) l
  end.

(* ---------- observation for the correspondence run ---------- *)
Definition ores {A} (f : A -> obs) (r : res A) : obs :=
  match r with Ok a => f a | Fail e => OE e end.

Definition owalk (w : walk_res) : obs :=
  match w with
  | WFile p => OB (join_slash p)
  | WDir => OT "dir"
  | WMissing => OT "missing"
  | WAbove => OT "above"
  end.

Definition has_nul (l : list bytes) : bool := existsb (existsb (N.eqb 0)) l.

(* the scratch tree built by harness/props/c31.py (paths relative to its root T) *)
Definition scratch_served : list bytes :=
  [[49]; [50]; [51]; [115;114;118]; [112;117;98]].
Definition scratch_dirs : list (list bytes) :=
  [[[49]];
   [[49]; [50]];
   [[49]; [50]; [51]];
   [[49]; [50]; [51]; [115;114;118]];
   [[49]; [50]; [51]; [115;114;118]; [112;117;98]];
   [[49]; [50]; [51]; [115;114;118]; [112;117;98]; [97]];
   [[49]; [50]; [51]; [115;114;118]; [112;117;98]; [97]; [98]];
   [[49]; [50]; [51]; [115;114;118]; [115;101;99;114;101;116]];
   [[49]; [50]; [51]; [115;114;118]; [112;117;98]; [126;97;110;110]];
   [[49]; [50]; [51]; [115;114;118]; [112;117;98]; [115;101;99;114;101;116]]].
Definition scratch_files : list (list bytes) :=
  [[[49]; [50]; [51]; [115;114;118]; [112;117;98]; [102]];
   [[49]; [50]; [51]; [115;114;118]; [112;117;98]; [120]];
   [[49]; [50]; [51]; [115;114;118]; [112;117;98]; [97]; [102]];
   [[49]; [50]; [51]; [115;114;118]; [112;117;98]; [97]; [98]; [102]];
   [[49]; [50]; [51]; [115;114;118]; [112;117;98]; [126;97;110;110]; [102]];
   [[49]; [50]; [51]; [115;114;118]; [112;117;98]; [195;169]];
   [[49]; [50]; [51]; [115;114;118]; [112;117;98]; [37;50;69;37;50;69]];
   [[49]; [50]; [51]; [115;114;118]; [112;117;98]; [97;37;50;70;102]];
   [[49]; [50]; [51]; [115;114;118]; [112;117;98]; [115;101;99;114;101;116]; [102]];
   [[49]; [50]; [51]; [115;114;118]; [102]];
   [[49]; [50]; [51]; [115;114;118]; [120]];
   [[49]; [50]; [51]; [115;114;118]; [115;101;99;114;101;116]; [120]];
   [[49]; [50]; [51]; [115;114;118]; [115;101;99;114;101;116]; [102]];
   [[49]; [50]; [51]; [102]];
   [[49]; [50]; [102]];
   [[49]; [102]];
   [[102]];
   [[120]]].

Definition run_case (base_path : bytes) (homes : list (bytes * bytes))
           (vfs : bool) (rcp client_path : bytes) : obs :=
  let tr := if vfs then translate_vfs rcp client_path else translate_plain rcp client_path in
  match tr with
  | Fail e => OL [OE e]
  | Ok relpath =>
      let rch := reached (expanduser homes) base_path relpath in
      OL [OB relpath;
          (if vfs then ON else OB (clone_base relpath));
          OB rch;
          match local_open rch with
          | Fail e => OE e
          | Ok segs => if has_nul segs then OE "OSError"
                       else owalk (os_walk scratch_dirs scratch_files (rev scratch_served) segs)
          end;
          match local_open rch with
          | Fail _ => ON
          | Ok segs => obool (stays_inside segs)
          end]
  end.

(* compact form used by the harness: everything is derived from the scratch root T
   (base_path = T/1/2/3/srv/pub/ ; user database: "" -> T/1/2/3/srv, joe -> <served>/a,
   ann -> T/1/2/3/srv/secret/, bob -> <served>) *)
Definition srv_suffix : bytes := [47;49;47;50;47;51;47;115;114;118].          (* /1/2/3/srv *)
Definition pub_suffix : bytes := [47;112;117;98].                              (* /pub *)
Definition std_homes (T : bytes) : list (bytes * bytes) :=
  [([], T ++ srv_suffix);
   ([106;111;101], T ++ srv_suffix ++ pub_suffix ++ [47;97]);
   ([97;110;110], T ++ srv_suffix ++ [47;115;101;99;114;101;116;47]);
   ([98;111;98], T ++ srv_suffix ++ pub_suffix)].
Definition run_case_T (T : bytes) (vfs : bool) (rcp client_path : bytes) : obs :=
  run_case (T ++ srv_suffix ++ pub_suffix ++ [SLASH]) (std_homes T) vfs rcp client_path.

Definition run_jail (allowed : option (list (N * list bytes))) (url : N * list bytes) : obs :=
  obool (pre_open_hook allowed url).

(* setup_jail + _pre_open_hook on real locations: jail root and candidate are given
   as URL paths below their server's root (server ids: 0 filtered, 1 chroot, 2 local);
   the transports normalise them to segments (pf_segs); containment is decided
   segment-wise, never by string prefix.  Second component: the candidate
   transport's base path below its server root. *)
Definition run_jail2 (jail : bool) (rsrv : N) (root : bytes) (csrv : N) (cand : bytes) : obs :=
  let rs := pf_segs root in
  let cs := pf_segs cand in
  OL [obool (pre_open_hook (if jail then Some [(rsrv, rs)] else None) (csrv, cs));
      OB (join_slash cs)].

(* ---------- a backing transport WITHOUT the chroot stack ---------- *)
(* SmartServerRequest over a bare LocalTransport (SmartTCPServer(backing_transport),
   tests): the relpath returned by translate_client_path goes straight to
   LocalTransport.get_bytes. *)
Definition resolve_bare (vfs : bool) (rcp client_path : bytes) : res (list bytes) :=
  match (if vfs then translate_vfs rcp client_path else translate_plain rcp client_path) with
  | Fail e => Fail e
  | Ok relpath => local_open relpath
  end.

Definition run_case_bare (vfs : bool) (rcp client_path : bytes) : obs :=
  match (if vfs then translate_vfs rcp client_path else translate_plain rcp client_path) with
  | Fail e => OL [OE e]
  | Ok relpath =>
      if vfs then
        OL [OB relpath;
            match local_open relpath with
            | Fail e => OE e
            | Ok segs => if has_nul segs then OE "OSError"
                         else owalk (os_walk scratch_dirs scratch_files (rev scratch_served) segs)
            end;
            match local_open relpath with
            | Fail _ => ON
            | Ok segs => obool (stays_inside segs)
            end]
      else OL [OB relpath]
  end.

(* ---------- jail_info is a threading.local() ---------- *)
(* setup_jail / teardown_jail / BzrDir.open (_pre_open_hook) issued by request
   threads; [jstate] maps a thread to its jail_info.transports (absent = None). *)
Inductive jop :=
| JSetup (t : N) (roots : list (N * list bytes))
| JTeardown (t : N)
| JOpen (t : N) (url : N * list bytes).
Definition jop_thread (o : jop) : N :=
  match o with JSetup t _ => t | JTeardown t => t | JOpen t _ => t end.
Definition jstate := list (N * option (list (N * list bytes))).
Fixpoint jget (t : N) (s : jstate) : option (list (N * list bytes)) :=
  match s with
  | [] => None
  | (t', v) :: r => if t =? t' then v else jget t r
  end.
Fixpoint jail_run (s : jstate) (ops : list jop) : list bool :=
  match ops with
  | [] => []
  | JSetup t r :: k => jail_run ((t, Some r) :: s) k
  | JTeardown t :: k => jail_run ((t, None) :: s) k
  | JOpen t u :: k => pre_open_hook (jget t s) u :: jail_run s k
  end.
(* harness form: roots / candidates as URL paths on the filtered server (id 0) *)
Inductive jop_s := SSetup (t : N) (root : bytes) | STeardown (t : N) | SOpen (t : N) (cand : bytes).
Definition jop_of (o : jop_s) : jop :=
  match o with
  | SSetup t r => JSetup t [(0, pf_segs r)]
  | STeardown t => JTeardown t
  | SOpen t c => JOpen t (0, pf_segs c)
  end.
Definition run_jail_threads (ops : list jop_s) : obs :=
  olist obool (jail_run [] (map jop_of ops)).
