(* Model/SmartBig.v -- correspondence runs of Model/Smart.v on LARGE messages
   (C29, C30): inputs are run-length encoded ([expand]), byte strings are
   observed through a digest (length + positional polynomial checksum computed
   identically in harness/smart_common.py), segment lengths are binary numbers.
   No new model: the encoders/decoders are those of Model/Smart.v. *)
From Coq Require Import String ZArith NArith Bool List.
From BV Require Import Lib.Bytes Lib.Obs Model.Smart.
Import ListNotations.
Open Scope N_scope.

Definition expand (parts : list (N * N)) : bytes :=
  concat (map (fun p => repeat (fst p) (N.to_nat (snd p))) parts).

Definition hashb (b : bytes) : N :=
  fold_left (fun acc c => N.land (acc * 31 + c + 1) 4294967295) b 0.
Definition dg (b : bytes) : obs := OL [oN (N.of_nat (length b)); oN (hashb b)].

Definition cutN (lens : list N) (stream : bytes) : list bytes := cut (map N.to_nat lens) stream.

(* LengthPrefixedBodyDecoder *)
Definition lp_obs1_big (s : lp_state) : obs * lp_state :=
  let r := lp_read s in
  (OL [oZ (lp_hint s); obool (lp_finished s); dg (fst r); dg (lp_unused s);
       obool (match s with LpFailed => true | _ => false end)], snd r).
Fixpoint lp_trace_big (s : lp_state) (segs : list bytes) : list obs :=
  match segs with
  | [] => []
  | seg :: segs' => let (o, s') := lp_obs1_big (lp_accept s seg) in o :: lp_trace_big s' segs'
  end.
Definition run_big_lp (body tail : list (N * N)) (lens : list N) : obs :=
  let enc := encode_bulk_data (expand body) in
  OL [dg enc; OL (fst (lp_obs1_big lp_init) :: lp_trace_big lp_init (cutN lens (enc ++ expand tail)))].

(* ChunkedBodyDecoder *)
Definition ck_obs1_big (s : ck_state) : obs :=
  match fst s with
  | CkFailed e => OE e
  | CkDone err chunks unused =>
      OL [oZ (ck_hint s); obool true; olist dg chunks; oopt (olist dg) err; dg unused]
  | CkHeader => OL [oZ (ck_hint s); obool false; OL []; ON; dg []]
  | CkLength err chunks | CkChunk _ _ err chunks =>
      OL [oZ (ck_hint s); obool false; olist dg chunks; ON; dg []]
  end.
Fixpoint ck_trace_big (s : ck_state) (segs : list bytes) : list obs :=
  match segs with
  | [] => []
  | seg :: segs' => let s' := ck_accept s seg in ck_obs1_big s' :: ck_trace_big s' segs'
  end.
Definition run_big_ck (chunks : list (list (N * N))) (err : option (list bytes)) (tail : list (N * N))
           (lens : list N) : obs :=
  let enc := encode_stream (map expand chunks) err in
  OL [dg enc; OL (ck_obs1_big ck_init :: ck_trace_big ck_init (cutN lens (enc ++ expand tail)))].

(* ProtocolThreeDecoder; a part is a one-byte part, a structure (raw bencode) or an RLE bytes part *)
Inductive big_part := BOne (b : N) | BStruct (raw : bytes) | BBytes (rle : list (N * N)).
Definition big_part_to (p : big_part) : p3_part :=
  match p with BOne b => POne b | BStruct r => PStruct r | BBytes rle => PBytes (expand rle) end.
Definition oevent_big (e : p3_event) : obs :=
  match e with
  | EvHeaders r => OL [OT "headers"; dg r]
  | EvByte b => OL [OT "byte"; OB [b]]
  | EvBytes bs => OL [OT "bytes"; dg bs]
  | EvStruct r => OL [OT "structure"; dg r]
  | EvEnd => OL [OT "end"]
  end.
Definition p3_obs1_big (s : p3_state) : obs :=
  match p3_phase_of s with
  | P3Failed e => OE e
  | _ => OL [oopt oZ (p3_hint s); obool (p3_finished s); olist oevent_big (p3_events s); dg (p3_unused s)]
  end.
Fixpoint p3_trace_big (s : p3_state) (segs : list bytes) : list obs :=
  match segs with
  | [] => []
  | seg :: segs' => let s' := p3_accept s seg in p3_obs1_big s' :: p3_trace_big s' segs'
  end.
Definition run_big_p3 (client : bool) (headers : bytes) (parts : list big_part) (tail : list (N * N))
           (lens : list N) : obs :=
  let ps := map big_part_to parts in
  let enc := if client then p3_encode headers ps else p3_encode_body headers ps in
  let i := if client then p3_init_client else p3_init_server in
  OL [dg (p3_encode headers ps); OL (p3_obs1_big i :: p3_trace_big i (cutN lens (enc ++ expand tail)))].

(* encoders only (sizes for which a decoder trace inside Coq would be too slow) *)
Definition run_big_enc_lp (body : list (N * N)) : obs := dg (encode_bulk_data (expand body)).
Definition run_big_enc_ck (chunks : list (list (N * N))) (err : option (list bytes)) : obs :=
  dg (encode_stream (map expand chunks) err).
Definition run_big_enc_p3 (headers : bytes) (parts : list big_part) : obs :=
  dg (p3_encode headers (map big_part_to parts)).

(* hint-driven read loops (C30) on large messages *)
Definition run_big_rl_lp (body : list (N * N)) (pol : list N) : obs :=
  let e := encode_bulk_data (expand body) in OL [dg e; run_rl_lp e pol].
Definition run_big_rl_ck (chunks : list (list (N * N))) (err : option (list bytes)) (pol : list N) : obs :=
  let e := encode_stream (map expand chunks) err in OL [dg e; run_rl_ck e pol].
Definition run_big_rl_p3 (client : bool) (headers : bytes) (parts : list big_part) (pol : list N) : obs :=
  let ps := map big_part_to parts in
  let e := if client then p3_encode headers ps else p3_encode_body headers ps in
  OL [dg e; run_rl_p3 client e pol].

(* The v3 client stack on a response delivered in arbitrary reads (a socket medium
   returns whatever has arrived, not the requested count): ProtocolThreeDecoder feeds
   ConventionalResponseHandler; read_response_tuple / read_streamed_body hand out the
   arguments, every queued body chunk in order, then the stream error. *)
Definition run_client3 (stream : bytes) (lens : list nat) : obs :=
  let s := fold_left p3_accept (cut lens stream) p3_init_client in
  match p3_phase_of s with
  | P3Failed e => OE e
  | _ => match rh_run rh_init (p3_events s) with
         | None => OE "SmartProtocolError"
         | Some r => OL [obool (p3_finished s); oopt (fun b => OB [b]) (rh_status r); oopt obytes (rh_args r);
                         olist obytes (rh_parts r); oopt obytes (rh_error_args r)]
         end
  end.
Definition run_cdec3 (headers : bytes) (ok : bool) (args : bytes) (body : resp_body) (lens : list nat) : obs :=
  let enc := p3_encode headers (response_parts ok args body) in
  OL [OB enc; run_client3 enc lens].
