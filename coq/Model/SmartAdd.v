(* Model/SmartAdd.v -- hand model of smart_add on Lib/DirTree (C11).  No proofs here.

   bzr: breezy/bzr/inventorytree.py  InventoryTree.smart_add + _SmartAddHelper.add
        (_add_one_and_parent, _gather_dirs_to_add, the directory walk) with the default
        breezy/add.py AddAction (skip_file never skips, __call__ supplies no file id);
   git: breezy/git/workingtree.py  GitWorkingTree.smart_add.

   Inputs that come from the real tree: the directory tree [t], the versioned entries [vs]
   (bzr: inventory without the root; git: index), the paths is_ignored accepts [ign] (oracle;
   ignore semantics are another property), the paths of the tree's text conflicts [confl].
   Domain of the model (stated in notes/C11.md): versioned entries that exist on disk have the
   kind they have on disk; named paths are tree-relative and do not traverse symlinks. *)
From Coq Require Import NArith List Bool String.
From BV Require Import Lib.Bytes Lib.Obs Lib.DirTree Model.CleanTree.
Import ListNotations.
Open Scope N_scope.

Definition entry := (path * kind)%type.
Definition inv := list entry.
Definition paths_of (i : inv) : list path := map fst i.
Definition is_versioned (i : inv) (p : path) : bool :=
  match p with [] => true | _ => mem_path p (paths_of i) end.      (* the root always is *)

Inductive result := Ok (i : inv) | Fail (e : string).

(* conflict helper files: Conflict.associated_filenames() of every conflict of the tree *)
Definition with_suffix (p : path) (sfx : bytes) : path :=
  match rev p with [] => [] | c :: r => rev r ++ [c ++ sfx] end.
Definition related (confl : list path) : list path :=
  flat_map (fun p => [with_suffix p [46;84;72;73;83]; with_suffix p [46;66;65;83;69];
                      with_suffix p [46;79;84;72;69;82]]) confl.

(* illegalpath_re = [\r\n], searched in the whole tree-relative path *)
Definition illegal (p : path) : bool := existsb (fun seg => memb 10 seg || memb 13 seg) p.

(* tree.is_control_filename(path): the tree's own control directory, at the root only *)
Definition root_control (c : name) (p : path) : bool :=
  match p with x :: _ => name_eqb x c | [] => false end.

Definition nonroot (p : path) : bool := match p with [] => false | _ => true end.
Definition kids (n : node) : list (name * node) := match n with Dir cs => cs | _ => [] end.

(* ControlDirFormat.find_format(transport at the directory) succeeds *)
Definition nested_tree (q : path) (n : node) : bool := is_dir n && nonroot q && has_control (kids n).

(* all non-empty prefixes of p, shortest first *)
Fixpoint prefixes_from (pre : path) (p : path) : list path :=
  match p with [] => [] | c :: r => (pre ++ [c]) :: prefixes_from (pre ++ [c]) r end.
Definition prefixes (p : path) : list path := prefixes_from [] p.

(* _add_one_and_parent(None, p, kind): p with its unversioned parents (as directories) *)
Definition add_path (t : node) (i : inv) (p : path) : inv :=
  i ++ map (fun a => (a, if path_eqb a p
                         then match lookup p t with Some n => kind_of n | None => KFile end
                         else KDir))
           (filter (fun a => negb (is_versioned i a)) (prefixes p)).

(* ---- sorting by the '/'-joined string (Python: sorted(user_dirs)) ---- *)
Fixpoint bytes_ltb (a b : bytes) : bool :=
  match a, b with
  | [], [] => false
  | [], _ :: _ => true
  | _ :: _, [] => false
  | x :: a', y :: b' => if x <? y then true else if y <? x then false else bytes_ltb a' b'
  end.
Definition pstr (p : path) : bytes := join [47] p.
Section Sort.
  Context {A : Type} (key : A -> bytes).
  Fixpoint insert_by (x : A) (l : list A) : list A :=
    match l with
    | [] => [x]
    | y :: r => if bytes_ltb (key y) (key x) then y :: insert_by x r else x :: y :: r
    end.
  Definition sort_by (l : list A) : list A := fold_right insert_by [] l.
  Fixpoint dedupe_by (l : list A) : list A :=
    match l with
    | x :: ((y :: _) as r) => if bytes_eqb (key x) (key y) then dedupe_by r else x :: dedupe_by r
    | _ => l
    end.
End Sort.

(* _gather_dirs_to_add: a directory is walked unless the directory sorted just before it
   is its ancestor (is_inside_or_parent_of_any([prev_dir], path)); prev_dir always advances *)
Fixpoint gather (prev : option path) (l : list path) : list path :=
  match l with
  | [] => []
  | p :: r =>
      (if match prev with None => true | Some d => negb (is_prefix d p || is_prefix p d) end
       then [p] else []) ++ gather (Some p) r
  end.
Definition named_dirs (t : node) (named : list path) : list path :=
  filter (fun p => match lookup p t with Some (Dir _) => true | _ => false end) named.
(* user_dirs is a dict: one key per path; sorted(user_dirs) puts equal keys next to each other *)
Fixpoint dedupe_adj (l : list path) : list path :=
  match l with
  | x :: ((y :: _) as r) => if path_eqb x y then dedupe_adj r else x :: dedupe_adj r
  | _ => l
  end.
Definition walked_roots (t : node) (named : list path) : list path :=
  gather None (dedupe_adj (sort_by pstr (named_dirs t named))).

(* ---- bzr ---------------------------------------------------------- *)

Section BzrWalk.
  Variables (vs1 : inv) (ign rel : list path).
  (* the walk reaches q (as a listed child, or as a walked root): is its content looked at? *)
  Definition bzr_considered (q : path) : bool :=
    negb (root_control n_bzr q)                                   (* "skip control directory" *)
    && (is_versioned vs1 q || negb (mem_path q ign))              (* unversioned + ignored: skipped *)
    && negb (illegal q) && negb (mem_path q rel).                 (* \r \n in the path; conflict helper *)
  Definition bzr_emits (q : path) (n : node) : bool :=
    bzr_considered q && negb (is_versioned vs1 q) && negb (nested_tree q n).
  Definition bzr_enters (q : path) (n : node) : bool :=
    bzr_considered q && is_dir n && negb (nested_tree q n).
  Definition bzr_add_visit (_ : unit) (q : path) (n : node) : list entry * option unit :=
    (if bzr_emits q n then [(q, kind_of n)] else [], if bzr_enters q n then Some tt else None).
End BzrWalk.

Definition first_error_bzr (t : node) (named : list path) : option string :=
  fold_right (fun p acc =>
                if root_control n_bzr p then Some "ForbiddenControlFileError"%string
                else match lookup p t with None => Some "NoSuchFile"%string | Some _ => acc end)
             None named.
(* fold_right builds the answer from the right, so the FIRST offending path decides *)

Definition walk_from {A} (visit : unit -> path -> node -> list A * option unit) (t : node) (d : path) : list A :=
  match lookup d t with Some n => walk visit tt d n | None => [] end.

(* A named directory that was ALREADY versioned and holds a ".bzr" directory: _get_ie asks the
   dirstate tree (iter_entries_by_dir), which reports it with kind "tree-reference"
   (_directory_may_be_tree_reference: isdir(path/.bzr)), so "kind == directory" fails and the
   walk does not list it.  (Entries found while listing come from root_inventory.get_child and
   keep kind "directory": for them only find_format decides.) *)
Definition tree_ref_root (t : node) (vs : inv) (d : path) : bool :=
  nonroot d && mem_path d (paths_of vs) &&
  match lookup d t with
  | Some (Dir cs) => match find_child n_bzr cs with Some (Dir _) => true | _ => false end
  | _ => false
  end.
(* ... unless an earlier named path made _add_one_and_parent fetch that directory as the parent of
   a new entry: "parent_ie.kind != directory" then converts it (_convert_to_directory) and the
   converted entry is what _get_ie returns from _invdelta afterwards.  user_dirs is a dict, so
   the LAST occurrence of a named directory decides.  [conv]: directories converted so far. *)
Fixpoint treeref_marks (t : node) (vs0 i : inv) (conv : list path) (named : list path) : list (path * bool) :=
  match named with
  | [] => []
  | p :: r =>
      let new := filter (fun a => negb (is_versioned i a)) (prefixes p) in
      let conv' := match new with [] => conv | a :: _ => removelast a :: conv end in
      treeref_marks t vs0 (add_path t i p) conv' r
        ++ [(p, tree_ref_root t vs0 p && negb (mem_path p conv))]
  end.
Definition treeref_blocked (t : node) (vs : inv) (named : list path) (d : path) : bool :=
  match find (fun e => path_eqb d (fst e)) (treeref_marks t vs vs [] named) with
  | Some e => snd e
  | None => false
  end.
Definition bzr_roots (t : node) (vs : inv) (named : list path) : list path :=
  filter (fun d => negb (treeref_blocked t vs named d)) (walked_roots t named).

Definition smart_add_bzr (t : node) (vs : inv) (ign confl named : list path) (recurse : bool) : result :=
  match first_error_bzr t named with
  | Some e => Fail e
  | None =>
      let vs1 := fold_left (add_path t) named vs in
      Ok (vs1 ++ if recurse
                 then flat_map (walk_from (bzr_add_visit vs1 ign (related confl)) t) (bzr_roots t vs named)
                 else [])
  end.

(* ---- git ---------------------------------------------------------- *)

Section GitWalk.
  Variables (ix1 : inv) (ign rel : list path).
  (* state: true = a named directory (not subject to the ignore test), false = found by listing *)
  Definition git_listed_ok (q : path) : bool :=
    negb (root_control n_git q) && negb (mem_path q ign).
  Definition git_emits (top : bool) (q : path) (n : node) : bool :=
    negb top && git_listed_ok q && negb (is_dir n) &&
    negb (mem_path q (paths_of ix1)) && negb (mem_path q rel).
  Definition git_enters (top : bool) (q : path) (n : node) : bool :=
    (top || git_listed_ok q) && is_dir n && negb (nested_tree q n).
  Definition git_add_visit (top : bool) (q : path) (n : node) : list entry * option bool :=
    (if git_emits top q n then [(q, kind_of n)] else [], if git_enters top q n then Some false else None).
End GitWalk.

Definition first_error_git (t : node) (named : list path) : option string :=
  fold_right (fun p acc => match lookup p t with None => Some "NoSuchFile"%string | Some _ => acc end)
             None named.

Definition add_file_git (t : node) (i : inv) (p : path) : inv :=
  match lookup p t with
  | Some (Dir _) | None => i
  | Some n => if mem_path p (paths_of i) then i else i ++ [(p, kind_of n)]
  end.

Definition walk_from_git (visit : bool -> path -> node -> list entry * option bool) (t : node) (d : path) : list entry :=
  match lookup d t with Some n => walk visit true d n | None => [] end.

Definition smart_add_git (t : node) (ix : inv) (ign confl named : list path) (recurse : bool) : result :=
  match first_error_git t named with
  | Some e => Fail e
  | None =>
      let ix1 := fold_left (add_file_git t) named ix in
      Ok (ix1 ++ if recurse
                 then flat_map (walk_from_git (git_add_visit ix1 ign (related confl)) t) (named_dirs t named)
                 else [])
  end.

Definition smart_add (fl : flavour) :=
  match fl with Bzr => smart_add_bzr | Git => smart_add_git end.

(* ---- observation --------------------------------------------------- *)
Definition okind_tag (k : kind) : obs :=
  OT (match k with KFile => "f" | KSymlink => "l" | KDir => "d" end)%string.
Definition oentry (e : entry) : obs := OL [opath (fst e); okind_tag (snd e)].

Definition run_case (fl : flavour) (t : node) (vs : inv) (ign confl named : list path) (recurse : bool) : obs :=
  if wf_node t then
    match smart_add fl t vs ign confl named recurse with
    | Fail e => OE e
    | Ok i => olist oentry (dedupe_by (fun e => pstr (fst e)) (sort_by (fun e => pstr (fst e)) i))
    end
  else OE "not-a-directory-tree"%string.
