(* Model/FastHist.v -- hand model of breezy/plugins/fastimport (C44), history level.

   Exporter (exporter.py): BzrFastExporter.run / interesting_history / emit_commits /
       preprocess_commit (marks) / emit_commit (reset before a parentless commit) /
       _get_commit_command (committer, author, from, merges) / _get_name_email /
       emit_tags / check_ref_format / sanitize_ref_name_for_git.
   Importer (processors/generic_processor.py): GenericProcessor.commit_handler /
       reset_handler / _set_tag / post_process; bzr_commit_handler.CommitHandler.
       pre_process_files (parents through fastimport's RefTracker) / build_revision /
       _format_name_email / _save_author_info; branch_updater.BranchUpdater.update
       (trunk = last ref seen, tip = its head, tags restricted to the tip's ancestry).
   Environment: vcsgraph merge_sort (Lib/DagMergeSort), email.utils.parseaddr (its result
   is an input of the case), the `fastimport` package's stream syntax (identity on names,
   e-mails, messages, paths and data; whole seconds; whole minutes of UTC offset).  *)
From Coq Require Import ZArith NArith List Bool String.
From BV Require Import Lib.Bytes Lib.Obs Lib.Dag Lib.DagMergeSort Model.FastIO.
Import ListNotations.
Open Scope N_scope.

Definition ident := bytes.
Definition nm_em := (bytes * bytes)%type.

Record srev := mkS {
  s_parents : list nat;
  s_inv : inv;
  s_committer : ident;
  s_cparse : nm_em;                      (* parseaddr(committer) *)
  s_authors : list (ident * nm_em);      (* the `authors` revision property, each with its parseaddr *)
  s_ts4 : Z;                             (* timestamp * 4 *)
  s_tz : Z;
  s_msg : bytes;
  s_mpaths : list path;                  (* observed order of the M commands (see FastIO.order_by) *)
  s_dpaths : list path                   (* observed order of the D commands (see FastIO.kind_dels) *)
}.

Definition LT : N := 60.
(* BzrFastExporter._get_name_email *)
Definition name_email (u : ident) (parsed : nm_em) : nm_em :=
  if Bytes.memb LT u then parsed else (u, []).

Definition nm_em_eqb (a b : nm_em) : bool := bytes_eqb (fst a) (fst b) && bytes_eqb (snd a) (snd b).

(* a commit command as it leaves the exporter (marks are 1-based positions in the export order) *)
Record xcommit := mkX {
  x_rev : nat;
  x_mark : nat;
  x_reset : bool;                        (* a `reset` is printed before it *)
  x_from : option nat;
  x_merges : list nat;
  x_committer : nm_em;
  x_author : option nm_em;
  x_more : list nm_em;
  x_secs : Z;
  x_tz : Z;
  x_msg : bytes;
  x_cmds : list fcmd * list fcmd
}.

Fixpoint index_of (x : nat) (l : list nat) : option nat :=
  match l with
  | [] => None
  | y :: l' => if Nat.eqb x y then Some O else option_map S (index_of x l')
  end.
Definition mark_of (order : list nat) (r : nat) : option nat := option_map S (index_of r order).

Definition graph_of (h : list srev) : dag := map s_parents h.
Definition nth_rev (h : list srev) (r : nat) : option srev := nth_error h r.
Definition inv_of (h : list srev) (r : nat) : inv :=
  match nth_rev h r with Some s => s_inv s | None => [] end.

(* interesting_history: reversed iter_merge_sorted_revisions *)
Definition export_order (h : list srev) (tip : nat) : list nat :=
  rev (ms_ids (merge_sorted (graph_of h) (Some tip))).

(* fastimport.commands.format_who_when + the parser: whole seconds, whole minutes *)
Definition stream_secs (ts4 : Z) : Z := Z.quot ts4 4.
Definition stream_tz (tz : Z) : Z := Z.sgn tz * (Z.abs tz / 60 * 60).

Definition export_commit (plain : bool) (h : list srev) (order : list nat) (r : nat) (s : srev) : xcommit :=
  let committer := name_email (s_committer s) (s_cparse s) in
  let authors := match s_authors s with
                 | [] => [(s_committer s, s_cparse s)]            (* get_apparent_authors *)
                 | l => l
                 end in
  let author := hd (s_committer s, s_cparse s) authors in
  let more := tl authors in
  let '(a, m) :=
    if negb plain && nonempty_list more
    then (Some (name_email (fst author) (snd author)), map (fun x => name_email (fst x) (snd x)) more)
    else if negb (bytes_eqb (fst author) (s_committer s))
         then (Some (name_email (fst author) (snd author)), [])
         else (None, []) in
  let pmarks := flat_map (fun p => match mark_of order p with Some k => [k] | None => [] end) (s_parents s) in
  let old := match s_parents s with p :: _ => inv_of h p | [] => [] end in
  mkX r (match mark_of order r with Some k => k | None => O end)
      (match s_parents s with [] => true | _ => false end)
      (hd_error pmarks) (tl pmarks) committer a m
      (stream_secs (s_ts4 s)) (stream_tz (s_tz s)) (s_msg s)
      (filecmds plain old (s_inv s) (s_mpaths s) (s_dpaths s)).

Definition export_commits (plain : bool) (h : list srev) (tip : nat) : list xcommit :=
  let order := export_order h tip in
  flat_map (fun r => match nth_rev h r with Some s => [export_commit plain h order r s] | None => [] end) order.

(* ---- tags: check_ref_format, sanitize_ref_name_for_git, emit_tags ---- *)

Definition specials : bytes := [127; 32; 126; 94; 58; 63; 42; 91].      (* \177 space ~ ^ : ? * [ *)
Definition DOT : N := 46.
Definition last_byte (s : bytes) : option N := hd_error (rev s).

Definition check_ref_format (r : bytes) : bool :=
  if containsb [SLASH; DOT] r || prefixb [DOT] r then false else
  if negb (Bytes.memb SLASH r) then false else
  if containsb [DOT; DOT] r then false else
  if existsb (fun c => (c <? 32) || Bytes.memb c specials) r then false else
  if match last_byte r with Some c => (c =? SLASH) || (c =? DOT) | None => true end then false else
  if suffixb [DOT; 108; 111; 99; 107] r then false else          (* ".lock" *)
  if containsb [64; 123] r then false else                        (* "@{" *)
  negb (Bytes.memb 92 r).                                               (* backslash *)

(* `$` of Python's re: at the end, or just before a final newline *)
Definition at_end (t : bytes) : bool := match t with [] => true | [10] => true | _ => false end.
Definition LOCK : bytes := [108; 111; 99; 107].

(* re.sub(rb"/\.|^\.|\.\.|[\0-\037]|[\177 ~^:?*[]|[/.]$|.lock$|@{|\\", b"_", refname):
   leftmost match, first alternative that matches there, no overlaps *)
Fixpoint sanitize_fuel (fuel : nat) (start : bool) (s : bytes) : bytes :=
  match fuel, s with
  | _, [] => []
  | O, _ => s
  | S f, c :: t =>
      let two x y := (c =? x) && match t with d :: _ => d =? y | [] => false end in
      if two SLASH DOT then 95 :: sanitize_fuel f false (tl t)
      else if start && (c =? DOT) then 95 :: sanitize_fuel f false t
      else if two DOT DOT then 95 :: sanitize_fuel f false (tl t)
      else if (c <? 32) || Bytes.memb c specials then 95 :: sanitize_fuel f false t
      else if ((c =? SLASH) || (c =? DOT)) && at_end t then 95 :: sanitize_fuel f false t
      else if negb (c =? 10) && prefixb LOCK t && at_end (skipn 4 t) then 95 :: sanitize_fuel f false (skipn 4 t)
      else if two 64 123 then 95 :: sanitize_fuel f false (tl t)
      else if c =? 92 then 95 :: sanitize_fuel f false t
      else c :: sanitize_fuel f false t
  end.
Definition sanitize_ref (r : bytes) : bytes := sanitize_fuel (List.length r) true r.

Definition REFS_TAGS : bytes := [114; 101; 102; 115; 47; 116; 97; 103; 115; 47].   (* "refs/tags/" *)

(* emit_tags: the `reset <ref> from :mark` commands, in the order of the tag dictionary *)
Definition export_tags (plain rewrite notags : bool) (order : list nat) (tags : list (bytes * option nat))
  : list (bytes * nat) :=
  if notags then [] else
  flat_map (fun t : bytes * option nat =>
              match snd t with
              | None => []                                   (* tag of a revision that is not here *)
              | Some r =>
                  match mark_of order r with
                  | None => []
                  | Some k =>
                      let ref := REFS_TAGS ++ fst t in
                      if plain && negb (check_ref_format ref)
                      then (if rewrite then [(REFS_TAGS ++ sanitize_ref (fst t), k)] else [])
                      else [(ref, k)]
                  end
              end) tags.

(* ---- importer ---- *)

Record drev := mkD {
  d_parents : list nat;                  (* marks *)
  d_committer : bytes;
  d_authors : option bytes;
  d_ts4 : Z;
  d_tz : Z;
  d_msg : bytes;
  d_inv : inv
}.

(* CommitHandler._format_name_email *)
Definition format_name_email (ne : nm_em) : bytes :=
  if nonempty (snd ne)
  then (if nonempty (fst ne) then fst ne ++ [32; 60] ++ snd ne ++ [62] else [60] ++ snd ne ++ [62])
  else fst ne.

(* CommitHandler._save_author_info *)
Definition author_prop (x : xcommit) : option bytes :=
  match x_author x with
  | None => None
  | Some a =>
      if nonempty_list (x_more x) then Some (join [10] (map format_name_email (a :: x_more x)))
      else if negb (nm_em_eqb a (x_committer x)) then Some (format_name_email a)
      else None
  end.

(* fastimport.reftracker.RefTracker: heads (commit id -> refs), last id per ref, last ref *)
Record rt := mkRT { heads : list (nat * list bytes); last_ids : list (bytes * nat); last_ref : option bytes }.
Definition track_heads_for_ref (t : rt) (ref : bytes) (id : nat) (parents : list nat) : rt :=
  let hs := fold_left (fun hs p => adel Nat.eqb hs p) parents (heads t) in
  let refs := match aget Nat.eqb hs id with Some l => l | None => [] end in
  mkRT (aset Nat.eqb hs id (if existsb (bytes_eqb ref) refs then refs else refs ++ [ref]))
       (aset bytes_eqb (last_ids t) ref id) (Some ref).

Definition MASTER : bytes :=
  [114; 101; 102; 115; 47; 104; 101; 97; 100; 115; 47; 109; 97; 115; 116; 101; 114].  (* refs/heads/master *)

Record ist := mkI {
  i_revs : list (nat * drev);            (* mark -> imported revision *)
  i_rt : rt;
  i_fresh : N;
  i_tags : list (bytes * nat)            (* self.tags: name -> mark *)
}.

(* reset_handler (a `reset` without `from` clears the ref's last commit), then commit_handler +
   CommitHandler.process *)
Definition import_one (s : ist) (x : xcommit) : res ist :=
  let last := if x_reset x then None else aget bytes_eqb (last_ids (i_rt s)) MASTER in
  let parents := match x_from x with
                 | Some k => [k]
                 | None => match last with Some l => [l] | None => [] end
                 end ++ x_merges x in
  let t := track_heads_for_ref (i_rt s) MASTER (x_mark x) parents in
  let b := match parents with
           | p :: _ => match aget Nat.eqb (i_revs s) p with Some d => d_inv d | None => [] end
           | [] => []
           end in
  do r <- import_commit b (i_fresh s) (fst (x_cmds x) ++ snd (x_cmds x));
  let d := mkD parents (format_name_email (x_committer x)) (author_prop x)
               (4 * x_secs x)%Z (x_tz x) (x_msg x) (fst r) in
  Ok (mkI (i_revs s ++ [(x_mark x, d)]) t (snd r) (i_tags s)).

(* reset_handler for the tag resets (a ref outside refs/tags/ would be tracked as a branch head; the
   exporter no longer produces one) *)
Definition import_tag (s : ist) (t : bytes * nat) : ist :=
  if prefixb REFS_TAGS (fst t)
  then mkI (i_revs s) (i_rt s) (i_fresh s) (aset bytes_eqb (i_tags s) (skipn 10 (fst t)) (snd t))
  else mkI (i_revs s) (track_heads_for_ref (i_rt s) (fst t) (snd t) []) (i_fresh s) (i_tags s).

Definition dparents (s : ist) (m : nat) : list nat :=
  match aget Nat.eqb (i_revs s) m with Some d => d_parents d | None => [] end.

Fixpoint dst_ancestors (fuel : nat) (s : ist) (todo seen : list nat) : list nat :=
  match fuel, todo with
  | _, [] => seen
  | O, _ => seen
  | S f, m :: todo' =>
      if existsb (Nat.eqb m) seen then dst_ancestors f s todo' seen
      else dst_ancestors f s (dparents s m ++ todo') (m :: seen)
  end.

Fixpoint dst_revno (fuel : nat) (s : ist) (m : nat) : Z :=
  match fuel with
  | O => 0%Z
  | S f => match dparents s m with [] => 1%Z | p :: _ => (1 + dst_revno f s p)%Z end
  end.

(* BranchUpdater: trunk = refs/heads/master if it has a head, else the last ref seen; its first head;
   tags inside the tip's ancestry *)
Definition heads_of (s : ist) (ref : bytes) : list nat :=
  flat_map (fun h : nat * list bytes => if existsb (bytes_eqb ref) (snd h) then [fst h] else []) (heads (i_rt s)).
Definition final_tip (s : ist) : option nat :=
  match last_ref (i_rt s) with
  | None => None
  | Some ref => match heads_of s MASTER with
                | k :: _ => Some k
                | [] => hd_error (heads_of s ref)
                end
  end.

(* ---- observations ---- *)

Definition omode (m : mode) : obs :=
  OT (match m with MFile => "file" | MExec => "exec" | MLink => "link" | MDir => "dir" end)%string.
Definition ocmd (c : fcmd) : obs :=
  match c with
  | CM p m d => OL [OT "M"%string; OB p; omode m; OB d]
  | CD p => OL [OT "D"%string; OB p]
  | CR a b => OL [OT "R"%string; OB a; OB b]
  end.
Definition otree (t : list titem) : obs :=
  OL (map (fun it : titem => OL [OB (fst (fst it)); omode (snd (fst it)); OB (snd it)]) t).
Definition odrev (d : drev) : obs :=
  OL [OL (map (fun p => OZ (Z.of_nat p)) (d_parents d)); OB (d_committer d); oopt OB (d_authors d);
      OZ (d_ts4 d); OZ (d_tz d); OB (d_msg d); otree (tree_of (d_inv d))].
Definition oxcommit (x : xcommit) : obs :=
  OL [obool (x_reset x); oopt (fun k => OZ (Z.of_nat k)) (x_from x);
      OL (map (fun k => OZ (Z.of_nat k)) (x_merges x));
      OL (map ocmd (fst (x_cmds x))); OL (map ocmd (snd (x_cmds x)))].

Definition sort_tags (l : list (bytes * nat)) : list (bytes * nat) :=
  sort_by (fun a b => bytes_ltb (fst a) (fst b)) l.

Definition import_stream (xs : list xcommit) (tagcmds : list (bytes * nat)) : res ist :=
  do s <- fold_left (fun rs x => do s <- rs; import_one s x) xs
                    (Ok (mkI [] (mkRT [] [] None) 1000 []));
  Ok (fold_left import_tag tagcmds s).

Definition oimported (s : ist) : obs :=
  let n := List.length (i_revs s) in
  match final_tip s with
  | None => OL [OL (map (fun md => odrev (snd md)) (i_revs s)); OL []; OZ (-1); OZ 0; OZ (Z.of_nat n)]
  | Some tip =>
      let anc := dst_ancestors (S (n * n)) s [tip] [] in
      OL [OL (map (fun md => odrev (snd md)) (i_revs s));
          OL (map (fun t : bytes * nat => OL [OB (fst t); OZ (Z.of_nat (snd t))])
                  (sort_tags (filter (fun t : bytes * nat => existsb (Nat.eqb (snd t)) anc) (i_tags s))));
          OZ (Z.of_nat tip); OZ (dst_revno (S n) s tip); OZ (Z.of_nat n)]
  end.

(* one correspondence case: export, then import ([doimport] = false: only the export is compared --
   rich streams of histories whose import depends on unmodelled parts, see notes/C44.md) *)
Definition run_case (plain rewrite notags doimport : bool) (h : list srev) (tip : nat)
           (tags : list (bytes * option nat)) : obs :=
  let xs := export_commits plain h tip in
  let tagcmds := export_tags plain rewrite notags (export_order h tip) tags in
  OL [OL (map (fun r => OZ (Z.of_nat r)) (export_order h tip));
      OL (map oxcommit xs);
      OL (map (fun t : bytes * nat => OL [OB (fst t); OZ (Z.of_nat (snd t))]) tagcmds);
      if doimport
      then match import_stream xs tagcmds with
           | Fail e => OE e
           | Ok s => oimported s
           end
      else OT "skipped"%string].
