(* Model/BranchUpdate.v -- hand model of the tip update done by pull and push (C21).

   breezy/branch.py:
     Branch._revision_relations               -> relation_of_heads / revision_relations
     Branch._check_if_descendant_or_diverged  -> check_descendant
     GenericInterBranch._update_revisions     -> update_revisions
     GenericInterBranch._basic_push           -> basic_push   (tip part)
     GenericInterBranch._pull                 -> update_revisions (tip part)
     GenericInterBranch.pull / .push          -> pull / push  (bound target: master first)
   breezy/bzr/branch.py:
     BzrBranch.set_last_revision_info         -> set_last_revision_info
     BzrBranch8._check_history_violation      -> history_check
   Environment (vcsgraph, validated by the correspondence run): Graph.heads,
   iter_lefthand_ancestry, find_distance_to_null = Lib/Dag heads, lefthand,
   distance_known.  Fetching, tags, hooks and reference locations are not
   modelled (they do not touch last_revision_info).  No proofs here. *)
From Coq Require Import String List Arith Bool ZArith.
From BV Require Import Lib.Obs Lib.Dag.
Import ListNotations.

(* last_revision_info(): tip = None is "null:" *)
Record branch := mkB { tip : option revid; revno : nat }.

Inductive error :=
| DivergedBranches | AppendRevisionsOnlyViolation | GhostRevisionsHaveNoRevno
| RevisionNotPresent | AssertionError.
Inductive result (A : Type) := Ok (a : A) | Err (e : error).
Arguments Ok {A} a.
Arguments Err {A} e.

Inductive relation := BDescendsFromA | RelDiverged | ADescendsFromB | InvalidHeads.

(* _revision_relations, after `heads = graph.heads([revision_a, revision_b])` *)
Definition relation_of_heads (h : list revid) (a b : revid) : relation :=
  if set_eqb h [b] then BDescendsFromA
  else if set_eqb h [a; b] then RelDiverged
  else if set_eqb h [a] then ADescendsFromB
  else InvalidHeads.

(* revision_b = "null:": Graph.heads drops the null revision when another key
   is given, so heads = {a}: 'a_descends_from_b' *)
Definition revision_relations (g : dag) (a : revid) (b : option revid) : relation :=
  match b with
  | None => ADescendsFromB
  | Some b => relation_of_heads (heads g [a; b]) a b
  end.

(* _check_if_descendant_or_diverged, on the relation *)
Definition check_of_relation (r : relation) : result bool :=
  match r with
  | BDescendsFromA => Ok true
  | RelDiverged => Err DivergedBranches
  | ADescendsFromB => Ok false
  | InvalidHeads => Err AssertionError
  end.
Definition check_descendant (g : dag) (a : revid) (b : option revid) : result bool :=
  check_of_relation (revision_relations g a b).

(* Graph.find_distance_to_null(target, known): left-hand walk that stops at a
   revision whose revno is known *)
Fixpoint lookup (r : revid) (known : list (revid * nat)) : option nat :=
  match known with
  | [] => None
  | (k, n) :: rest => if k =? r then Some n else lookup r rest
  end.
Fixpoint distance_known_fuel (g : dag) (known : list (revid * nat)) (fuel : nat) (r : revid) : option nat :=
  match fuel with
  | 0 => None
  | S f => match lookup r known with
           | Some n => Some n
           | None => if present g r
                     then match parents g r with
                          | [] => Some 1
                          | p :: _ => option_map S (distance_known_fuel g known f p)
                          end
                     else None
           end
  end.
Definition distance_known (g : dag) (known : list (revid * nat)) (r : revid) : option nat :=
  distance_known_fuel g known (S (length g)) r.
Definition known_of (b : branch) : list (revid * nat) :=
  match tip b with None => [] | Some t => [(t, revno b)] end.

(* _check_history_violation: iter_lefthand_ancestry(revision_id) must meet the
   current tip; the iterator raises RevisionNotPresent when it reaches a ghost *)
Fixpoint history_walk (g : dag) (last : revid) (lh : list revid) : result unit :=
  match lh with
  | [] => Err AppendRevisionsOnlyViolation
  | x :: rest => if ghost g x then Err RevisionNotPresent
                 else if x =? last then Ok tt
                 else history_walk g last rest
  end.
Definition history_check (g : dag) (last : option revid) (s : revid) : result unit :=
  match last with
  | None => Ok tt
  | Some l => history_walk g l (lefthand g s)
  end.

(* BzrBranch.set_last_revision_info (append_only = get_append_revisions_only()) *)
Definition set_last_revision_info (g : dag) (tgt : branch) (append_only : bool)
                                  (n : nat) (s : revid) : result branch :=
  if append_only
  then match history_check g (tip tgt) s with
       | Err e => Err e
       | Ok _ => Ok (mkB (Some s) n)
       end
  else Ok (mkB (Some s) n).

(* the revision the update aims at *)
Definition eff_stop (src : branch) (stop : option revid) : option revid :=
  match stop with None => tip src | Some s => Some s end.

(* stop_revno: the source's recorded revno when no stop revision was given,
   else graph.find_distance_to_null(stop, [source info, target info]) *)
Definition stop_revno (g : dag) (tgt src : branch) (stop : option revid) (s : revid) : option nat :=
  match stop with
  | None => Some (revno src)
  | Some _ => distance_known g (known_of src ++ known_of tgt) s
  end.

(* the tail of _update_revisions: compute the revno, set the tip *)
Definition proceed (g : dag) (tgt : branch) (append_only : bool) (src : branch)
                   (stop : option revid) (s : revid) : result branch :=
  match stop_revno g tgt src stop s with
  | None => Err GhostRevisionsHaveNoRevno
  | Some n => set_last_revision_info g tgt append_only n s
  end.

(* GenericInterBranch._update_revisions(stop_revision, overwrite) *)
Definition update_revisions (g : dag) (tgt : branch) (append_only : bool) (src : branch)
                            (stop : option revid) (overwrite : bool) : result branch :=
  match eff_stop src stop with
  | None => Ok tgt                               (* source has no commits: done *)
  | Some s =>
      if overwrite then proceed g tgt append_only src stop s
      else match check_descendant g s (tip tgt) with
           | Err e => Err e
           | Ok true => Ok tgt                   (* target already contains stop *)
           | Ok false => proceed g tgt append_only src stop s
           end
  end.

Definition opt_eqb (a b : option revid) : bool :=
  match a, b with
  | None, None => true
  | Some x, Some y => x =? y
  | _, _ => false
  end.

(* _basic_push: `if result.old_revid != stop_revision: self._update_revisions(...)`
   (stop_revision None is never equal to a revision id) *)
Definition basic_push (g : dag) (tgt : branch) (append_only : bool) (src : branch)
                      (stop : option revid) (overwrite : bool) : result branch :=
  match stop with
  | Some s => if opt_eqb (tip tgt) (Some s) then Ok tgt
              else update_revisions g tgt append_only src stop overwrite
  | None => update_revisions g tgt append_only src stop overwrite
  end.

(* pull/push with an optional master (bound target): the master is updated
   first, by the same procedure; an error leaves the later branch untouched *)
Inductive op := Pull | Push.
Definition step (o : op) := match o with Pull => update_revisions | Push => basic_push end.

Record world := mkW { local : branch; local_ao : bool; master : option (branch * bool) }.

Definition run_op (o : op) (g : dag) (w : world) (src : branch) (stop : option revid)
                  (overwrite : bool) : option error * world :=
  match master w with
  | None =>
      match step o g (local w) (local_ao w) src stop overwrite with
      | Ok l' => (None, mkW l' (local_ao w) None)
      | Err e => (Some e, w)
      end
  | Some (m, mao) =>
      match step o g m mao src stop overwrite with
      | Err e => (Some e, w)
      | Ok m' =>
          match step o g (local w) (local_ao w) src stop overwrite with
          | Ok l' => (None, mkW l' (local_ao w) (Some (m', mao)))
          | Err e => (Some e, mkW (local w) (local_ao w) (Some (m', mao)))
          end
      end
  end.

(* ---- every shape the API accepts ------------------------------------------------ *)

(* `overwrite` as callers pass it: a bool, or a collection of "history"/"tags"
   (brz pull/push --overwrite-tags passes {"tags"}).  _fix_overwrite_type maps
   True to ["history", "tags"] and False to []; _basic_push/_pull hand
   `"history" in overwrite` to _update_revisions ("tags" only concerns tag merging) *)
Inductive overwrite := OwFalse | OwTrue | OwSet (history tags : bool).
Definition ow_history (o : overwrite) : bool :=
  match o with OwFalse => false | OwTrue => true | OwSet h _ => h end.

(* stop_revision: None, b"null:", or a revision *)
Inductive stop_arg := NoStop | StopNull | StopAt (r : revid).

(* set_last_revision_info(0, b"null:"): _check_history_violation walks
   iter_lefthand_ancestry(null:) = [null:], which never meets a real tip *)
Definition set_null (tgt : branch) (append_only : bool) : result branch :=
  if append_only
  then match tip tgt with
       | None => Ok (mkB None 0)
       | Some _ => Err AppendRevisionsOnlyViolation
       end
  else Ok (mkB None 0).

(* _update_revisions with stop_revision = b"null:": heads({null:, tip}) = {tip}
   (or {null:} for an empty target) = {revision_b}: 'b_descends_from_a', nothing
   to do; with overwrite find_distance_to_null(null:) = 0 and the tip is set to null: *)
Definition update_revisions_x (g : dag) (tgt : branch) (append_only : bool) (src : branch)
                              (stop : stop_arg) (ow : bool) : result branch :=
  match stop with
  | NoStop => update_revisions g tgt append_only src None ow
  | StopAt r => update_revisions g tgt append_only src (Some r) ow
  | StopNull => if ow then set_null tgt append_only else Ok tgt
  end.
Definition basic_push_x (g : dag) (tgt : branch) (append_only : bool) (src : branch)
                        (stop : stop_arg) (ow : bool) : result branch :=
  match stop with
  | NoStop => basic_push g tgt append_only src None ow
  | StopAt r => basic_push g tgt append_only src (Some r) ow
  | StopNull => match tip tgt with
                | None => Ok tgt                 (* old_revid == stop_revision *)
                | Some _ => update_revisions_x g tgt append_only src StopNull ow
                end
  end.
Definition step_x (o : op) (g : dag) (tgt : branch) (append_only : bool) (src : branch)
                  (stop : stop_arg) (ow : overwrite) : result branch :=
  match o with
  | Pull => update_revisions_x g tgt append_only src stop (ow_history ow)
  | Push => basic_push_x g tgt append_only src stop (ow_history ow)
  end.

(* master first, then the target, for any per-branch step *)
Definition run_gen (f : branch -> bool -> result branch) (w : world) : option error * world :=
  match master w with
  | None =>
      match f (local w) (local_ao w) with
      | Ok l' => (None, mkW l' (local_ao w) None)
      | Err e => (Some e, w)
      end
  | Some (m, mao) =>
      match f m mao with
      | Err e => (Some e, w)
      | Ok m' =>
          match f (local w) (local_ao w) with
          | Ok l' => (None, mkW l' (local_ao w) (Some (m', mao)))
          | Err e => (Some e, mkW (local w) (local_ao w) (Some (m', mao)))
          end
      end
  end.
Definition run_op_x (o : op) (g : dag) (w : world) (src : branch) (stop : stop_arg)
                    (ow : overwrite) : option error * world :=
  run_gen (fun b ao => step_x o g b ao src stop ow) w.

(* Branch.set_last_revision_info(revno, revid) and Branch.generate_revision_history(revid)
   called directly; new = None is b"null:" *)
Definition direct_set (g : dag) (tgt : branch) (append_only : bool) (n : nat)
                      (new : option revid) : result branch :=
  match new with
  | None => set_null tgt append_only
  | Some s => set_last_revision_info g tgt append_only n s
  end.
Definition generate_history (g : dag) (tgt : branch) (append_only : bool)
                            (new : option revid) : result branch :=
  match new with
  | None => set_null tgt append_only
  | Some s => match distance_known g (known_of tgt) s with
              | None => Err GhostRevisionsHaveNoRevno
              | Some n => set_last_revision_info g tgt append_only n s
              end
  end.

(* the recorded revno is the length of the tip's left-hand history *)
Definition consistent (g : dag) (b : branch) : Prop := distance_opt g (tip b) = Some (revno b).
Definition consistentb (g : dag) (b : branch) : bool :=
  match distance_opt g (tip b) with Some n => n =? revno b | None => false end.

(* ---- observations for the correspondence run --------------------------- *)

Definition error_name (e : error) : string :=
  match e with
  | DivergedBranches => "DivergedBranches"
  | AppendRevisionsOnlyViolation => "AppendRevisionsOnlyViolation"
  | GhostRevisionsHaveNoRevno => "GhostRevisionsHaveNoRevno"
  | RevisionNotPresent => "RevisionNotPresent"
  | AssertionError => "AssertionError"
  end.
Definition otip (t : option revid) : obs := oopt onat t.
Definition obranch (b : branch) : obs := OL [onat (revno b); otip (tip b)].
Definition ostatus (e : option error) : obs :=
  match e with None => OT "ok" | Some e => OE (error_name e) end.

(* pull/push: [status; target info after; master info after or None] *)
Definition run_case (o : op) (g : dag) (w : world) (src : branch) (stop : option revid)
                    (overwrite : bool) : obs :=
  let '(e, w') := run_op o g w src stop overwrite in
  OL [ostatus e; obranch (local w'); oopt (fun mb => obranch (fst mb)) (master w')].

(* _revision_relations / _check_if_descendant_or_diverged on a stub graph
   whose heads() returns h *)
Definition run_rel (h : list revid) (a b : revid) : obs :=
  match relation_of_heads h a b with
  | BDescendsFromA => OT "b_descends_from_a"
  | RelDiverged => OT "diverged"
  | ADescendsFromB => OT "a_descends_from_b"
  | InvalidHeads => OE "AssertionError"
  end.
Definition run_check (h : list revid) (a b : revid) : obs :=
  match check_of_relation (relation_of_heads h a b) with
  | Ok v => obool v
  | Err e => OE (error_name e)
  end.

(* the graph queries themselves (environment check against vcsgraph):
   [heads keys; sorted ancestors of r; left-hand history of r; revno of r] *)
Fixpoint insert_sorted (x : revid) (l : list revid) : list revid :=
  match l with
  | [] => [x]
  | y :: l' => if x <=? y then x :: l else y :: insert_sorted x l'
  end.
Definition sort_revs (l : list revid) : list revid := fold_right insert_sorted [] l.
Definition run_graph (g : dag) (keys : list revid) (r : revid) : obs :=
  OL [olist onat (sort_revs (heads g keys));
      olist onat (sort_revs (ancestors g [r]));
      olist onat (lefthand g r);
      oopt onat (distance_to_null g r)].

(* the general entry points used by the correspondence run *)
Definition oresult_branch (r : result branch) : obs :=
  match r with
  | Ok b => OL [OT "ok"; obranch b]
  | Err e => OL [OE (error_name e)]
  end.
Definition run_case_x (o : op) (g : dag) (w : world) (src : branch) (stop : stop_arg)
                      (ow : overwrite) : obs :=
  let '(e, w') := run_op_x o g w src stop ow in
  OL [ostatus e; obranch (local w'); oopt (fun mb => obranch (fst mb)) (master w')].
Definition run_setinfo (g : dag) (tgt : branch) (ao : bool) (n : nat) (new : option revid) : obs :=
  oresult_branch (direct_set g tgt ao n new).
Definition run_genhist (g : dag) (tgt : branch) (ao : bool) (new : option revid) : obs :=
  oresult_branch (generate_history g tgt ao new).
