(* Model/BranchRepoSpec.v -- C32: ONE deterministic specification machine for a
   branch + repository, against which the local code path and the smart-server
   code path of breezy are validated (harness/props/c32.py).

   What each piece specifies (client side / server side):
     Push, Pull     GenericInterBranch.push/pull -> _basic_push/_pull -> _update_revisions
                    (breezy/branch.py); through bzr://: RemoteBranch.lock_write, RemoteStreamSink
                    (Repository.insert_stream_1.19), Branch.set_last_revision_info verb
                    (smart/branch.py SmartServerBranchRequestSetLastRevisionInfo);
                    RemoteBranch.pull = _ensure_real + VFS (breezy/bzr/remote.py)
     Fetch          InterRepository.fetch / RemoteRepository + insert_stream verbs (smart/repository.py)
     PullFrom       Branch.pull FROM the target: RemoteStreamSource (Repository.get_stream_1.19),
                    Branch.get_tags_bytes, Branch.last_revision_info
     Commit         MemoryTree.commit -> RemoteRepository.get_commit_builder / start_write_group (VFS)
     SetTag/DelTag  BasicTags.set_tag/delete_tag -> RemoteBranch._set_tags_bytes (Branch.set_tags_bytes)
     SetConf        BranchStack.set (Branch.get_config_file/put_config_file) and
                    RemoteBranchConfig.set_option (Branch.set_config_option)
     Lock/Unlock    RemoteBranch.lock_write/unlock (Branch.lock_write / Branch.unlock verbs), LockDir
     ParentMap      RemoteRepository._get_parent_map_rpc (Repository.get_parent_map)
     GetRev         RemoteRepository._iter_revisions_rpc (Repository.iter_revisions)
     Lri, RevnoOf   Branch.last_revision_info, Branch.revision_id_to_revno verbs
     RevTree        VersionedFileRepository.get_inventories + Repository.iter_files_bytes
     GenHist        RemoteBranch.generate_revision_history (Branch.set_last_revision_ex)
     StaleLock      environment: a branch lock left in place on disk (LockDir), repository free;
                    every branch write then fails in SmartServerBranchRequestLockWrite / BzrBranch.lock_write
                    and must leave the repository unlocked (state [rlocked], knit-family formats lock physically)
     Sign           Repository.lock_write, start_write_group, sign_revision* (Repository.add_signature_text
                    verb, write-group tokens), commit_write_group / abort_write_group

   Revisions are Lib/Dag indices; [g] is the universe (source history + commits made during
   the run), [have] the sorted list of revisions stored in the target repository.
   The machine is parameterised by the access mode [cfg] only where the real code paths are
   KNOWN to differ (notes/C32.md): operations that need VFS under BRZ_NO_SMART_VFS, and two
   discrepancies that are known findings (null: dropped by the remote get_parent_map; the exception
   class of generate_revision_history on an absent revision).  A third one (Repository.iter_revisions
   answering with the inventory serializer number: KeyError in get_revision on rich-root knit/pack
   repositories) was repaired in /repo 9cb1028; GetRev is mode-independent since.  No proofs here. *)
From Coq Require Import String List Arith Bool ZArith.
From BV Require Import Lib.Obs Lib.Dag Theory.DagFacts.
Import ListNotations.
Open Scope string_scope.
Open Scope nat_scope.
Open Scope list_scope.

Record cfg := mkCfg {
  remote : bool;        (* through the smart server *)
  vfs : bool;           (* VFS verbs enabled on the server *)
  hpss : bool           (* the server knows the post-1.12 verbs (false: the client takes its VFS fallbacks) *)
}.

Record st := mkSt {
  g : dag;
  have : list revid;               (* sorted, without duplicates *)
  tip : option revid;
  revno : nat;
  tags : list (nat * nat);         (* tag index -> revision, sorted by tag index *)
  conf : list (nat * nat);         (* option index -> value index, sorted *)
  locked : bool;                   (* the branch is physically locked by somebody else *)
  rlocked : bool;                  (* the repository is physically locked by somebody else *)
  knit : bool;                     (* format constant: knit-family repository (lock_write takes a physical
                                      lock, write groups are not transactional); false for pack formats *)
  signed : list revid;             (* revisions with a stored signature, sorted *)
  mine : bool                      (* THIS client holds an outer write lock (Begin .. End) on its one object *)
}.

Inductive op :=
| Push (s : revid) (ow : bool)
| Pull (s : revid) (ow : bool)
| Fetch (s : revid)
| PullFrom
| Commit
| SetTag (t : nat) (r : revid)
| DelTag (t : nat)
| SetConf (o v : nat) (old : bool)
| Lock
| Unlock
| ParentMap (keys : list (option revid))
| GetRev (r : revid)
| Lri
| RevnoOf (r : revid)
| RevTree (r : revid)
| GenHist (r : revid)
| StaleLock                        (* environment: a branch lock left in place, the repository free *)
| Sign (rs : list revid)
| Begin                            (* this client takes an outer write lock and keeps it over the next operations *)
| End.          (* sign_revision for each of rs inside ONE write group *)

(* ---- sorted association lists -------------------------------------------- *)

Fixpoint ains (k v : nat) (l : list (nat * nat)) : list (nat * nat) :=
  match l with
  | [] => [(k, v)]
  | (k', v') :: l' =>
      if k <? k' then (k, v) :: l
      else if k =? k' then (k, v) :: l'
      else (k', v') :: ains k v l'
  end.
Fixpoint aget (k : nat) (l : list (nat * nat)) : option nat :=
  match l with
  | [] => None
  | (k', v') :: l' => if k =? k' then Some v' else aget k l'
  end.
Fixpoint adel (k : nat) (l : list (nat * nat)) : list (nat * nat) :=
  match l with
  | [] => []
  | (k', v') :: l' => if k =? k' then l' else (k', v') :: adel k l'
  end.

(* ---- repository content ---------------------------------------------------- *)

(* the revisions a fetch of [s] transfers: the ancestry of s that exists (ghosts do not) *)
Definition closure (g : dag) (s : revid) : list revid := filter (present g) (ancestors g [s]).

(* sorted union, as a filter over all indices *)
Definition merge_have (g : dag) (h extra : list revid) : list revid :=
  filter (fun r => memb r h || memb r extra) (seq 0 (length g)).

Definition fetched (x : st) (s : revid) : st :=
  mkSt (g x) (merge_have (g x) (have x) (closure (g x) s)) (tip x) (revno x) (tags x) (conf x)
       (locked x) (rlocked x) (knit x) (signed x) (mine x).

Definition set_tip (x : st) (t : revid) (n : nat) : st :=
  mkSt (g x) (have x) (Some t) n (tags x) (conf x) (locked x) (rlocked x) (knit x) (signed x) (mine x).

Definition with_tags (x : st) (t : list (nat * nat)) : st :=
  mkSt (g x) (have x) (tip x) (revno x) t (conf x) (locked x) (rlocked x) (knit x) (signed x) (mine x).
Definition with_conf (x : st) (c : list (nat * nat)) : st :=
  mkSt (g x) (have x) (tip x) (revno x) (tags x) c (locked x) (rlocked x) (knit x) (signed x) (mine x).
Definition with_locks (x : st) (l rl : bool) : st :=
  mkSt (g x) (have x) (tip x) (revno x) (tags x) (conf x) l rl (knit x) (signed x) (mine x).
Definition with_mine (x : st) (m : bool) : st :=
  mkSt (g x) (have x) (tip x) (revno x) (tags x) (conf x) (locked x) (rlocked x) (knit x) (signed x) m.
Definition with_signed (x : st) (sg : list revid) : st :=
  mkSt (g x) (have x) (tip x) (revno x) (tags x) (conf x) (locked x) (rlocked x) (knit x) sg (mine x).

(* the revisions of rs up to the first one that is not stored *)
Fixpoint present_prefix (h rs : list revid) : list revid :=
  match rs with
  | [] => []
  | r :: rest => if memb r h then r :: present_prefix h rest else []
  end.
Definition all_present (h rs : list revid) : bool := forallb (fun r => memb r h) rs.

(* ---- observations ----------------------------------------------------------- *)

Definition otip (t : option revid) : obs := oopt onat t.
Definition oassoc (l : list (nat * nat)) : obs := olist (fun p => OL [onat (fst p); onat (snd p)]) l.

(* what is read back from disk after every operation *)
Definition observe (x : st) : obs :=
  OL [onat (revno x); otip (tip x); oassoc (tags x); oassoc (conf x); olist onat (have x);
      obool (locked x || mine x); obool (rlocked x || (mine x && knit x)); olist onat (signed x); OZ 0].

Definition update_result (old new : st) : obs :=
  OL [onat (revno old); otip (tip old); onat (revno new); otip (tip new)].

(* ---- GenericInterBranch._update_revisions on the fetched repository ---------- *)

Inductive verdict := Keep | Move (n : nat) | Diverged | NoRevno.

Definition decide (x : st) (s : revid) (ow : bool) : verdict :=
  let move := match distance_to_null (g x) s with Some n => Move n | None => NoRevno end in
  match tip x with
  | None => move
  | Some t =>
      if t =? s then Keep
      else if ow then move
      else if is_ancestor (g x) s t then Keep
      else if is_ancestor (g x) t s then move
      else Diverged
  end.

Definition update (x : st) (s : revid) (ow : bool) : obs * st :=
  let x1 := fetched x s in
  match decide x s ow with
  | Keep => (update_result x x1, x1)
  | Move n => let x2 := set_tip x1 s n in (update_result x x2, x2)
  | Diverged => (OE "DivergedBranches", x1)
  | NoRevno => (OE "GhostRevisionsHaveNoRevno", x1)
  end.

(* ---- reads --------------------------------------------------------------------- *)

Definition oparents (ps : list revid) : obs :=
  match ps with [] => OL [OZ (-1)] | _ => olist onat ps end.

Definition has_some (keys : list (option revid)) : bool :=
  existsb (fun k => match k with Some _ => true | None => false end) keys.
Definition has_null (keys : list (option revid)) : bool :=
  existsb (fun k => match k with None => true | Some _ => false end) keys.
Definition wanted (keys : list (option revid)) (r : revid) : bool :=
  existsb (fun k => match k with Some r' => r' =? r | None => false end) keys.

(* RemoteRepository._get_parent_map_rpc discards null: and forgets to add it back when other
   keys are asked for too (candidate finding C32-parent-map-null) *)
Definition parent_map (c : cfg) (x : st) (keys : list (option revid)) : obs :=
  let null_entry :=
    if has_null keys && negb (remote c && has_some keys) then [OL [OZ (-1); OL []]] else [] in
  OL (null_entry ++ map (fun r => OL [onat r; oparents (parents (g x) r)])
                        (filter (wanted keys) (have x))).

(* position of r on the left-hand history of the tip *)
Fixpoint index_of (r : revid) (l : list revid) : option nat :=
  match l with
  | [] => None
  | y :: l' => if y =? r then Some 0 else option_map S (index_of r l')
  end.

Definition next_fresh (g : dag) : bool := fresh_next g.

(* ---- the machine ------------------------------------------------------------------ *)

Definition mutating (o : op) : bool :=
  match o with
  | Push _ _ | Pull _ _ | Commit | SetTag _ _ | DelTag _ | SetConf _ _ _ | Lock | StaleLock | GenHist _ => true
  | _ => false
  end.

(* operations that are implemented through the VFS even on a current server *)
Definition needs_vfs (o : op) : bool :=
  match o with Pull _ _ | Commit => true | _ => false end.

Definition vfs_refusal (o : op) : obs :=
  match o with
  | Pull _ _ => OE "AssertionError"              (* RemoteBzrDir._ensure_real *)
  | _ => OE "UnknownErrorFromSmartServer"        (* DisabledMethod from the server *)
  end.

Definition step (c : cfg) (x : st) (o : op) : obs * st :=
  if mutating o && locked x then (OE "LockContention", x)
  else if needs_vfs o && remote c && negb (vfs c) then (vfs_refusal o, x)
  else
  match o with
  | Push s ow => update x s ow
  | Pull s ow => update x s ow
  | Fetch s =>
      (* pack repositories take no long-lived physical lock: a held BRANCH lock does not stop a fetch;
         a knit-family repository is locked together with the branch by Lock (not by StaleLock) *)
      if rlocked x then (OE "LockContention", x) else (OT "ok", fetched x s)
  | PullFrom =>
      (OL [onat (revno x); otip (tip x);
           olist onat (match tip x with None => [] | Some t => merge_have (g x) [] (closure (g x) t) end);
           oassoc (tags x); OZ 0], x)
  | Commit =>
      if next_fresh (g x)
      then let new := length (g x) in
           (onat new,
            mkSt (g x ++ [match tip x with None => [] | Some t => [t] end]) (have x ++ [new])
                 (Some new) (S (revno x)) (tags x) (conf x) (locked x) (rlocked x) (knit x) (signed x) (mine x))
      else (OE "ModelIdCollision", x)     (* numbering artefact: the next index is used as a ghost id *)
  | SetTag t r => (ON, with_tags x (ains t r (tags x)))
  | DelTag t =>
      match aget t (tags x) with
      | Some _ => (ON, with_tags x (adel t (tags x)))
      | None => (OE "NoSuchTag", x)
      end
  | SetConf o' v _ => (ON, with_conf x (ains o' v (conf x)))
  | Lock => if mine x then (OE "LockContention", x)
            else (OT "ok", with_locks x true (knit x))   (* BzrBranch.lock_write locks the repository too *)
  | StaleLock => if mine x then (OE "LockContention", x) else (OT "ok", with_locks x true false)
  | Begin => if locked x then (OE "LockContention", x) else (OT "ok", with_mine x true)
  | End => if mine x then (OT "ok", with_mine x false) else (OT "not-open", x)
  | Sign rs =>
      (* Repository.lock_write / start_write_group / sign_revision* / commit_write_group.
         RPC write-group verbs on pack formats; knit-family repositories need VFS for it and do
         not roll back what was signed before a failure *)
      if rlocked x then (OE "LockContention", x)
      else if knit x && remote c && negb (vfs c) then (OE "UnknownErrorFromSmartServer", x)
      else if all_present (have x) rs
      then (OT "ok", with_signed x (merge_have (g x) (signed x) rs))
      else (OE "NoSuchRevision",
            if knit x then with_signed x (merge_have (g x) (signed x) (present_prefix (have x) rs)) else x)
  | Unlock =>
      if locked x then (OT "ok", with_locks x false false)
      else (OT "not-held", x)
  | ParentMap keys => (parent_map c x keys, x)
  | GetRev r =>
      if memb r (have x) then (OL [olist onat (parents (g x) r); obool true], x)
      else (OE "NoSuchRevision", x)
  | Lri => (OL [onat (revno x); otip (tip x)], x)
  | RevnoOf r =>
      match index_of r (lefthand_opt (g x) (tip x)) with
      | Some i => (onat (revno x - i), x)
      | None => (OE "NoSuchRevision", x)
      end
  | RevTree r => if memb r (have x) then (obool true, x) else (OE "NoSuchRevision", x)
  | GenHist r =>
      if memb r (have x)
      then match distance_to_null (g x) r with
           | Some n => (ON, set_tip x r n)
           | None => (OE "GhostRevisionsHaveNoRevno", x)
           end
      else (OE (if remote c then "NoSuchRevision" else "GhostRevisionsHaveNoRevno"), x)
                                                    (* candidate finding C32-genhist-absent-class *)
  end.

(* one trace entry = what the call returned + what is on disk afterwards *)
Definition entry (r : obs * st) : obs := OL [fst r; observe (snd r)].

Fixpoint run (c : cfg) (x : st) (ops : list op) : list obs :=
  match ops with
  | [] => []
  | o :: rest => let r := step c x o in entry r :: run c (snd r) rest
  end.

Fixpoint final (c : cfg) (x : st) (ops : list op) : st :=
  match ops with
  | [] => x
  | o :: rest => final c (snd (step c x o)) rest
  end.

(* ---- the correspondence entry point ----------------------------------------------------- *)

Definition init_state (g0 : dag) (init : option revid) (kn : bool) : st :=
  match init with
  | None => mkSt g0 [] None 0 [] [] false false kn [] false
  | Some t => mkSt g0 (merge_have g0 [] (closure g0 t)) (Some t)
                   (match distance_to_null g0 t with Some n => n | None => 0 end) [] [] false false kn [] false
  end.

Definition cfg_local := mkCfg false true true.
Definition cfg_vfs := mkCfg true true true.
Definition cfg_novfs := mkCfg true false true.
Definition cfg_old := mkCfg true true false.     (* a server without the post-1.12 verbs *)

Definition run_case (g0 : dag) (init : option revid) (kn old : bool) (ops : list op) : obs :=
  let x := init_state g0 init kn in
  OL ([OL (run cfg_local x ops); OL (run cfg_vfs x ops); OL (run cfg_novfs x ops)]
      ++ (if old then [OL (run cfg_old x ops)] else [])).
