(* Model/OsUtils.v -- hand model of the Rust osutils core (C47).

   crates/osutils/src/path.rs   is_inside, is_inside_any, minimum_path_selection,
                                splitpath, pathjoin (posix), joinpath
   crates/osutils/src/lib.rs    split_lines (SplitLines::next), chunks_to_lines (ChunksToLines::next)
   crates/osutils-py/src/lib.rs PyChunksToLinesIterator::__next__ (what Python's
                                split_lines / chunks_to_lines really run), the py wrappers
                                of minimum_path_selection / format_highres_date
   crates/osutils/src/time.rs   format_highres_date, unpack_highres_date

   Environment (outside /repo, modelled here and validated by the correspondence run):
   std::path::Path::components / starts_with / PathBuf::push on Unix, Ord of
   std::path::Component, memchr, chrono's "%a %Y-%m-%d %H:%M:%S" formatting and
   "%Y-%m-%d %H:%M:%S" parsing (canonical field widths, years 0..9999 only),
   str::parse::<i32>, str::parse::<f64> restricted to ".<digits>".
   The f64 <-> decimal conversions stay outside Coq: a time is (secs, frac9) with
   secs = floor t and frac9 = the 9-digit rounding of t - floor t (0..10^9). *)
From Coq Require Import String Ascii ZArith NArith List Bool.
From BV Require Import Lib.Bytes Lib.Obs.
Import ListNotations.
Open Scope N_scope.

Definition SLASH : N := 47.
Definition DOT : N := 46.
Definition LF : N := 10.
Definition SP : N := 32.
Definition DASH : N := 45.
Definition PLUS : N := 43.
Definition COLON : N := 58.

(* ------------------------------------------------------------------ *)
(* generic list functions                                             *)
(* ------------------------------------------------------------------ *)
Section Generic.
Variable A : Type.
Variable leb : A -> A -> bool.
Variable eqb : A -> A -> bool.

(* derived Ord of slices / Vec: lexicographic, a proper prefix is smaller *)
Fixpoint lex_leb (a b : list A) : bool :=
  match a, b with
  | [], _ => true
  | _ :: _, [] => false
  | x :: a', y :: b' => if leb x y then (if leb y x then lex_leb a' b' else true) else false
  end.

(* Path::starts_with = iter_after(self.components(), base.components()).is_some() *)
Fixpoint is_prefix (p l : list A) : bool :=
  match p, l with
  | [], _ => true
  | _ :: _, [] => false
  | x :: p', y :: l' => eqb x y && is_prefix p' l'
  end.
End Generic.
Arguments lex_leb {A}.
Arguments is_prefix {A}.

Section Keyed.
Variables K V : Type.
Variable kleb : K -> K -> bool.
Variable keqb : K -> K -> bool.
Variable kprefix : K -> K -> bool.

(* stable insertion sort by key (sort_by_key is stable) *)
Fixpoint insert_by (x : K * V) (l : list (K * V)) : list (K * V) :=
  match l with
  | [] => [x]
  | y :: l' => if kleb (fst x) (fst y) then x :: l else y :: insert_by x l'
  end.
Definition sort_by (l : list (K * V)) : list (K * V) := fold_right insert_by [] l.

(* HashSet<PathBuf>::insert over the iteration order: the first of several
   equal keys stays *)
Fixpoint dedup_by (l : list (K * V)) : list (K * V) :=
  match l with
  | [] => []
  | x :: l' => x :: filter (fun y => negb (keqb (fst y) (fst x))) (dedup_by l')
  end.

(* for &path in &sorted_paths[1..] { if !is_inside(search_paths.last(), path) { push } } *)
Fixpoint scan_from (last : K) (l : list (K * V)) : list (K * V) :=
  match l with
  | [] => []
  | p :: l' => if kprefix last (fst p) then scan_from last l'
               else p :: scan_from (fst p) l'
  end.
Definition scan (l : list (K * V)) : list (K * V) :=
  match l with [] => [] | x :: r => x :: scan_from (fst x) r end.
End Keyed.
Arguments insert_by {K V}.
Arguments sort_by {K V}.
Arguments dedup_by {K V}.
Arguments scan_from {K V}.
Arguments scan {K V}.

(* ------------------------------------------------------------------ *)
(* paths                                                              *)
(* ------------------------------------------------------------------ *)
(* std::path::Component on Unix (no Prefix); derived Ord = declaration order *)
Inductive comp := CRoot | CCur | CParent | CNormal (s : bytes).

Definition comp_rank (c : comp) : N :=
  match c with CRoot => 1 | CCur => 2 | CParent => 3 | CNormal _ => 4 end.
Definition bytes_leb : bytes -> bytes -> bool := lex_leb N.leb.
Definition comp_leb (a b : comp) : bool :=
  match a, b with
  | CNormal x, CNormal y => bytes_leb x y
  | _, _ => comp_rank a <=? comp_rank b
  end.
Definition comp_eqb (a b : comp) : bool :=
  match a, b with
  | CRoot, CRoot | CCur, CCur | CParent, CParent => true
  | CNormal x, CNormal y => bytes_eqb x y
  | _, _ => false
  end.
Definition path := list comp.
Definition path_leb : path -> path -> bool := lex_leb comp_leb.
Definition path_eqb : path -> path -> bool := list_eqb comp_eqb.
Definition path_prefix : path -> path -> bool := is_prefix comp_eqb.

Definition DOTS : bytes := [DOT].
Definition DOTDOT : bytes := [DOT; DOT].

Definition piece_comp (p : bytes) : list comp :=
  match p with
  | [] => []
  | _ => if bytes_eqb p DOTS then [] else if bytes_eqb p DOTDOT then [CParent] else [CNormal p]
  end.

(* Path::new(s).components().collect() on Unix: a leading "/" is RootDir, a
   leading "." of a relative path is CurDir, other "." and empty pieces vanish *)
Definition components (s : bytes) : path :=
  match split1 SLASH s with
  | [] => []
  | first :: rest =>
      let tail := flat_map piece_comp rest in
      match first, rest with
      | [], [] => []
      | [], _ :: _ => CRoot :: tail
      | _, _ => if bytes_eqb first DOTS then CCur :: tail else piece_comp first ++ tail
      end
  end.

(* path.rs: is_inside(dir, fname) = fname.starts_with(dir) *)
Definition is_inside (dir fname : bytes) : bool :=
  path_prefix (components dir) (components fname).

(* path.rs: is_inside_any *)
Fixpoint is_inside_any (dir_list : list bytes) (fname : bytes) : bool :=
  match dir_list with
  | [] => false
  | d :: r => if is_inside d fname then true else is_inside_any r fname
  end.

(* path.rs: is_inside_or_parent_of_any *)
Fixpoint is_inside_or_parent_of_any (dir_list : list bytes) (fname : bytes) : bool :=
  match dir_list with
  | [] => false
  | d :: r => if is_inside d fname || is_inside fname d then true
              else is_inside_or_parent_of_any r fname
  end.

Definition keyed (paths : list bytes) : list (path * bytes) :=
  map (fun s => (components s, s)) paths.

(* osutils-py minimum_path_selection: the iterable is collected into a
   HashSet<PathBuf> (PathBuf equality is component-wise), then path.rs:
   len < 2 -> unchanged; sort by components; keep what is not inside the last kept.
   The result is a set of the original strings. *)
Definition min_sel_keyed (paths : list bytes) : list (path * bytes) :=
  let d := dedup_by path_eqb (keyed paths) in
  if (length d <? 2)%nat then d
  else scan path_prefix (sort_by path_leb d).
Definition minimum_path_selection (paths : list bytes) : list bytes :=
  map snd (min_sel_keyed paths).

(* ---- splitpath / pathjoin / joinpath ---- *)
Inductive res (A : Type) := Ok (a : A) | Err (seg : bytes).
Arguments Ok {A}.
Arguments Err {A}.

Fixpoint splitpath_go (ps : list bytes) : res (list bytes) :=
  match ps with
  | [] => Ok []
  | f :: r =>
      if bytes_eqb f DOTDOT then Err f
      else match splitpath_go r with
           | Err e => Err e
           | Ok l => if bytes_eqb f DOTS || bytes_eqb f [] then Ok l else Ok (f :: l)
           end
  end.
Definition splitpath (p : bytes) : res (list bytes) := splitpath_go (split1 SLASH p).

Definition is_abs (s : bytes) : bool :=
  match s with c :: _ => c =? SLASH | [] => false end.
Definition need_sep (buf : bytes) : bool :=
  match rev buf with c :: _ => negb (c =? SLASH) | [] => false end.
(* PathBuf::push on Unix *)
Definition push (buf s : bytes) : bytes :=
  if is_abs s then s
  else if need_sep buf then buf ++ SLASH :: s else buf ++ s.
Definition pathjoin (ps : list bytes) : bytes := fold_left push ps [].

Definition bad_seg (p : bytes) : bool := bytes_eqb p [] || bytes_eqb p DOTDOT.
Definition joinpath (ps : list bytes) : res bytes :=
  match find bad_seg ps with
  | Some p => Err p
  | None => Ok (pathjoin ps)
  end.

(* ------------------------------------------------------------------ *)
(* lines                                                              *)
(* ------------------------------------------------------------------ *)
(* memchr(b'\n', s) *)
Fixpoint memchr (c : N) (s : bytes) : option nat :=
  match s with
  | [] => None
  | x :: s' => if x =? c then Some O
               else match memchr c s' with Some i => Some (S i) | None => None end
  end.

(* lib.rs SplitLines::next: None on empty text, else (line, remaining text) *)
Definition cut_line (t : bytes) : option (bytes * bytes) :=
  match t with
  | [] => None
  | _ => match memchr LF t with
         | Some i => Some (firstn (S i) t, skipn (S i) t)
         | None => Some (t, [])
         end
  end.
Fixpoint split_lines_fuel (fuel : nat) (t : bytes) : list bytes :=
  match fuel with
  | O => []
  | S f => match cut_line t with
           | None => []
           | Some (l, r) => l :: split_lines_fuel f r
           end
  end.
(* every call of next consumes at least one byte, so length t calls suffice *)
Definition split_lines (t : bytes) : list bytes := split_lines_fuel (length t) t.

(* is_well_formed_line *)
Definition well_formed_line (l : bytes) : bool :=
  match l with
  | [] => false
  | _ => match memchr LF l with
         | Some i => Nat.eqb i (length l - 1)
         | None => false
         end
  end.

(* lib.rs ChunksToLines::next, state = (tail, remaining chunks);
   structural on the remaining chunks: a loop round without a return consumes one *)
Fixpoint core_next (chunks : list bytes) (tail : bytes) : option (bytes * bytes * list bytes) :=
  match memchr LF tail with
  | Some i => Some (firstn (S i) tail, skipn (S i) tail, chunks)
  | None =>
      match chunks with
      | c :: rest =>
          if match tail with [] => true | _ => false end && well_formed_line c
          then Some (c, tail, rest)
          else core_next rest (tail ++ c)
      | [] => match tail with
              | [] => None
              | _ => Some (tail, [], [])
              end
      end
  end.
Fixpoint core_collect (fuel : nat) (chunks : list bytes) (tail : bytes) : list bytes :=
  match fuel with
  | O => []
  | S f => match core_next chunks tail with
           | None => []
           | Some (l, tail', chunks') => l :: core_collect f chunks' tail'
           end
  end.
Definition total_len (cs : list bytes) : nat := length (concat cs).
Definition core_chunks_to_lines (cs : list bytes) : list bytes :=
  core_collect (S (total_len cs)) cs [].

(* osutils-py PyChunksToLinesIterator::__next__, state = (tail : Option<Vec<u8>>, chunk_iter).
   The assert!(!chunk.is_empty()) calls are unreachable (tail is never Some(empty)). *)
Fixpoint py_next (chunks : list bytes) (tail : option bytes)
  : option (bytes * option bytes * list bytes) :=
  match tail with
  | Some chunk =>
      match memchr LF chunk with
      | Some nl =>
          if Nat.eqb nl (length chunk - 1) then Some (chunk, None, chunks)
          else Some (firstn (S nl) chunk, Some (skipn (S nl) chunk), chunks)
      | None =>
          match chunks with
          | c :: rest =>
              let chunk' := chunk ++ c in
              py_next rest (match chunk' with [] => None | _ => Some chunk' end)
          | [] => Some (chunk, None, [])
          end
      end
  | None =>
      match chunks with
      | c :: rest =>
          if match memchr LF c with
             | Some nl => Nat.eqb nl (length c - 1)
             | None => false
             end
          then Some (c, None, rest)
          else py_next rest (match c with [] => None | _ => Some c end)
      | [] => None
      end
  end.
Fixpoint py_collect (fuel : nat) (chunks : list bytes) (tail : option bytes) : list bytes :=
  match fuel with
  | O => []
  | S f => match py_next chunks tail with
           | None => []
           | Some (l, tail', chunks') => l :: py_collect f chunks' tail'
           end
  end.
(* osutils.chunks_to_lines(chunks) *)
Definition chunks_to_lines (cs : list bytes) : list bytes :=
  py_collect (S (total_len cs)) cs None.
(* osutils.split_lines(text): the bytes object is wrapped into a one-element list *)
Definition py_split_lines (t : bytes) : list bytes := chunks_to_lines [t].

(* ------------------------------------------------------------------ *)
(* dates                                                              *)
(* ------------------------------------------------------------------ *)
Open Scope Z_scope.

Definition zb (z : Z) : N := Z.to_N z.
Definition digit (z : Z) : N := zb (48 + z).
Definition d2 (z : Z) : bytes := [digit (z / 10); digit (z mod 10)].
Definition d4 (z : Z) : bytes :=
  [digit (z / 1000); digit ((z / 100) mod 10); digit ((z / 10) mod 10); digit (z mod 10)].

(* decimal printing of a non-negative number (fuel = number of binary digits + 1) *)
Fixpoint dec_fuel (fuel : nat) (z : Z) (acc : bytes) : bytes :=
  match fuel with
  | O => acc
  | S f => let acc' := digit (z mod 10) :: acc in
           if z <? 10 then acc' else dec_fuel f (z / 10) acc'
  end.
Definition dec (z : Z) : bytes := dec_fuel (S (Z.to_nat (Z.log2 z))) z [].
(* {:02} *)
Definition pad2 (z : Z) : bytes := if z <? 100 then d2 z else dec z.

(* the 400-year era arithmetic of the proleptic Gregorian calendar *)
Definition yoe_of (doe : Z) : Z := (doe - doe / 1460 + doe / 36524 - doe / 146096) / 365.
Definition doy_of (doe : Z) : Z := let y := yoe_of doe in doe - (365 * y + y / 4 - y / 100).
Definition mp_of (doy : Z) : Z := (5 * doy + 2) / 153.
Definition civil_of_doe (doe : Z) : Z * Z * Z :=     (* (yoe, month, day), year starts in March *)
  let doy := doy_of doe in
  let mp := mp_of doy in
  (yoe_of doe, (if mp <? 10 then mp + 3 else mp - 9), doy - (153 * mp + 2) / 5 + 1).
Definition civil_from_days (z : Z) : Z * Z * Z :=
  let z' := z + 719468 in
  let era := z' / 146097 in
  let doe := z' mod 146097 in
  match civil_of_doe doe with
  | (yoe, m, d) => (yoe + era * 400 + (if m <=? 2 then 1 else 0), m, d)
  end.
Definition doe_of_civil (yoe m d : Z) : Z :=
  let doy := (153 * (if 2 <? m then m - 3 else m + 9) + 2) / 5 + d - 1 in
  yoe * 365 + yoe / 4 - yoe / 100 + doy.
Definition days_from_civil (y m d : Z) : Z :=
  let y' := y - (if m <=? 2 then 1 else 0) in
  let era := y' / 400 in
  let yoe := y' mod 400 in
  era * 146097 + doe_of_civil yoe m d - 719468.

Definition is_leap (y : Z) : bool :=
  ((y mod 4 =? 0) && negb (y mod 100 =? 0)) || (y mod 400 =? 0).
Definition days_in_month (y m : Z) : Z :=
  if m =? 2 then (if is_leap y then 29 else 28)
  else if (m =? 4) || (m =? 6) || (m =? 9) || (m =? 11) then 30 else 31.

Definition asc (s : string) : bytes :=
  (fix go (s : string) : bytes :=
     match s with
     | EmptyString => []
     | String a s' => N_of_ascii a :: go s'
     end) s.
(* chrono %a, index 0 = Sunday *)
Definition DAYNAMES : list bytes :=
  [asc "Sun"; asc "Mon"; asc "Tue"; asc "Wed"; asc "Thu"; asc "Fri"; asc "Sat"].
(* time.rs WEEKDAYS *)
Definition WEEKDAYS : list bytes :=
  [asc "Mon"; asc "Tue"; asc "Wed"; asc "Thu"; asc "Fri"; asc "Sat"; asc "Sun"].
Definition dayname (days : Z) : bytes := nth (Z.to_nat ((days + 4) mod 7)) DAYNAMES [].

Definition fmt_fields (y m d hh mi ss : Z) : bytes :=
  d4 y ++ DASH :: d2 m ++ DASH :: d2 d ++ SP :: d2 hh ++ COLON :: d2 mi ++ COLON :: d2 ss.

(* Utc.timestamp_opt(ts, 0).unwrap().format("%a %Y-%m-%d %H:%M:%S");
   None = year outside 0..9999 (not modelled: chrono prints a sign there) *)
Definition format_dt (ts : Z) : option bytes :=
  let days := ts / 86400 in
  let sod := ts mod 86400 in
  match civil_from_days days with
  | (y, m, d) =>
      if (0 <=? y) && (y <=? 9999)
      then Some (dayname days ++ SP :: fmt_fields y m d (sod / 3600) ((sod / 60) mod 60) (sod mod 60))
      else None
  end.

Definition is_digit (c : N) : bool := ((48 <=? c) && (c <=? 57))%N.
Definition dval (c : N) : Z := Z.of_N c - 48.
Definition parse2 (a c : N) : option Z :=
  if is_digit a && is_digit c then Some (dval a * 10 + dval c) else None.

(* NaiveDateTime::parse_from_str(s, "%Y-%m-%d %H:%M:%S").and_utc().timestamp(),
   canonical widths only (chrono is more lenient; seconds = 60 is not modelled) *)
Definition parse_dt (s : bytes) : option Z :=
  match s with
  | [y1; y2; y3; y4; s1; m1; m2; s2; d1; d2'; s3; h1; h2; s4; i1; i2; s5; c1; c2] =>
      if (s1 =? DASH)%N && (s2 =? DASH)%N && (s3 =? SP)%N && (s4 =? COLON)%N && (s5 =? COLON)%N
      then match parse2 y1 y2, parse2 y3 y4, parse2 m1 m2, parse2 d1 d2', parse2 h1 h2,
                 parse2 i1 i2, parse2 c1 c2 with
           | Some ya, Some yb, Some m, Some d, Some hh, Some mi, Some ss =>
               let y := ya * 100 + yb in
               if (1 <=? m) && (m <=? 12) && (1 <=? d) && (d <=? days_in_month y m)
                  && (hh <? 24) && (mi <? 60) && (ss <? 60)
               then Some (days_from_civil y m d * 86400 + hh * 3600 + mi * 60 + ss)
               else None
           | _, _, _, _, _, _, _ => None
           end
      else None
  | _ => None
  end.

Definition NANO : Z := 1000000000.

Fixpoint digits_fixed (n : nat) (z : Z) (acc : bytes) : bytes :=
  match n with
  | O => acc
  | S k => digits_fixed k (z / 10) (digit (z mod 10) :: acc)
  end.
(* format!("{:.9}", t - t.floor()) where frac9 = round((t - floor t) * 10^9) in 0..10^9 *)
Definition fraction_str (frac9 : Z) : bytes :=
  digit (frac9 / NANO) :: DOT :: digits_fixed 9 (frac9 mod NANO) [].

Definition I32_MIN : Z := -2147483648.
Definition I32_MAX : Z := 2147483647.
(* osutils-py: offset.extract::<f64>() as i32 (saturating); None -> 0 in time.rs *)
Definition py_offset (o : option Z) : Z :=
  match o with
  | None => 0
  | Some z => if z <? I32_MIN then I32_MIN else if I32_MAX <? z then I32_MAX else z
  end.

(* time.rs format_highres_date; secs = t.floor() as i64, offset : i32 *)
Definition format_highres_date (secs frac9 offset : Z) : option bytes :=
  let fraction := fraction_str frac9 in
  let seconds := match fraction with
                 | c :: _ => if (c =? 49)%N then secs + 1 else secs
                 | [] => secs
                 end in
  match format_dt (seconds + offset) with
  | None => None
  | Some datetime =>
      let highres_seconds := tl fraction in
      let offset_sign := if offset <? 0 then DASH else PLUS in
      let abs_offset := Z.abs offset in
      let offset_str := SP :: offset_sign :: pad2 (abs_offset / 3600) ++ pad2 ((abs_offset / 60) mod 60) in
      Some (datetime ++ highres_seconds ++ offset_str)
  end.

(* str::find(char) on ASCII *)
Definition find_byte (c : N) (s : bytes) : option nat := memchr c s.
Definition slice (a e : nat) (s : bytes) : bytes := firstn (e - a) (skipn a s).

Fixpoint digits_val (s : bytes) (acc : Z) : option Z :=
  match s with
  | [] => Some acc
  | c :: s' => if is_digit c then digits_val s' (acc * 10 + dval c) else None
  end.
(* ".ddd" -> (ddd, number of digits); Rust's f64 parser accepts more (exponents): not modelled *)
Definition parse_fract (s : bytes) : option (Z * nat) :=
  match s with
  | c :: ((_ :: _) as ds) =>
      if (c =? DOT)%N then match digits_val ds 0 with
                            | Some v => Some (v, length ds)
                            | None => None
                            end
      else None
  | _ => None
  end.
(* str::parse::<i32>: optional sign, at least one digit, range check *)
Definition parse_i32 (s : bytes) : option Z :=
  let body := match s with
              | c :: r => if (c =? PLUS)%N || (c =? DASH)%N then r else s
              | [] => s
              end in
  let neg := match s with c :: _ => (c =? DASH)%N | [] => false end in
  match body with
  | [] => None
  | _ => match digits_val body 0 with
         | Some v => let v' := if neg then - v else v in
                     if (I32_MIN <=? v') && (v' <=? I32_MAX) then Some v' else None
         | None => None
         end
  end.

Inductive unpack_result :=
| UOk (timestamp : Z) (fract : Z * nat) (offset : Z)   (* fract = digits after the point *)
| UErr                                                (* Err(String) -> ValueError *)
| UPanic.                                             (* i32 overflow in a debug build *)

Definition in_i32 (z : Z) : bool := (I32_MIN <=? z) && (z <=? I32_MAX).

(* time.rs unpack_highres_date *)
Definition unpack_highres_date (date : bytes) : unpack_result :=
  match find_byte SP date with
  | None => UErr
  | Some space_loc =>
      let weekday := firstn space_loc date in
      if negb (existsb (bytes_eqb weekday) WEEKDAYS) then UErr else
      match find_byte DOT date with
      | None => UErr
      | Some dot_loc =>
          let base_time_str := slice (space_loc + 1) dot_loc date in
          match find_byte SP (skipn dot_loc date) with
          | None => UErr
          | Some offset_loc =>
              let fract_seconds_str := slice dot_loc (dot_loc + offset_loc) date in
              let offset_str := skipn (dot_loc + 1 + offset_loc) date in
              match parse_dt base_time_str with
              | None => UErr
              | Some base_time =>
                  match parse_fract fract_seconds_str with
                  | None => UErr
                  | Some fract =>
                      match parse_i32 offset_str with
                      | None => UErr
                      | Some offset =>
                          let offset_hours := Z.quot offset 100 in
                          let offset_minutes := Z.rem offset 100 in
                          if in_i32 (offset_hours * 3600) && in_i32 (offset_minutes * 60)
                             && in_i32 (offset_hours * 3600 + offset_minutes * 60)
                          then let seconds_offset := offset_hours * 3600 + offset_minutes * 60 in
                               UOk (base_time - seconds_offset) fract seconds_offset
                          else UPanic
                      end
                  end
              end
          end
      end
  end.

(* the guard of the round trip, executable *)
Definition carry_of (frac9 : Z) : Z := if frac9 =? NANO then 1 else 0.
Definition year_of_ts (ts : Z) : Z := fst (fst (civil_from_days (ts / 86400))).
Definition date_in_range (secs frac9 offset : Z) : bool :=
  (0 <=? frac9) && (frac9 <=? NANO)
  && (offset mod 60 =? 0) && (Z.abs offset <? 360000)
  && (0 <=? year_of_ts (secs + carry_of frac9 + offset))
  && (year_of_ts (secs + carry_of frac9 + offset) <=? 9999).

(* ------------------------------------------------------------------ *)
(* observations for the correspondence run                            *)
(* ------------------------------------------------------------------ *)
Open Scope N_scope.

Definition sort_bytes (l : list bytes) : list bytes :=
  map snd (sort_by bytes_leb (map (fun s => (s, s)) l)).

Definition ob_list (l : list bytes) : obs := OL (map OB l).
Definition ores {A} (f : A -> obs) (r : res A) : obs :=
  match r with Ok a => f a | Err _ => OE "ValueError" end.

Definition run_inside (d f : bytes) : obs := obool (is_inside d f).
Definition run_inside_any (ds : list bytes) (f : bytes) : obs :=
  OL [obool (is_inside_any ds f); obool (is_inside_or_parent_of_any ds f)].
Definition run_minsel (ps : list bytes) : obs := ob_list (sort_bytes (minimum_path_selection ps)).
(* [splitpath p; joinpath (splitpath p)] *)
Definition run_splitpath (p : bytes) : obs :=
  match splitpath p with
  | Err _ => OE "ValueError"
  | Ok l => OL [ob_list l; ores OB (joinpath l)]
  end.
(* [joinpath ps; splitpath (joinpath ps)] *)
Definition run_joinpath (ps : list bytes) : obs :=
  match joinpath ps with
  | Err _ => OE "ValueError"
  | Ok p => OL [OB p; ores ob_list (splitpath p)]
  end.
Definition run_pathjoin (ps : list bytes) : obs := OB (pathjoin ps).
(* [chunks_to_lines cs; split_lines (concat cs)] *)
Definition run_lines (cs : list bytes) : obs :=
  OL [ob_list (chunks_to_lines cs); ob_list (py_split_lines (concat cs))].

Definition ounpack (r : unpack_result) : obs :=
  match r with
  | UErr => OE "ValueError"
  | UPanic => OE "PanicException"
  | UOk ts (v, nd) off =>
      if (nd <=? 9)%nat then OL [OZ ts; OZ (v * 10 ^ (9 - Z.of_nat nd))%Z; OZ off]
      else OT "unmodelled-fraction"
  end.
Definition run_unpack (s : bytes) : obs := ounpack (unpack_highres_date s).
Definition run_date (secs frac9 : Z) (offset : option Z) : obs :=
  match format_highres_date secs frac9 (py_offset offset) with
  | None => OT "unmodelled-year"
  | Some s => OL [OB s; run_unpack s]
  end.
