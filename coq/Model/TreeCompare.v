(* Model/TreeCompare.v -- hand model (tie H) of the tree-comparison glue in /repo:

     breezy/bzr/inventorytree.py
        find_ids_across_trees / _find_ids_across_trees / _find_children_across_trees
        InventoryTree.find_related_paths_across_trees / paths2ids
        InterInventoryTree._changes_from_entries         (= Lib.Tree.mk_change)
        InterInventoryTree.iter_changes                  (generic walker)  -> [generic]
        InterInventoryTree._handle_precise_ids           -> [handle]
        InterCHKRevisionTree.iter_changes                -> [chk]
     breezy/bzr/workingtree_4.py
        InterDirStateTree.iter_changes  (only its un-filtered result and its
        require_versioned check are predicted; the comparison core is compiled
        dirstate code in bzrformats = environment)

   Environment modelled as Gallina functions validated by the correspondence
   run: CHKInventory.iter_changes (bzrformats, Rust) = [Lib.Tree.changes];
   Inventory.iter_entries_by_dir(specific_file_ids) yields exactly the listed
   ids; id2path/path2id = [path_of]/[id_of_path].

   The walker's output ORDER is not modelled (the property and the harness
   look at the sorted list): entries are visited in file-id order and the
   result is sorted by file id.  Multiplicity IS modelled (C10_no_duplicates).

   The model assumes both trees resolve a path filter to the same id set
   (true for two revision trees and for revision tree vs working tree; the
   dirstate-specific paths2ids of a working tree against its own basis tree
   object is NOT modelled; since b7b83f3 the walker looks the other side's
   entry up when the selections differ, which is a no-op under this assumption:
   the harness checks that combination with the oracle only).

   No proofs here. *)
From Coq Require Import List NArith ZArith Bool Arith String.
From BV Require Import Lib.Bytes Lib.Obs Lib.Tree.
Import ListNotations.
Open Scope list_scope.
Local Open Scope nat_scope.

Definition opt_list {A} (o : option A) : list A :=
  match o with Some x => [x] | None => [] end.

(* a Python set of ids, kept as a duplicate-free list *)
Definition dedupe (l : list fid) : list fid := nodup Nat.eq_dec l.

(* ---------------------------------------------------- path filter -> ids *)

(* _find_ids_across_trees: every tree is asked for the id at each path *)
Definition path_ids (trees : list tree) (F : list path) : list fid :=
  dedupe (flat_map (fun p => flat_map (fun t => opt_list (id_of_path t p)) trees) F).

Definition not_versioned (trees : list tree) (F : list path) : list path :=
  filter (fun p => forallb (fun t => match id_of_path t p with None => true | Some _ => false end) trees) F.

(* _find_children_across_trees: the while-pending loop *)
Fixpoint close_children (fuel : nat) (trees : list tree) (seen pending : list fid) : list fid :=
  match fuel with
  | 0 => seen
  | S f =>
      match pending with
      | [] => seen
      | _ =>
          let new := dedupe (filter (fun i => negb (mem i seen))
                               (flat_map (fun i => flat_map (fun t => children t i) trees) pending)) in
          close_children f trees (seen ++ new) new
      end
  end.

Definition size2 (a b : tree) : nat := List.length a + List.length b + 2.

(* paths2ids(specific_files, [other]) ; None = no filter *)
Definition specific_ids (a b : tree) (F : option (list path)) : option (list fid) :=
  match F with
  | None => None
  | Some fs => let s := path_ids [b; a] fs in Some (close_children (size2 a b) [b; a] s s)
  end.

Definition in_sel (S : option (list fid)) (i : fid) : bool :=
  match S with None => true | Some s => mem i s end.

(* ---------------------------------------------------- the generic walker *)

(* the "Yield all remaining source paths" loop body *)
Definition removal_change (a b : tree) (i : fid) : change :=
  match lookup i a with
  | Some x => mkChange i (path_of a i, match lookup i b with Some _ => path_of b i | None => None end)
                true (true, false) (e_parent x, None)
                (Some (e_name x), None) (Some (e_kind x), None) (Some (e_exec x), None)
  | None => mk_change a b i
  end.

(* main loops of InterInventoryTree.iter_changes:
   (changes yielded while walking the target, changes yielded for the rest of the source) *)
Definition generic_main (a b : tree) (S : option (list fid)) (incl : bool)
  : list change * list change :=
  let tgt := filter (in_sel S) (keys b) in
  let src := filter (in_sel S) (keys a) in
  (filter (fun c => incl || is_changed c) (map (mk_change a b) tgt),
   map (removal_change a b) (filter (fun i => negb (mem i tgt)) src)).

Definition dir_to_nondir (c : change) : bool :=
  match fst (c_kind c), snd (c_kind c) with
  | Some KDir, Some KDir => false
  | Some KDir, _ => true
  | _, _ => false
  end.

(* one id examined by _handle_precise_ids: (result, changes) ; None = the code
   would crash (both entries missing -- unreachable for ids taken from the trees) *)
Definition examine (a b : tree) (disc : list change) (i : fid) : option (change * bool) :=
  match (match disc with
         | [] => None          (* "if discarded_changes:" is false for an empty dict *)
         | _ => find (fun c => Nat.eqb (c_id c) i) disc
         end) with
  | Some c => Some (c, true)
  | None =>
      match lookup i a, lookup i b with
      | None, None => None
      | _, _ => let c := mk_change a b i in Some (c, is_changed c)
      end
  end.

Fixpoint map_opt {A B} (f : A -> option B) (l : list A) : option (list B) :=
  match l with
  | [] => Some []
  | x :: r => match f x, map_opt f r with
              | Some y, Some ys => Some (y :: ys)
              | _, _ => None
              end
  end.

(* _handle_precise_ids.  P = precise_file_ids, C = changed_file_ids.
   Returns (changes yielded, final changed_file_ids, every id examined);
   None = fuel exhausted (the real loop would still be running) or a crash. *)
Fixpoint handle (fuel : nat) (a b : tree) (disc : list change) (P C : list fid)
         (out : list change) (ex : list fid) : option (list change * list fid * list fid) :=
  let P1 := filter (fun i => negb (mem i C)) (dedupe P) in
  match P1 with
  | [] => Some (out, C, ex)
  | _ =>
      match fuel with
      | 0 => None
      | S f =>
          (* something at the same output path in source must be included *)
          let olds := flat_map (fun p => match path_of b p with
                                         | Some pa => opt_list (id_of_path a pa)
                                         | None => []
                                         end) P1 in
          (* since 5cddeb1: changed_file_ids is subtracted again after adding the old ids *)
          let cur := filter (fun i => negb (mem i C)) (dedupe (P1 ++ olds)) in
          match map_opt (examine a b disc) cur with
          | None => None
          | Some rs =>
              let newP := flat_map (fun r => opt_list (snd (c_parent (fst r)))
                                             ++ (if snd r && dir_to_nondir (fst r)
                                                 then children a (c_id (fst r)) else [])) rs in
              let em := map fst (filter (fun r => snd r) rs) in
              handle f a b disc newP (C ++ map c_id em) (out ++ em) (ex ++ cur)
          end
      end
  end.

Definition handle_fuel (a b : tree) : nat := size2 a b * size2 a b.

Definition parents_of (cs : list change) : list fid :=
  flat_map (fun c => opt_list (snd (c_parent c))) cs.

(* InterInventoryTree.iter_changes (versioned part) *)
Definition generic_full (a b : tree) (F : option (list path)) (incl : bool)
  : option (list change * list fid) :=
  let S := specific_ids a b F in
  let '(em, rm) := generic_main a b S incl in
  match S with
  | None => Some (em ++ rm, [])
  | Some _ =>
      match handle (handle_fuel a b) a b [] (parents_of em) (map c_id (em ++ rm)) [] [] with
      | Some (h, _, ex) => Some (em ++ rm ++ h, ex)
      | None => None
      end
  end.

Definition generic (a b : tree) (F : option (list path)) (incl : bool) : option (list change) :=
  option_map fst (generic_full a b F incl).

(* ---------------------------------------------------- the CHK fast path *)

(* since b515e80 the source path is source.id2path(file_id) *)
Definition unchanged_change (a b : tree) (i : fid) (e : entry) : change :=
  mkChange i (path_of a i, path_of b i) false (true, true)
    (e_parent e, e_parent e) (Some (e_name e), Some (e_name e))
    (Some (e_kind e), Some (e_kind e)) (Some (e_exec e), Some (e_exec e)).

(* InterCHKRevisionTree.iter_changes; [changes a b] stands for
   target.root_inventory.iter_changes(source.root_inventory) *)
Definition chk (a b : tree) (F : option (list path)) (incl : bool) : option (list change) :=
  let S := specific_ids a b F in
  let core := changes a b in
  let r := match S with
           | None => Some (core, map c_id core)
           | Some s =>
               let main := filter (fun c => mem (c_id c) s) core in
               let disc := filter (fun c => negb (mem (c_id c) s)) core in
               match handle (handle_fuel a b) a b disc (parents_of main) (map c_id main) [] [] with
               | Some (h, C, _) => Some (main ++ h, C)
               | None => None
               end
           end in
  match r with
  | None => None
  | Some (out, C) =>
      Some (out ++ (if incl
                    then flat_map (fun ie => if in_sel S (fst ie) && negb (mem (fst ie) C)
                                             then [unchanged_change a b (fst ie) (snd ie)] else []) b
                    else []))
  end.

(* ---------------------------------------------------- unversioned files *)

Fixpoint path_prefixb (d p : path) : bool :=
  match d, p with
  | [], _ => true
  | x :: d', y :: p' => bytes_eqb x y && path_prefixb d' p'
  | _ :: _, [] => false
  end.

(* want_unversioned: target.extras() filtered by osutils.is_inside_any *)
Definition unversioned (F : option (list path)) (unv : bool) (extras : list path) : list path :=
  if unv then filter (fun p => match F with
                               | None => true
                               | Some fs => existsb (fun d => path_prefixb d p) fs
                               end) extras
  else [].

(* ---------------------------------------------------- observation *)

Fixpoint insert_by_id (c : change) (l : list change) : list change :=
  match l with
  | [] => [c]
  | d :: r => if Nat.ltb (c_id c) (c_id d) then c :: l else d :: insert_by_id c r
  end.
Definition sort_by_id (l : list change) : list change := fold_right insert_by_id [] l.

Definition opath (p : path) : obs := OB (join [47%N] p).
Definition okind (k : kind) : obs :=
  OT (match k with KFile => "file" | KDir => "directory" | KSymlink => "symlink"
              | KTreeRef => "tree-reference" end)%string.
Definition opair2 {A} (f : A -> obs) (p : option A * option A) : obs :=
  OL [oopt f (fst p); oopt f (snd p)].

Definition ochange (c : change) : obs :=
  OL [ onat (c_id c); opair2 opath (c_path c); obool (c_changed_content c);
       OL [obool (fst (c_versioned c)); obool (snd (c_versioned c))];
       opair2 onat (c_parent c); opair2 OB (c_name c); opair2 okind (c_kind c);
       opair2 obool (c_exec c) ].

Definition oresult (r : option (list change)) (unvs : list path) : obs :=
  match r with
  | None => OE "ModelFuel"
  | Some cs => OL [olist ochange (sort_by_id cs); olist opath unvs]
  end.

(* One correspondence case.  [rv] = require_versioned.  Slots:
   0 generic walker on two revision trees      1 CHK fast path on the same trees
   2 generic walker, revision tree vs working tree (with unversioned files)
   3 dirstate fast path, basis vs working tree: predicted only without filter
     (and its PathsNotVersionedError check) *)
Definition run_case (a b : tree) (F : option (list path)) (incl unv rv : bool)
           (extras : list path) : obs :=
  let bad := match F with
             | Some fs => rv && negb (match not_versioned [b; a] fs with [] => true | _ => false end)
             | None => false
             end in
  if bad then let e := OE "PathsNotVersionedError" in OL [e; e; e; e]
  else
    let g := generic a b F incl in
    let uv := unversioned F unv extras in
    OL [ oresult g []; oresult (chk a b F incl) []; oresult g uv;
         match F with None => oresult g uv | Some _ => ON end ].
